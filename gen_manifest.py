#!/usr/bin/env python3
"""Regenerates MANIFEST.json from the table below (kept in one place so it stays valid)."""
import json

CLAIMED = {
    "C19": {
        "technique": "Lean 4 theorems about the text.rs model (tspan contents, offset direction, classes, line offsets) and the escape round trip + attribute-for-attribute correspondence of process_text_attr",
        "text": "Machine-checked proof (Lean 4), for all strings, line lists, locations and offsets: the character data written for a generated text / tspan element unescapes to exactly its content (content_survives_writer); multi-line text yields exactly one tspan per line with each line verbatim and an empty line kept as a zero-width space (tspan_per_line, tspan_content_verbatim, pre_keeps_characters); a value without backslashes is taken as is (textString_plain); text-offset moves the anchor inward for text inside a shape and outward — the exact negation — for lines, points, text elements and d-text-outside, along the axes named by text-loc and not at all at the centre (offset_direction, outside_is_inside_negated); alignment classes follow the anchor and flip outside (anchor_classes_centre, anchor_classes_flip); the first tspan is offset to top-, centre- or bottom-justify the block (first_line_offsets). The whole of process_text_attr (attribute moves, class split, presentation attributes, tspan construction) is a hand model compared attribute for attribute with the implementation on hostile strings × 6 shapes × 13 text-loc forms × class and offset options; at document level the expat-parsed character data is compared with the author's lines for the four carriers (text attribute, element content, CDATA, <text> element) together with the anchor position and the unchanged shape.",
        "note": "Exact rationals for f32; text.rs is hand-modelled (Svgdx/Geom/Text.lean). The backslash-n grammar of text_string is proved only for backslash-free strings plus worked instances; the rest is correspondence. A genuine defect (content escaped twice) was repaired first.",
        "design_ref": "DESIGN.md §7 C19",
    },
    "C08": {
        "technique": "Lean 4 theorems over the translated box algebra (expand/round/combine) and the root-attribute model, plus accumulation lemmas of the control skeleton + root/extent document correspondence",
        "text": "Machine-checked proof (Lean 4), for all rational boxes, borders, scales and attribute sets: the advertised extent is the content box grown by exactly the border on each side and rounded outward — it encloses the grown box, has integral coordinates and moves each side by less than one unit (round_encloses_tight, expand_by_border, extent_encloses); accumulation is a commutative, associative, idempotent union, so the result is independent of the order in which retry passes let elements succeed (combine_comm, combine_assoc, combine_idem, union_order_independent); a tag that fails in a pass hands the accumulated box on unchanged and one that succeeds is united exactly once (failed_tag_contributes_nothing, succeeded_tag_united_once); with nothing supplied, viewBox is the extent and width/height its size times scale in mm (synthesised_geometry); author width/height are kept (author_width_height_verbatim) and a single supplied dimension determines the other from the aspect ratio in the same unit (width_determines_height); version and namespace are added only when missing (version_namespace_only_if_missing). write_root_svg / split_unit / the transform handling of bounding boxes are hand-modelled (Svgdx/Doc/*) and compared with transform_str on generated documents (groups with transforms, defs/symbol/clipPath content, points, failing elements, all root-attribute combinations); an independent extent calculator is the oracle.",
        "note": "Exact rationals for f32 (generators on the exactness grid, tolerance otherwise). Three genuine defects were repaired first (rotate/scale bounding boxes, NaN dimension). Text extents are not part of the box (the code counts only the anchor point), as the property's 'drawn content' is read through the code's bbox definition.",
        "design_ref": "DESIGN.md §7 C08",
    },
    "C10": {
        "technique": "Lean 4 confluence theorem for the retry scheduler (all n! orders, any number of items) + theorems about the concrete control/geometry model supplying its hypotheses + permutation and unsatisfiable-reference correspondence/oracle streams",
        "text": "Machine-checked proof (Lean 4) about an executable model of the retry loop of process_tags (Svgdx.Sched: one pass evaluates pending items in order, successes become visible at once, failures are queued, a pass without progress stops): for any list of items with unique ids whose evaluation is monotone in the set of resolved elements, every permutation of the list succeeds or fails alike and assigns every element the same value (order_independent, i.e. all n! sibling orders, by a reachable-environment / maximality argument, no bound on n); a success resolved every element consistently with the final environment (success_is_complete); a failure exhibits an element unresolved in every environment any order can reach - unknown id, cycle, target without a box (failure_is_unsatisfiable); the pass budget never decides (passes_suffice); a kernel-checked counterexample shows that visibility before resolution - the defect repaired in the code - breaks it. About the concrete model of the code (hand-written, tied by correspondence): early registration leaves the element map untouched (early_registration_invisible); unknown ids and targets without a bounding box are errors, never the attribute left as it was (unknown_id_is_error, missing_bbox_is_error_pos/size); a pass with no completed tag and no newly resolved element ends in the MultiError, and idle passes are bounded by loop-limit (no_progress_is_error, idle_passes_bounded); output is sorted by document index and a permutation of what was produced (output_in_document_order). Implementation vs model on reference DAGs in random orders (flat and with a group), Svgdx.Sched.run vs the implementation on the dependency structure, all n! orders (n<=4) or 12 orders against an independent geometry calculator, and unsatisfiable documents in 4 orders.",
        "note": "Partial as a proof: that the concrete element evaluation (Ctl.genNode over the geometry model) is monotone in the element map is not proved; it is what the three repaired defects violated and is covered by the permutation oracle and the correspondence streams. '^' is excluded by the property. Exact rationals for f32.",
        "design_ref": "DESIGN.md §7 C10",
    },
    "C14": {
        "technique": "Lean 4 proof that the fuelled recursive-descent evaluator model agrees with a conventional denotation of grammar-shaped trees (any operator instance), error theorems for arbitrary token strings + bit-exact f32/PCG correspondence with the implementation and a reference evaluator",
        "text": "Machine-checked proof (Lean 4), parametric in the number type, the variable lookup and the random source: for every grammar-shaped expression tree, evaluating its printed token list gives exactly the conventional denotation — value and final random state — and fails exactly when the denotation fails (eval_print, eval_print_expr, eval_print_fails, eval_print_iff), also from the printed character string through the tokenizer (tokenize_render, eval_print_string); corollaries fix precedence and associativity (sub_left_assoc, mul_binds_tighter, mul_level_left_assoc, neg_binds_tightest, parens_override, logical_one_level, list_flattens), 0/1 comparisons (comparison_zero_one, comparison_result_zero_or_one), Euclidean remainder (rem_nonneg, rem_is_percent), degrees (sin_in_degrees); a successful evaluation advances the random source once per random/randint node, no short circuit (draws_eq_occurrences, pcg_counts_random, pcg_counts_randint, pcg_words); a result without '$' or '{{' is not evaluated again (eval_once_per_element_partial); any success saw balanced parentheses, known names, evaluable variables (success_needs_wellformed; unbalanced_fails, unknown_function_fails, undefined_variable_fails, unevaluable_variable_fails, self_reference_fails, circular_variable_error, undefined_variable_error, wrong_arity_fails, wrong_arity_call_fails). The model (all 53 functions, tokenizer, PCG32 with rand 0.9's range algorithm) is run as Float32 against the implementation bit for bit on generated trees, damaged expressions, token soup and whole documents; a reference evaluator written from the documentation is the oracle.",
        "note": "Function names/operators come from generated tables. libm functions and pi are parameters of the proofs (Float32 in the driver; they were bit-identical here). Element references inside expressions are stubbed (empty context); min/max over NaN is skipped (NaN sign). One genuine defect repaired (clamp NaN panic); open finding: unbounded recursion on deeply nested expressions.",
        "design_ref": "DESIGN.md §7 C14",
    },
    "C20": {
        "technique": "Lean 4 theorems about the theme-builder model over generated rule tables (rule present iff class used, order/permutation invariance) + byte-exact correspondence of the <style> text",
        "text": "Machine-checked proof (Lean 4), for all class and element lists and theme configurations: the rule for a d-* class appears in the generated style iff that class is used (fill/stroke/text colour families, stroke widths, text sizes, patterns and the plain vocabulary: *_rule_iff_used, plain_rule_iff_used, no_rule_without_class, no_rule_outside_vocabulary, no_class_no_rule), auxiliary definitions (markers, patterns) accompany their classes (aux_rules_present); the output depends on the set of classes only — not on order or multiplicity (build_mem_invariant, build_perm_invariant) — and rules come out in the fixed documented order (build_order_checked). Rule tables, colour lists and strings are regenerated from themes.rs on every run; the builder is compared byte for byte with ThemeBuilder (hook theme_build) on random class/element sets x all themes, and at document level the classes found by an independent scan of the output are checked against the rules present.",
        "note": "The iteration order of the class set is modelled as sorted (the code uses BTreeSet after the determinism fix). A genuine defect (root-element classes ignored) was repaired first.",
        "design_ref": "DESIGN.md §7 C20",
    },
    "C02": {
        "technique": "Lean 4 theorems about the writer/escape/root-attribute models (all strings, all elements) + byte-exact writer correspondence; expat oracle for the composition",
        "text": "Machine-checked proof (Lean 4), for all strings, elements and configurations, of each ingredient of well-formedness in the model of OutputList::write_to: escaping is exact (unescape (escape s) = s) and safe (no < > quote characters survive) — escaping_exact, escaping_safe, attr_value_has_no_quote; generated comments never contain '--' nor end in '-' (comments_delimited); every emitted element has unique attribute names, with class written once (attributes_unique, attrmap_insert_unique, over the AttrMap lemma library); the root always carries a namespace and a version and keeps the author's attributes (root_namespace_version). The writer model is compared byte for byte with the implementation on random event lists over an XML-hostile alphabet (hook write_events). The composition 'an independent parser accepts every successful output' is decided per document by the expat oracle over documents that route hostile strings into every sink under random configurations.",
        "note": "Partial as a proof: there is no single theorem wf(write(events)) against an independent grammar, and balancedness of the generated event list is established by the oracle, not yet by induction over the control skeleton. quick-xml's own serialisation is modelled, not verified. Five genuine defects were repaired (KNOWN_FINDINGS.txt).",
        "design_ref": "DESIGN.md §7 C02",
    },
    "C03": {
        "technique": "Lean 4 proof that the tokenizer partitions its input (read-then-write = identity) + control-skeleton theorems that real SVG is not processed; reader and writer correspondence streams",
        "text": "Machine-checked proof (Lean 4): the reader model cuts any accepted input into consecutive slices and pass-through writes them back, so the output equals the input byte for byte — hence the same infoset — for every document (passthrough_identity, tokens_partition_input, by induction over the input); the implementation's writer departs from the source slice only by blanks inside end tags and after DOCTYPE (writer_form); in the control skeleton a document whose first element is <svg xmlns=SVG> returns its input events with no evaluation, and an embedded namespaced <svg> subtree is handed on untouched (real_svg_untouched, nested_real_svg_untouched, isRealSvg_first_element). The tokenizer model is compared event by event with quick-xml (hook read_events) and the model's read-then-write byte for byte with transform_str on generated well-formed SVG with references, CDATA, comments, PIs, doctype, odd quoting and spacing, under random configurations; expat infoset equality is the oracle.",
        "note": "quick-xml's tokenizer is third-party code: modelled (Svgdx/Xml/Raw.lean) and tied by correspondence, not verified. A genuine defect (re-escaping, blank trimming, class de-duplication on pass-through) was repaired first.",
        "design_ref": "DESIGN.md §7 C03",
    },
    "C05": {
        "technique": "Lean 4 theorems: written root is a real-SVG root; real SVG is not processed; read-then-write reproduces writer output; second-pass correspondence",
        "text": "Machine-checked proof (Lean 4) of the three links of the fixed-point argument: (i) for every author attribute set without a namespace, every extent and configuration, the root written by write_root_svg has xmlns = the SVG namespace (output_root_is_real_svg; author attributes kept, author_namespace_kept); (ii) a real-SVG document is handed through unprocessed under any configuration (second_pass_not_processed); (iii) read-then-write reproduces every document whose end tags and DOCTYPE are spelled the way the writer spells them (second_pass_identity_partial, from the tokenizer partition theorem). T_c2(T_c1(x)) = T_c1(x) is then checked byte for byte on generated documents under random configuration pairs, and the second pass is compared with the model's read-then-write.",
        "note": "Partial as a proof: the byte-level link between (i) and (ii) — that reading the written root tag yields the attribute just written — rests on the writer/reader correspondence streams, and an author-supplied non-SVG xmlns on the root is outside the guarantee (documented in the theorem). use_local_styles is excluded (random id).",
        "design_ref": "DESIGN.md §7 C05",
    },
    "C15": {
        "technique": "Lean 4 mutual induction over the control-skeleton model (state restoration for every outcome) + document-level correspondence with end-of-run probe",
        "text": "Machine-checked proof (Lean 4) over a model of generate_events / process_tags / g / symbol / loop / for / if / var / specs / container, parametric in the expression evaluator and for all fuel: every element, whatever its outcome (success, any error, limit error), leaves every enclosing variable scope, the element stack, the depth counter and the in-specs flag exactly as it found them (Proofs/CtlInv.allInv, a 14-function mutual induction; scopes_restored); a group restores the entire scope stack, so values set inside are discarded when it closes and a failed-then-retried group leaves nothing behind (group_restores_bindings); lookup is innermost-first and element attributes shadow for descendants only (lookup_innermost, element_attrs_shadow); all attributes of one <var> are evaluated in the pre-state (var_parallel_assignment) and only touch the innermost scope (var_touches_innermost_only). The model is tied to the code by comparing output elements and the end-of-run probe (depth, scope-stack height, element-stack height, in-specs; hook verif_probe) on generated nestings with forward references; a lexical-scoping reference interpreter is the oracle.",
        "note": "Model is hand-written (Svgdx/Ctl/Gen.lean); <reuse> scoping is covered by correspondence only once C18 lands. Known finding (open): an element deferred by a forward reference sees assignments made later in the first pass (KNOWN_FINDINGS.txt). Values containing '$' are re-substituted by the second attribute pass (tested behaviour, `$$select`), so generators keep '$' out of values.",
        "design_ref": "DESIGN.md §7 C15",
    },
    "C17": {
        "technique": "Lean 4 mutual induction over the control-skeleton model (depth restored for every outcome) + boundary theorems + L-1/L/L+1 document correspondence",
        "text": "Machine-checked proof (Lean 4), parametric in the evaluator and for all fuel: the depth counter is restored by every element, pass and document fragment for every outcome (depth_restored, depth_restored_node/pass/document from the mutual induction allInv), so any number of siblings start at the same depth — depth measures nesting, not length; an element one level too deep is rejected with the depth error and nothing else happens, one within the limit is dispatched (depth_limit_rejects, depth_within_limit_dispatches); a limit error ends the pass instead of being retried (limit_error_final); a loop wanting one more pass than loop-limit is an error, and a count loop stops exactly at its count (loop_limit_rejects, count_loop_stops); a variable value is rejected iff its byte length exceeds var-limit (var_limit_exact); <config> limits take effect (config_limits_apply). Tied to the code by document correspondence on quantities L-1, L, L+1 for each limit, with flat tails of up to 400 siblings, including the end-of-run depth probe; the two-sided oracle gives replays.",
        "note": "while/until loops and expression-valued counts join the stream when the expression model is wired into the driver; reuse recursion depth is covered by C18's stream. Four genuine defects were found and fixed (KNOWN_FINDINGS.txt).",
        "design_ref": "DESIGN.md §7 C17",
    },
    "C13": {
        "technique": "Lean 4 theorems about the connector model (argmin fold, corner point lists for all 16 direction pairs) over the translated locspec/calc_offset + document-level correspondence",
        "text": "Machine-checked proof (Lean 4), for all rational boxes and points: the location search is an argmin with first-minimum ties — the chosen location(s) are candidates of the connector kind and no candidate (pair) is closer (argminFirst_minimal, closest_minimal, shortest_minimal), and every candidate lies on the box boundary (candidates_on_boundary); the h/v coordinate is the exact middle of the overlap interval (overlapMid_in_overlap); for all 16 pairs of edge directions and every corner-offset, a corner polyline starts and ends at the two endpoints, consists only of axis-parallel segments, leaves and enters along the edge normals (corner_rectilinear), degrades to the straight segment when an end has no edge direction (corner_without_dir), bends at calc_offset (corner_offset_z) and rejects a percent offset for U shapes (corner_u_needs_absolute). connector.rs is hand-modelled (Svgdx/Geom/Connector.lean) and compared attribute-for-attribute with transform_str over all relative placements, endpoint forms and connector kinds.",
        "note": "Exact rationals for f32. h/v lines between boxes that do not overlap on the shared axis are outside the property's wording (no overlap to take the middle of); the model mirrors the code there and the oracle does not judge them. Removal of start/end/edge-type/corner-offset is checked by correspondence and oracle, not yet by a theorem.",
        "design_ref": "DESIGN.md §7 C13",
    },
    "C12": {
        "technique": "Lean 4 theorems over the translated box algebra (combine/intersect/expand/shrink) by induction on the reference list + document-level correspondence of the containment model",
        "text": "Machine-checked proof (Lean 4), for reference lists of any length and all rational boxes: the union encloses every listed box (unionAll_encloses) and a non-negative margin only grows it (expand_encloses), with the 1-4 margin values applied in CSS top/right/bottom/left order (trbl_css_order, expand_absolute, expand_ratio); a surrounding rect carries exactly the grown box (surround_rect_exact, over the AttrMap lemma library); a surrounding circle/ellipse reaches every corner up to the measured defect of the f32 SQRT_2 constant, 2/s^2 <= 1+1e-7 (sqrt2_defect, surround_circle_circumscribes, surround_ellipse_circumscribes); the intersection lies within every listed area and shrinking keeps it inside (intersectAll_within, shrink_within, inside_circle_inscribed, inscribed_square_in_circle); surround/inside/margin are removed (containment_attrs_removed); both at once is an error (both_is_error). The handle_containment string pipeline is a hand model tied by the doc/containment correspondence stream.",
        "note": "Exact rationals for f32; SQRT_2/FRAC_1_SQRT_2 are the exact values of the f32 constants and the circumscription theorems carry the resulting epsilon explicitly. Percent base (max side for surround, min side for inside) is stated as the code has it. An empty intersection yields no geometry and no error in the code; the property does not say what should happen and the oracle does not judge it.",
        "design_ref": "DESIGN.md §7 C12",
    },
    "C09": {
        "technique": "Lean 4 theorems over the translated locspec/calc_offset/to_bbox code and generated xy-loc/LocSpec tables + document-level correspondence of the positioning pipeline model",
        "text": "Machine-checked proof (Lean 4), for all rational boxes, sizes, gaps and offsets: an element placed with |h |H |v |V sits beside the referenced box at exactly the gap and centred on the shared axis, its size unchanged (dir_h/H/v/V, dir_size); chains of any length stay exact (chainH_exact, by induction on the chain); the nine named locations and the four edge forms (positive / negative units, percent) denote the documented points (locspec_named, edge_offset_semantics, edge_points, ratio_ends); for every row of the generated xy-loc table, and for the default and cxy anchors, the solved box has the named anchor on the requested point (xy_loc_anchor_on_target, default_and_centre_anchor); scalar references and relative sizes take the box's values (scalarspec_values, size_adjust). The attribute-string pipeline that feeds these functions is a hand-written Lean model compared attribute-for-attribute with transform_str on generated reference documents; an independent reference calculator supplies replays.",
        "note": "Exact rationals stand for f32 (generators stay on an exactness grid; percent forms are compared after the 3-decimal rounding). Group referents are exercised by the C08/C10 document streams, not here. Identifier classification is ASCII in the model.",
        "design_ref": "DESIGN.md §7 C09",
    },
    "C11": {
        "technique": "Lean 4 theorems over the Rust->Lean translated Position/BoundingBox code + correspondence of the hand-modelled element pipeline",
        "text": "Machine-checked proof (Lean 4) that the constraint solver — regenerated from position.rs on every run — returns the described box for every sufficient or over-specified consistent combination of start/end/centre/length on each axis, for all rational boxes and all shapes (extent_complete, to_bbox_complete, pairs_agree, circle_one_position_per_axis), and that the emitted attributes depend on the spelling only through that box (setPositionAttrs_congr). The string-level pipeline (shorthand expansion, attribute removal, AttrMap order) is a hand-written Lean model tied to the code by an attribute-for-attribute correspondence run; a spelling-pair oracle on transform_str supplies replays.",
        "note": "Exact rationals stand for f32 (values on the half-unit grid are exact in f32). The translator and the correspondence harness are trusted for the tie; shorthand splitting is covered by correspondence, its Lean theorems are listed in Props/C11.lean.",
        "design_ref": "DESIGN.md §7 C11",
    },
}

ALL = [f"C{i:02d}" for i in range(1, 21)]

def main():
    checks = []
    for pid in ALL:
        if pid not in CLAIMED:
            continue
        c = CLAIMED[pid]
        checks.append({
            "property_id": pid,
            "quick_cmd": f"./check {pid} --tier quick",
            "thorough_cmd": f"./check {pid} --tier thorough",
            "evidence_file": f"/verif/evidence/{pid}.json",
            "replay_cmd_template": f"./check {pid} --replay {{path}}",
            "engine": "lean4-proof+correspondence",
            "level_claimed": {"category": "proof", "text": c["text"], "design_ref": c["design_ref"]},
            "level_note": c["note"],
            "technique": c["technique"],
        })
    manifest = {
        "version": 1,
        "setup_cmd": "./setup.sh",
        "hooks": {
            "guard": "cargo feature `verif-hooks` (off by default)",
            "enable": "tools/vharness depends on svgdx = { path = \"/repo\", features = [\"cli\", \"server\", \"verif-hooks\"] }",
            "baseline_off_cmd": "cd /repo && cargo test --workspace --no-fail-fast --offline",
            "source_commits": json.load(open("/verif/hook_commits.json")),
            "add_only": True,
        },
        "engines": [
            {"name": "lean4-proof+correspondence", "path": "/verif/lean",
             "serves_properties": sorted(CLAIMED),
             "kind_free_text": "Lean 4.33 model (Svgdx/*) + theorems (Svgdx/Props/*), Rust->Lean translator (tools/vtranslate) regenerating Svgdx/Gen on every run, correspondence harness (tools/vharness) against a compiled model driver"},
        ],
        "checks": checks,
        "notes": "Every check rebuilds from /repo's working tree: translator -> lake build of the property's theorems -> harness (links /repo with verif-hooks) -> correspondence + oracle search. See DESIGN.md.",
        "not_applicable": [
            {"property_id": pid, "reason": "check not built yet at this commit (work in progress; the technique applies, see DESIGN.md §7)"}
            for pid in ALL if pid not in CLAIMED
        ],
    }
    json.dump(manifest, open("/verif/MANIFEST.json", "w"), indent=1)

if __name__ == "__main__":
    main()
