#!/usr/bin/env python3
"""Regenerates MANIFEST.json from the table below (kept in one place so it stays valid)."""
import json

CLAIMED = {
    "C11": {
        "technique": "Lean 4 theorems over the Rust->Lean translated Position/BoundingBox code + correspondence of the hand-modelled element pipeline",
        "text": "Machine-checked proof (Lean 4) that the constraint solver — regenerated from position.rs on every run — returns the described box for every sufficient or over-specified consistent combination of start/end/centre/length on each axis, for all rational boxes and all shapes (extent_complete, to_bbox_complete, pairs_agree, circle_one_position_per_axis), and that the emitted attributes depend on the spelling only through that box (setPositionAttrs_congr). The string-level pipeline (shorthand expansion, attribute removal, AttrMap order) is a hand-written Lean model tied to the code by an attribute-for-attribute correspondence run; a spelling-pair oracle on transform_str supplies replays.",
        "note": "Exact rationals stand for f32 (values on the half-unit grid are exact in f32). The translator and the correspondence harness are trusted for the tie; shorthand splitting is covered by correspondence, its Lean theorems are listed in Props/C11.lean.",
        "design_ref": "DESIGN.md §7 C11",
    },
}

ALL = [f"C{i:02d}" for i in range(1, 21)]

def main():
    checks = []
    for pid in ALL:
        if pid not in CLAIMED:
            continue
        c = CLAIMED[pid]
        checks.append({
            "property_id": pid,
            "quick_cmd": f"./check {pid} --tier quick",
            "thorough_cmd": f"./check {pid} --tier thorough",
            "evidence_file": f"/verif/evidence/{pid}.json",
            "replay_cmd_template": f"./check {pid} --replay {{path}}",
            "engine": "lean4-proof+correspondence",
            "level_claimed": {"category": "proof", "text": c["text"], "design_ref": c["design_ref"]},
            "level_note": c["note"],
            "technique": c["technique"],
        })
    manifest = {
        "version": 1,
        "setup_cmd": "./setup.sh",
        "hooks": {
            "guard": "cargo feature `verif-hooks` (off by default)",
            "enable": "tools/vharness depends on svgdx = { path = \"/repo\", features = [\"cli\", \"server\", \"verif-hooks\"] }",
            "baseline_off_cmd": "cd /repo && cargo test --workspace --no-fail-fast --offline",
            "source_commits": json.load(open("/verif/hook_commits.json")),
            "add_only": True,
        },
        "engines": [
            {"name": "lean4-proof+correspondence", "path": "/verif/lean",
             "serves_properties": sorted(CLAIMED),
             "kind_free_text": "Lean 4.33 model (Svgdx/*) + theorems (Svgdx/Props/*), Rust->Lean translator (tools/vtranslate) regenerating Svgdx/Gen on every run, correspondence harness (tools/vharness) against a compiled model driver"},
        ],
        "checks": checks,
        "notes": "Every check rebuilds from /repo's working tree: translator -> lake build of the property's theorems -> harness (links /repo with verif-hooks) -> correspondence + oracle search. See DESIGN.md.",
        "not_applicable": [
            {"property_id": pid, "reason": "check not built yet at this commit (work in progress; the technique applies, see DESIGN.md §7)"}
            for pid in ALL if pid not in CLAIMED
        ],
    }
    json.dump(manifest, open("/verif/MANIFEST.json", "w"), indent=1)

if __name__ == "__main__":
    main()
