//! Gen/BoxList.lean: the list-level box functions of position.rs, regenerated from the syn AST.
//!
//!  * `BoundingBoxBuilder` (`new`, `extend` with `&mut self` as a state-passing function, `build`)
//!  * `BoundingBox::union` (iterator chain: `into_iter`, `filter`, `fold`, `reduce` over a list)
//!  * `BoundingBox::intersection`: `let mut it = xs.into_iter(); let mut v = it.next();` followed by
//!    `while C { if let Some(p) = it.next() { .. } else { break; } }` and a final value, as a function
//!    recursive on the remaining items; `?` on an `Option` returns `none`.
//!
//! An iterator is the list of its remaining items (`Iter.next`, `Iter.reduce`: fixed prelude).

use super::connector::MutVar;
use super::text::position_world;
use super::*;

const PRELUDE: &str = "namespace Iter

/-- Rust `Iterator::reduce` over the remaining items -/
def reduce {α : Type} (f : α → α → α) : List α → Option α
  | [] => none
  | x :: xs => some (List.foldl f x xs)

/-- Rust `Iterator::next`: the item and the remaining items -/
def next {α : Type} : List α → Option α × List α
  | [] => (none, [])
  | x :: xs => (some x, xs)

end Iter

";

fn mentions_ident(stmts: &[Stmt], name: &str) -> bool {
    struct V<'a>(&'a str, bool);
    impl<'a, 'ast> syn::visit::Visit<'ast> for V<'a> {
        fn visit_ident(&mut self, i: &'ast proc_macro2::Ident) {
            if i == self.0 {
                self.1 = true;
            }
        }
    }
    let mut v = V(name, false);
    for s in stmts {
        syn::visit::Visit::visit_stmt(&mut v, s);
    }
    v.1
}

/// `X.next()` with X a plain identifier
fn next_call(e: &Expr) -> Option<String> {
    if let Expr::MethodCall(mc) = e {
        if mc.method == "next" && mc.args.is_empty() {
            if let Expr::Path(p) = &*mc.receiver {
                return p.path.get_ident().map(|i| i.to_string());
            }
        }
    }
    None
}

/// a function whose body walks an iterator with `next()` in a `while` loop
fn iter_loop_fn(w: &World, this: &str, f: &ImplItemFn) -> R<String> {
    let name = f.sig.ident.to_string();
    let what = format!("{this}::{name}");
    let mut params = vec![];
    let mut list_elem: BTreeMap<String, String> = BTreeMap::new();
    for a in &f.sig.inputs {
        let FnArg::Typed(pt) = a else {
            return Err(format!("{what}: unexpected receiver"));
        };
        let Pat::Ident(pi) = &*pt.pat else {
            return Err(format!("{what}: unsupported parameter pattern"));
        };
        let t = ty(&pt.ty, this)?;
        if let Some(el) = t.strip_prefix("(List ").and_then(|r| r.strip_suffix(')')) {
            list_elem.insert(pi.ident.to_string(), el.to_string());
        }
        params.push(format!("({} : {t})", ident(&pi.ident.to_string())));
    }
    let ret = match &f.sig.output {
        ReturnType::Type(_, t) => ty(t, this)?,
        ReturnType::Default => return Err(format!("{what}: no return type")),
    };
    if !ret.starts_with("(Option ") {
        return Err(format!("{what}: return type {ret} is not an Option"));
    }
    let mut cx = Cx::new(w, this, false);
    cx.monadic = true;
    cx.opt_monad = true;
    let mut lines: Vec<String> = vec![];
    let mut iters: BTreeMap<String, String> = BTreeMap::new(); // iterator variable -> item type
    let mut muts: Vec<MutVar> = vec![];
    let mut aux = String::new();
    let stmts = &f.block.stmts;
    let mut done = false;
    for (i, st) in stmts.iter().enumerate() {
        match st {
            Stmt::Local(l) => {
                let init = l.init.as_ref().ok_or(format!("{what}: let without initialiser"))?;
                let Pat::Ident(pi) = &l.pat else {
                    return Err(format!("{what}: unsupported let pattern"));
                };
                let n = pi.ident.to_string();
                // `let [mut] it = xs.into_iter();`
                if let Expr::MethodCall(mc) = &*init.expr {
                    if mc.method == "into_iter" && mc.args.is_empty() {
                        if let Expr::Path(p) = &*mc.receiver {
                            if let Some(el) = p.path.get_ident().and_then(|i| list_elem.get(&i.to_string()).cloned()) {
                                let v = cx.expr(&init.expr)?;
                                lines.push(format!("let {} := {v}", ident(&n)));
                                iters.insert(n.clone(), el.clone());
                                list_elem.insert(n, el);
                                continue;
                            }
                        }
                    }
                }
                // `let mut v = it.next();`
                if let Some(it) = next_call(&init.expr) {
                    let el = iters.get(&it).ok_or(format!("{what}: `next()` on `{it}`, which is not an iterator variable"))?;
                    if pi.mutability.is_none() {
                        return Err(format!("{what}: `let {n} = {it}.next()` without `mut`"));
                    }
                    lines.push(format!("let ({}, {}) := (Iter.next {})", ident(&n), ident(&it), ident(&it)));
                    muts.push(MutVar { name: ident(&n), ty: format!("(Option {el})"), ext: false });
                    continue;
                }
                return Err(format!("{what}: unsupported statement {}", quote::quote!(#l)));
            }
            Stmt::Expr(Expr::While(wl), _) => {
                // while C { if let Some(p) = it.next() { B } else { break; } }
                let [Stmt::Expr(Expr::If(ifl), _)] = wl.body.stmts.as_slice() else {
                    return Err(format!("{what}: the `while` body is not a single `if let`"));
                };
                let Expr::Let(l) = &*ifl.cond else {
                    return Err(format!("{what}: the `while` body is not a single `if let`"));
                };
                let it = next_call(&l.expr).filter(|it| iters.contains_key(it)).ok_or(format!("{what}: `if let` in the loop does not take `next()` of an iterator variable"))?;
                let el = iters[&it].clone();
                let Pat::TupleStruct(ts) = &*l.pat else {
                    return Err(format!("{what}: loop pattern is not `Some(..)`"));
                };
                if !ts.path.is_ident("Some") || ts.elems.len() != 1 {
                    return Err(format!("{what}: loop pattern is not `Some(..)`"));
                }
                let p = cx.pat(&ts.elems[0])?;
                let brk = match &ifl.else_branch {
                    Some((_, e)) => matches!(&**e, Expr::Block(b) if matches!(b.block.stmts.as_slice(), [Stmt::Expr(Expr::Break(br), _)] if br.label.is_none() && br.expr.is_none())),
                    None => false,
                };
                if !brk {
                    return Err(format!("{what}: the loop's `else` is not `{{ break; }}`"));
                }
                if muts.is_empty() {
                    return Err(format!("{what}: loop without mutable state"));
                }
                let rest = &stmts[i + 1..];
                if mentions_ident(rest, &it) {
                    return Err(format!("{what}: the iterator `{it}` is used after the loop"));
                }
                if mentions_ident(&ifl.then_branch.stmts, &it) {
                    return Err(format!("{what}: the iterator `{it}` is used inside the loop body"));
                }
                let c = cx.expr(&wl.cond)?;
                let plain = Cx::new(w, this, false);
                let tail = plain.stmts_k(rest, &|v| Ok(v)).map_err(|e| format!("{what}: after the loop: {e}"))?;
                let aux_name = format!("{this}.{}.while_loop", ident(&name));
                let state_args = muts.iter().map(|m| m.name.clone()).collect::<Vec<_>>().join(" ");
                let call = format!("({aux_name} {state_args} {})", ident(&it));
                let body = cx.st_block_with(&ifl.then_branch.stmts, &mut muts, false, Some(&call)).map_err(|e| format!("{what}: {e}"))?;
                let state_params = muts.iter().map(|m| format!("({} : {})", m.name, m.ty)).collect::<Vec<_>>().join(" ");
                write!(
                    aux,
                    "/-- the `while` loop of `{what}`: the state, then the remaining items of `{it}` -/\ndef {aux_name} {state_params} : (List {el}) → {ret}\n  | [] =>\n    (if {c} then\n{}\n    else\n{})\n  | {p} :: {} =>\n    (if {c} then\n{}\n    else\n{})\n\n",
                    indent(&tail, 6),
                    indent(&tail, 6),
                    ident(&it),
                    indent(&body, 6),
                    indent(&tail, 6)
                )
                .unwrap();
                lines.push(call);
                done = true;
                break;
            }
            other => return Err(format!("{what}: unsupported statement {}", quote::quote!(#other))),
        }
    }
    if !done {
        return Err(format!("{what}: no `while` loop found"));
    }
    Ok(format!(
        "{aux}def {this}.{} {} : {ret} :=\n{}\n",
        ident(&name),
        params.join(" "),
        indent(&lines.join("\n"), 2)
    ))
}

pub fn gen_boxlist(src: &Path) -> R<String> {
    let mut w = position_world(src)?;
    let position = parse_file(src, "position.rs")?;
    let mut out = String::new();
    out.push_str("/- GENERATED by /verif/tools/vtranslate from /repo/src/position.rs — do not edit. -/\nimport Svgdx.Gen.Geometry\nset_option linter.unusedVariables false\nnamespace Svgdx.Gen\nopen Svgdx\n\n");
    out.push_str(PRELUDE);
    // BoundingBoxBuilder
    let s = position
        .items
        .iter()
        .find_map(|i| match i {
            Item::Struct(s) if s.ident == "BoundingBoxBuilder" => Some(s),
            _ => None,
        })
        .ok_or("struct BoundingBoxBuilder not found")?;
    out.push_str(&struct_def(s)?);
    out.push('\n');
    let mut fs_ = vec![];
    for fl in &s.fields {
        fs_.push((fl.ident.as_ref().ok_or("tuple struct")?.to_string(), ty(&fl.ty, "BoundingBoxBuilder")?));
    }
    w.structs.insert("BoundingBoxBuilder".into(), fs_);
    for n in ["new", "extend", "build"] {
        let f = find_fn(&position, "BoundingBoxBuilder", n).ok_or(format!("BoundingBoxBuilder::{n} not found"))?;
        out.push_str(&trans_fn(&w, "BoundingBoxBuilder", f)?);
        out.push('\n');
    }
    // BoundingBox::union: an iterator chain
    {
        let f = find_fn(&position, "BoundingBox", "union").ok_or("BoundingBox::union not found")?;
        out.push_str(&trans_fn(&w, "BoundingBox", f)?);
        out.push('\n');
    }
    // BoundingBox::intersection: a `while` loop over `next()`, or an iterator chain
    {
        let f = find_fn(&position, "BoundingBox", "intersection").ok_or("BoundingBox::intersection not found")?;
        struct HasWhile(bool);
        impl<'ast> syn::visit::Visit<'ast> for HasWhile {
            fn visit_expr_while(&mut self, _: &'ast syn::ExprWhile) {
                self.0 = true;
            }
        }
        let mut hw = HasWhile(false);
        syn::visit::Visit::visit_block(&mut hw, &f.block);
        if hw.0 {
            out.push_str(&iter_loop_fn(&w, "BoundingBox", f)?);
        } else {
            out.push_str(&trans_fn(&w, "BoundingBox", f)?);
        }
        out.push('\n');
    }
    out.push_str("end Svgdx.Gen\n");
    Ok(out)
}
