//! Gen/Connector.lean: the pure routing logic of connector.rs, regenerated from the syn AST of the
//! real function bodies on every run.
//!
//!  * `Direction`, `ConnectionType`, `Endpoint`, the value fields of `struct Connector`
//!  * `Connector::loc_to_dir`, `edge_locations`, `Length::absolute` (position.rs)
//!  * `corner_points`: the leading `let`s of `Connector::render` followed by the
//!    `if let (Some(..), Some(..)) = (self.start.dir, self.end.dir) { points = match .. } else { points = .. }`
//!    statement of the `ConnectionType::Corner` arm, as the value assigned to `points`
//!  * `horizontal_midpoint` / `vertical_midpoint` (+ `_default`): the `let midpoint = if let .. {..} else {..}`
//!    of the Horizontal / Vertical arms, as a function of the two looked-up boxes
//!  * `closest_loc`, `shortest_link`: the bodies with `let mut` state threaded through `List.foldl`,
//!    the looked-up bounding boxes as parameters.
//!
//! Everything outside the accepted shapes is an error.

use super::*;

fn mentions(t: &Type, what: &str) -> bool {
    quote::quote!(#t).to_string().split(|c: char| !c.is_alphanumeric() && c != '_').any(|w| w == what)
}

/// `ctx.get_element_bbox(el)?.ok_or_else(|| ..)?`
fn is_bbox_lookup(e: &Expr) -> bool {
    let Expr::Try(t1) = e else { return false };
    let Expr::MethodCall(m1) = &*t1.expr else { return false };
    if m1.method != "ok_or_else" {
        return false;
    }
    let Expr::Try(t2) = &*m1.receiver else { return false };
    let Expr::MethodCall(m2) = &*t2.expr else { return false };
    m2.method == "get_element_bbox" && matches!(&*m2.receiver, Expr::Path(_)) && m2.args.len() == 1
}

pub(super) struct MutVar {
    pub name: String,
    pub ty: String,
    pub ext: bool,
}

pub(super) fn state_tuple(m: &[MutVar]) -> String {
    if m.len() == 1 {
        m[0].name.clone()
    } else {
        format!("({})", m.iter().map(|v| v.name.clone()).collect::<Vec<_>>().join(", "))
    }
}

fn state_type(m: &[MutVar]) -> String {
    if m.len() == 1 {
        m[0].ty.clone()
    } else {
        format!("({})", m.iter().map(|v| v.ty.clone()).collect::<Vec<_>>().join(" × "))
    }
}

fn is_f32_max(e: &Expr) -> bool {
    if let Expr::Path(p) = e {
        let segs: Vec<String> = p.path.segments.iter().map(|s| s.ident.to_string()).collect();
        return segs == ["f32", "MAX"];
    }
    false
}

impl<'a> Cx<'a> {
    fn infer_init_type(&self, e: &Expr) -> R<String> {
        match e {
            Expr::Path(p) if p.path.segments.len() == 2 => {
                let t = p.path.segments[0].ident.to_string();
                if self.w.enums.contains_key(&t) {
                    Ok(t)
                } else {
                    Err(format!("cannot type `let mut` initialiser {}", quote::quote!(#e)))
                }
            }
            Expr::Lit(l) if matches!(l.lit, Lit::Float(_)) => Ok("Rat".into()),
            other => Err(format!("cannot type `let mut` initialiser {}", quote::quote!(#other))),
        }
    }

    /// `match` with guards, first-match semantics made explicit: `rK__` is the value of the match against
    /// the arms from K on; a guarded arm is `| pat => if guard then body else r(K+1)__ | _ => r(K+1)__`
    /// (all expressions are pure and total, so binding the remainders first changes nothing)
    pub(super) fn guarded_match(&self, scrut: &str, cols: usize, arms: &[syn::Arm], bodies: &[String]) -> R<String> {
        if arms.is_empty() {
            return Err("match without arms".into());
        }
        let irrefutable = |alt: &str| {
            alt.split(", ").all(|c| {
                c == "_"
                    || (c.chars().next().is_some_and(|ch| ch.is_lowercase() || ch == '_')
                        && c.chars().all(|ch| ch.is_alphanumeric() || ch == '_')
                        && c != "true"
                        && c != "false"
                        && c != "none")
            })
        };
        let wild = vec!["_"; cols].join(", ");
        // split into segments: each guarded arm alone, each maximal run of unguarded arms together
        let mut segs: Vec<(usize, usize)> = vec![];
        let mut i = 0;
        while i < arms.len() {
            if arms[i].guard.is_some() {
                segs.push((i, i + 1));
                i += 1;
            } else {
                let mut j = i;
                while j < arms.len() && arms[j].guard.is_none() {
                    j += 1;
                }
                segs.push((i, j));
                i = j;
            }
        }
        let base = self.fresh.get();
        self.fresh.set(base + segs.len() as u32);
        let name = |k: usize| format!("r{}__", base as usize + k);
        let mut lets: Vec<String> = vec![];
        let mut head = String::new();
        for (k, (lo, hi)) in segs.iter().enumerate().rev() {
            let is_last = k + 1 == segs.len();
            let mut m = format!("(match {scrut} with");
            let mut total = false;
            if arms[*lo].guard.is_some() {
                if is_last {
                    return Err("guarded arm falls off the end of a match".into());
                }
                let alts = self.arm_alts(&arms[*lo].pat, cols)?;
                let g = self.expr(&arms[*lo].guard.as_ref().unwrap().1)?;
                for a in &alts {
                    write!(m, "\n  | {a} =>\n    if {g} then\n{}\n    else\n      {}", indent(&bodies[*lo], 6), name(k + 1)).unwrap();
                    total = total || irrefutable(a);
                }
            } else {
                for idx in *lo..*hi {
                    let alts = self.arm_alts(&arms[idx].pat, cols)?;
                    for a in &alts {
                        if total {
                            return Err(format!("unreachable arm after an irrefutable pattern: {a}"));
                        }
                        write!(m, "\n  | {a} =>\n{}", indent(&bodies[idx], 4)).unwrap();
                        total = total || irrefutable(a);
                    }
                }
            }
            if !total && !is_last {
                write!(m, "\n  | {wild} =>\n    {}", name(k + 1)).unwrap();
            }
            m.push(')');
            if k == 0 {
                head = m;
            } else {
                lets.push(format!("let {} := {m}", name(k)));
            }
        }
        if lets.is_empty() {
            Ok(head)
        } else {
            Ok(format!("({}\n{head})", lets.join("\n")))
        }
    }

    /// statements over `let mut` state: assignments shadow, `if` / `for` return the state tuple
    pub(super) fn st_block(&self, stmts: &[Stmt], muts: &mut Vec<MutVar>, top: bool) -> R<String> {
        self.st_block_with(stmts, muts, top, None)
    }

    /// `end`: what a non-top block ends in instead of the state tuple (a tail call); only then may an
    /// assignment contain `?` (the rest of the block moves under the match that unwraps it)
    pub(super) fn st_block_with(&self, stmts: &[Stmt], muts: &mut Vec<MutVar>, top: bool, end: Option<&str>) -> R<String> {
        let mut out: Vec<String> = vec![];
        let mut have_value = false;
        for (i, st) in stmts.iter().enumerate() {
            let last = i + 1 == stmts.len();
            match st {
                Stmt::Local(l) => {
                    let init = l.init.as_ref().ok_or("let without initialiser")?;
                    if init.diverge.is_some() {
                        return Err("let-else is not supported".into());
                    }
                    if let Pat::Ident(pi) = &l.pat {
                        let name = ident(&pi.ident.to_string());
                        if muts.iter().any(|m| m.name == name) {
                            return Err(format!("`{name}` shadows a mutable variable"));
                        }
                        if pi.mutability.is_some() {
                            if !top {
                                return Err(format!("`let mut {name}` inside a loop or branch"));
                            }
                            if is_f32_max(&init.expr) {
                                out.push(format!("let {name} : (Option Rat) := none"));
                                self.ext_vars.borrow_mut().insert(name.clone());
                                muts.push(MutVar { name, ty: "(Option Rat)".into(), ext: true });
                            } else {
                                let t = self.infer_init_type(&init.expr)?;
                                let v = self.expr(&init.expr)?;
                                out.push(format!("let {name} : {t} := {v}"));
                                muts.push(MutVar { name, ty: t, ext: false });
                            }
                            continue;
                        }
                        if is_bbox_lookup(&init.expr) {
                            if !top {
                                return Err("bounding-box lookup inside a loop or branch".into());
                            }
                            continue; // a parameter of the generated function
                        }
                    }
                    if Cx::contains_return(&init.expr) {
                        return Err(format!("`?`/`return` in a stateful body: {}", quote::quote!(#l)));
                    }
                    let p = match &l.pat {
                        Pat::Type(pt) => self.pat(&pt.pat)?,
                        other => self.pat(other)?,
                    };
                    let v = self.expr(&init.expr)?;
                    out.push(format!("let {p} := {v}"));
                }
                Stmt::Expr(Expr::Assign(a), Some(_)) => {
                    let Expr::Path(p) = &*a.left else {
                        return Err(format!("unsupported assignment {}", quote::quote!(#a)));
                    };
                    let name = p.path.get_ident().map(|i| ident(&i.to_string())).ok_or("unsupported assignment target")?;
                    let mv = muts.iter().find(|m| m.name == name).ok_or(format!("assignment to non-`mut` `{name}`"))?;
                    if Cx::contains_return(&a.right) {
                        let (Some(_), false, false) = (end, top, mv.ext) else {
                            return Err(format!("`?` in an assignment that is not in tail position: {}", quote::quote!(#a)));
                        };
                        let rest_s = self.st_block_with(&stmts[i + 1..], muts, false, end)?;
                        let s = self.expr_k(&a.right, &|v| Ok(format!("let {name} := {v}\n{rest_s}")))?;
                        out.push(s);
                        return Ok(out.join("\n"));
                    }
                    let v = self.expr(&a.right)?;
                    if mv.ext {
                        out.push(format!("let {name} := (some {v})"));
                    } else {
                        out.push(format!("let {name} := {v}"));
                    }
                }
                Stmt::Expr(Expr::Binary(b), Some(_)) if matches!(b.op, BinOp::AddAssign(_) | BinOp::SubAssign(_) | BinOp::MulAssign(_)) => {
                    let Expr::Path(p) = &*b.left else {
                        return Err(format!("unsupported compound assignment {}", quote::quote!(#b)));
                    };
                    let name = p.path.get_ident().map(|i| ident(&i.to_string())).ok_or("unsupported assignment target")?;
                    let mv = muts.iter().find(|m| m.name == name).ok_or(format!("assignment to non-`mut` `{name}`"))?;
                    if mv.ext {
                        return Err(format!("compound assignment to `{name}` (initialised with f32::MAX)"));
                    }
                    let v = self.expr(&b.right)?;
                    let op = match b.op {
                        BinOp::AddAssign(_) => "+",
                        BinOp::SubAssign(_) => "-",
                        _ => "*",
                    };
                    out.push(format!("let {name} := ({name} {op} {v})"));
                }
                Stmt::Expr(Expr::MethodCall(mc), Some(_)) if mc.method == "push" && mc.args.len() == 1 => {
                    // `v.push(e)` on a `let mut v = vec![..]`
                    let Expr::Path(p) = &*mc.receiver else {
                        return Err(format!("unsupported `push` receiver {}", quote::quote!(#mc)));
                    };
                    let name = p.path.get_ident().map(|i| ident(&i.to_string())).ok_or("unsupported `push` receiver")?;
                    let mv = muts.iter().find(|m| m.name == name).ok_or(format!("`push` on non-`mut` `{name}`"))?;
                    if !mv.ty.starts_with("(List ") {
                        return Err(format!("`push` on `{name}` of type {}", mv.ty));
                    }
                    let v = self.expr(&mc.args[0])?;
                    out.push(format!("let {name} := ({name} ++ [{v}])"));
                }
                Stmt::Expr(Expr::Match(m), _) if !(top && last) => {
                    let (s, cols) = self.scrut(&m.expr)?;
                    let tup = state_tuple(muts);
                    // arm bodies: a block of statements over the state, or `()`
                    let bodies: R<Vec<String>> = m
                        .arms
                        .iter()
                        .map(|a| match &*a.body {
                            Expr::Block(b) => self.st_block(&b.block.stmts, muts, false),
                            Expr::Tuple(t) if t.elems.is_empty() => Ok(tup.clone()),
                            other => Err(format!("unsupported arm body over mutable state: {}", quote::quote!(#other))),
                        })
                        .collect();
                    let bodies = bodies?;
                    let v = self.guarded_match(&s, cols, &m.arms, &bodies)?;
                    out.push(format!("let {tup} := {v}"));
                }
                Stmt::Expr(Expr::If(i), _) if !(top && last) => {
                    if matches!(&*i.cond, Expr::Let(_)) {
                        return Err("`if let` over mutable state".into());
                    }
                    let c = self.expr(&i.cond)?;
                    let then_b = self.st_block(&i.then_branch.stmts, muts, false)?;
                    let else_b = match &i.else_branch {
                        None => state_tuple(muts),
                        Some((_, e)) => match &**e {
                            Expr::Block(b) => self.st_block(&b.block.stmts, muts, false)?,
                            Expr::If(_) => self.st_block(&[Stmt::Expr((**e).clone(), None)], muts, false)?,
                            other => return Err(format!("unsupported else branch {}", quote::quote!(#other))),
                        },
                    };
                    out.push(format!(
                        "let {} := (if {c} then\n{}\nelse\n{})",
                        state_tuple(muts),
                        indent(&then_b, 2),
                        indent(&else_b, 2)
                    ));
                }
                Stmt::Expr(Expr::ForLoop(f), _) => {
                    if muts.is_empty() {
                        return Err("`for` without mutable state".into());
                    }
                    let Pat::Ident(pi) = &*f.pat else {
                        return Err("unsupported `for` pattern".into());
                    };
                    let x = ident(&pi.ident.to_string());
                    if muts.iter().any(|m| m.name == x) {
                        return Err(format!("loop variable `{x}` shadows a mutable variable"));
                    }
                    let iter = self.expr(&f.expr)?;
                    let body = self.st_block(&f.body.stmts, muts, false)?;
                    let tup = state_tuple(muts);
                    out.push(format!(
                        "let {tup} := (List.foldl (fun (st__ : {}) {x} =>\n    let {tup} := st__\n{}) {tup} {iter})",
                        state_type(muts),
                        indent(&body, 4)
                    ));
                }
                Stmt::Expr(e, None) if top && last => {
                    if Cx::contains_return(e) {
                        return Err(format!("`?`/`return` in a stateful body: {}", quote::quote!(#e)));
                    }
                    out.push(self.expr(e)?);
                    have_value = true;
                }
                other => return Err(format!("unsupported statement over mutable state: {}", quote::quote!(#other))),
            }
        }
        if top {
            if !have_value {
                return Err("stateful body does not end in a value".into());
            }
        } else {
            out.push(end.map(|e| e.to_string()).unwrap_or_else(|| state_tuple(muts)));
        }
        Ok(out.join("\n"))
    }
}

fn connector_world(src: &Path) -> R<(World, syn::File, syn::File)> {
    let position = parse_file(src, "position.rs")?;
    let connector = parse_file(src, "connector.rs")?;
    let mut w = World::default();
    let add_types = |f: &syn::File, names: &[&str], w: &mut World| -> R<()> {
        for tname in names {
            let mut found = false;
            for item in &f.items {
                match item {
                    Item::Enum(e) if e.ident == tname => {
                        let mut vs = vec![];
                        for v in &e.variants {
                            let mut tys = vec![];
                            for fl in &v.fields {
                                tys.push(ty(&fl.ty, tname)?);
                            }
                            vs.push((v.ident.to_string(), tys));
                        }
                        w.enums.insert(tname.to_string(), vs);
                        found = true;
                    }
                    Item::Struct(s) if s.ident == tname => {
                        let mut fs_ = vec![];
                        for fl in &s.fields {
                            fs_.push((fl.ident.as_ref().ok_or("tuple struct")?.to_string(), ty(&fl.ty, tname)?));
                        }
                        w.structs.insert(tname.to_string(), fs_);
                        found = true;
                    }
                    _ => {}
                }
            }
            if !found {
                return Err(format!("type {tname} not found"));
            }
        }
        Ok(())
    };
    let geom: Vec<&str> = GEOMETRY_TYPES.iter().filter(|(f, _)| *f == "position.rs").map(|(_, t)| *t).collect();
    add_types(&position, &geom, &mut w)?;
    add_types(&connector, &["Direction", "ConnectionType", "Endpoint"], &mut w)?;
    for wanted in GEOMETRY {
        for f in wanted.fns {
            w.methods.entry(f.to_string()).or_default().insert(wanted.ty.to_string());
        }
    }
    w.methods.entry("absolute".into()).or_default().insert("Length".into());
    Ok((w, position, connector))
}

fn find_item_enum<'a>(f: &'a syn::File, name: &str) -> R<&'a ItemEnum> {
    f.items
        .iter()
        .find_map(|i| match i {
            Item::Enum(e) if e.ident == name => Some(e),
            _ => None,
        })
        .ok_or(format!("enum {name} not found"))
}

fn find_item_struct<'a>(f: &'a syn::File, name: &str) -> R<&'a ItemStruct> {
    f.items
        .iter()
        .find_map(|i| match i {
            Item::Struct(e) if e.ident == name => Some(e),
            _ => None,
        })
        .ok_or(format!("struct {name} not found"))
}

/// signature parameters that translate; the others (element handles, `impl ElementMap`) are dropped
fn split_params(inputs: &Punctuated<FnArg, syn::Token![,]>, what: &str) -> R<(Vec<String>, BTreeSet<String>)> {
    let mut params = vec![];
    let mut dropped = BTreeSet::new();
    for a in inputs {
        match a {
            FnArg::Receiver(_) => return Err(format!("{what}: unexpected receiver")),
            FnArg::Typed(pt) => {
                let Pat::Ident(pi) = &*pt.pat else {
                    return Err(format!("{what}: unsupported parameter pattern"));
                };
                let n = pi.ident.to_string();
                let opaque = mentions(&pt.ty, "SvgElement") || mentions(&pt.ty, "ElementMap");
                if opaque {
                    dropped.insert(n);
                } else {
                    params.push(format!("({} : {})", ident(&n), ty(&pt.ty, "")?));
                }
            }
        }
    }
    Ok((params, dropped))
}

/// a free function whose body is `let mut` state, bounding-box lookups, loops and a final value
fn stateful_fn(w: &World, f: &syn::ItemFn) -> R<String> {
    let name = f.sig.ident.to_string();
    let (params, dropped) = split_params(&f.sig.inputs, &name)?;
    let mut bbs = vec![];
    for st in &f.block.stmts {
        if let Stmt::Local(l) = st {
            if let (Pat::Ident(pi), Some(init)) = (&l.pat, &l.init) {
                if pi.mutability.is_none() && is_bbox_lookup(&init.expr) {
                    bbs.push(format!("({} : BoundingBox)", ident(&pi.ident.to_string())));
                }
            }
        }
    }
    let ret = match &f.sig.output {
        ReturnType::Type(_, t) => ty(t, "")?,
        ReturnType::Default => return Err(format!("{name}: no return type")),
    };
    let mut cx = Cx::new(w, "", false);
    cx.monadic = true;
    cx.forbidden = dropped;
    let mut muts = vec![];
    let body = cx.st_block(&f.block.stmts, &mut muts, true).map_err(|e| format!("{name}: {e}"))?;
    let mut all = bbs;
    all.extend(params);
    Ok(format!("def {} {} : {ret} :=\n{}\n", ident(&name), all.join(" "), indent(&body, 2)))
}

fn arm_named<'a>(m: &'a ExprMatch, variant: &str) -> R<&'a syn::Arm> {
    let mut hit = None;
    for a in &m.arms {
        if let Pat::Path(pp) = &a.pat {
            if pp.path.segments.last().is_some_and(|s| s.ident == variant) {
                if hit.is_some() {
                    return Err(format!("render: two arms for {variant}"));
                }
                if a.guard.is_some() {
                    return Err(format!("render: guarded arm {variant}"));
                }
                hit = Some(a);
            }
        }
    }
    hit.ok_or(format!("render: no arm for ConnectionType::{variant}"))
}

fn arm_block(a: &syn::Arm) -> R<&Block> {
    match &*a.body {
        Expr::Block(b) => Ok(&b.block),
        other => Err(format!("render: arm body is not a block: {}", quote::quote!(#other))),
    }
}

/// `{ points = E; }` -> E
fn single_assign<'a>(b: &'a Block, var: &str) -> R<&'a Expr> {
    if let [Stmt::Expr(Expr::Assign(a), Some(_))] = b.stmts.as_slice() {
        if matches!(&*a.left, Expr::Path(p) if p.path.is_ident(var)) {
            return Ok(&a.right);
        }
    }
    Err(format!("render: expected a block `{{ {var} = ..; }}`"))
}

fn block_of(stmts: Vec<Stmt>) -> Block {
    Block { brace_token: Default::default(), stmts }
}

fn is_conn_match(s: &Stmt) -> Option<&ExprMatch> {
    if let Stmt::Local(l) = s {
        if let Some(init) = &l.init {
            if let Expr::Match(m) = &*init.expr {
                let sc = &m.expr;
                if quote::quote!(#sc).to_string().replace(' ', "") == "self.conn_type" {
                    return Some(m);
                }
            }
        }
    }
    None
}

pub fn gen_connector(src: &Path) -> R<String> {
    let (mut w, position, connector) = connector_world(src)?;
    let mut out = String::new();
    out.push_str("/- GENERATED by /verif/tools/vtranslate from /repo/src/connector.rs — do not edit. -/\nimport Svgdx.Gen.Geometry\nset_option linter.unusedVariables false\nnamespace Svgdx.Gen\nopen Svgdx\n\n");
    // Length::absolute (position.rs; not part of Gen/Geometry.lean)
    {
        let f = find_fn(&position, "Length", "absolute").ok_or("Length::absolute not found in position.rs")?;
        out.push_str(&trans_fn(&w, "Length", f)?);
        out.push('\n');
    }
    out.push_str("namespace Connector\n\n");
    // SvgdxError restricted to the variants whose payload is a single String
    {
        let errors = parse_file(src, "errors.rs")?;
        let e = find_item_enum(&errors, "SvgdxError")?;
        let mut vs = vec![];
        out.push_str("/-- `SvgdxError`, the variants carrying one `String` -/\ninductive SvgdxError where\n");
        for v in &e.variants {
            let tys: Vec<String> = v.fields.iter().map(|f| ty(&f.ty, "SvgdxError").unwrap_or_else(|_| "?".into())).collect();
            if tys == ["Str"] {
                writeln!(out, "  | {} (_ : Str)", v.ident).unwrap();
                vs.push((v.ident.to_string(), tys));
            }
        }
        out.push_str("deriving Repr, DecidableEq, Inhabited\n\n");
        w.enums.insert("SvgdxError".into(), vs);
    }
    out.push_str(&enum_def(find_item_enum(&connector, "Direction")?)?);
    out.push('\n');
    out.push_str(&enum_def(find_item_enum(&connector, "ConnectionType")?)?);
    out.push('\n');
    out.push_str(&struct_def(find_item_struct(&connector, "Endpoint")?)?);
    out.push('\n');
    // struct Connector without the fields that hold elements
    {
        let s = find_item_struct(&connector, "Connector")?;
        out.push_str("/-- `struct Connector` without the fields holding `SvgElement`s -/\nstructure ConnectorPure where\n");
        let mut fs_ = vec![];
        for f in &s.fields {
            let fname = f.ident.as_ref().ok_or("tuple struct")?.to_string();
            if mentions(&f.ty, "SvgElement") {
                continue;
            }
            let t = ty(&f.ty, "Connector")?;
            writeln!(out, "  {} : {}", ident(&fname), t).unwrap();
            fs_.push((fname, t));
        }
        out.push_str("deriving Repr, DecidableEq, Inhabited\n\n");
        w.structs.insert("ConnectorPure".into(), fs_);
    }
    // Connector::loc_to_dir
    {
        let f = find_fn(&connector, "Connector", "loc_to_dir").ok_or("Connector::loc_to_dir not found")?;
        let text = trans_fn(&w, "Connector", f)?;
        if !text.starts_with("def Connector.loc_to_dir ") {
            return Err("loc_to_dir: unexpected shape".into());
        }
        out.push_str(&text.replacen("def Connector.loc_to_dir ", "def loc_to_dir ", 1));
        out.push('\n');
    }
    // edge_locations
    {
        let f = find_free_fn(&connector, "edge_locations").ok_or("fn edge_locations not found")?;
        let (params, dropped) = split_params(&f.sig.inputs, "edge_locations")?;
        if !dropped.is_empty() {
            return Err("edge_locations: opaque parameter".into());
        }
        let ret = match &f.sig.output {
            ReturnType::Type(_, t) => ty(t, "")?,
            ReturnType::Default => return Err("edge_locations: no return type".into()),
        };
        let cx = Cx::new(&w, "", false);
        let body = cx.block_k(&f.block, &|v| Ok(v)).map_err(|e| format!("edge_locations: {e}"))?;
        writeln!(out, "def edge_locations {} : {ret} :=\n{}\n", params.join(" "), indent(&body, 2)).unwrap();
    }
    // closest_loc / shortest_link
    for n in ["closest_loc", "shortest_link"] {
        let f = find_free_fn(&connector, n).ok_or(format!("fn {n} not found"))?;
        out.push_str(&stateful_fn(&w, f)?);
        out.push('\n');
    }
    // ---- Connector::render
    let render = find_fn(&connector, "Connector", "render").ok_or("Connector::render not found")?;
    let mut dropped = BTreeSet::new();
    for a in &render.sig.inputs {
        if let FnArg::Typed(pt) = a {
            if let Pat::Ident(pi) = &*pt.pat {
                dropped.insert(pi.ident.to_string());
            }
        }
    }
    let stmts = &render.block.stmts;
    let idx = stmts.iter().position(|s| is_conn_match(s).is_some()).ok_or("render: `match self.conn_type` not found")?;
    let m = is_conn_match(&stmts[idx]).unwrap();
    let leading: Vec<Stmt> = stmts[..idx].to_vec();
    if !leading.iter().all(|s| matches!(s, Stmt::Local(_))) {
        return Err("render: statements before `match self.conn_type` are not all `let`".into());
    }
    // Corner: the value of `points`
    {
        let b = arm_block(arm_named(m, "Corner")?)?;
        let decl_ok = matches!(b.stmts.first(), Some(Stmt::Local(l)) if l.init.is_none() && matches!(&l.pat, Pat::Ident(pi) if pi.ident == "points"));
        if !decl_ok {
            return Err("render/Corner: expected `let points;` first".into());
        }
        let Some(Stmt::Expr(Expr::If(i), _)) = b.stmts.get(1) else {
            return Err("render/Corner: expected `if let .. { points = .. } else { points = .. }`".into());
        };
        if !matches!(&*i.cond, Expr::Let(_)) {
            return Err("render/Corner: expected `if let`".into());
        }
        let then_e = single_assign(&i.then_branch, "points")?;
        let else_e = match &i.else_branch {
            Some((_, e)) => match &**e {
                Expr::Block(eb) => single_assign(&eb.block, "points")?,
                _ => return Err("render/Corner: unsupported else".into()),
            },
            None => return Err("render/Corner: `points` unassigned without else".into()),
        };
        // no later statement may assign `points`
        for st in &b.stmts[2..] {
            struct A(bool);
            impl<'ast> syn::visit::Visit<'ast> for A {
                fn visit_expr_assign(&mut self, a: &'ast syn::ExprAssign) {
                    if matches!(&*a.left, Expr::Path(p) if p.path.is_ident("points")) {
                        self.0 = true;
                    }
                }
            }
            let mut a = A(false);
            syn::visit::Visit::visit_stmt(&mut a, st);
            if a.0 {
                return Err("render/Corner: `points` assigned again".into());
            }
        }
        let mut synth = i.clone();
        synth.then_branch = block_of(vec![Stmt::Expr(then_e.clone(), None)]);
        synth.else_branch = Some((
            Default::default(),
            Box::new(Expr::Block(syn::ExprBlock { attrs: vec![], label: None, block: block_of(vec![Stmt::Expr(else_e.clone(), None)]) })),
        ));
        let mut all = leading.clone();
        all.push(Stmt::Expr(Expr::If(synth), None));
        let mut cx = Cx::new(&w, "ConnectorPure", false);
        cx.monadic = true;
        cx.forbidden = dropped.clone();
        let body = cx
            .stmts_k(&all, &|v| Ok(format!("(Except.ok {v})")))
            .map_err(|e| format!("render/Corner: {e}"))?;
        writeln!(
            out,
            "/-- the value of `points` in the `ConnectionType::Corner` arm of `Connector::render` -/\ndef corner_points (self : ConnectorPure) : (Except SvgdxError (List (Rat × Rat))) :=\n{}\n",
            indent(&body, 2)
        )
        .unwrap();
    }
    // Horizontal / Vertical: the value of `midpoint`
    for (variant, fname) in [("Horizontal", "horizontal_midpoint"), ("Vertical", "vertical_midpoint")] {
        let b = arm_block(arm_named(m, variant)?)?;
        let Some(Stmt::Local(l)) = b.stmts.first() else {
            return Err(format!("render/{variant}: expected `let midpoint = ..` first"));
        };
        if !matches!(&l.pat, Pat::Ident(pi) if pi.ident == "midpoint" && pi.mutability.is_none()) {
            return Err(format!("render/{variant}: expected `let midpoint = ..` first"));
        }
        let init = l.init.as_ref().ok_or(format!("render/{variant}: midpoint without initialiser"))?;
        let Expr::If(i) = &*init.expr else {
            return Err(format!("render/{variant}: midpoint is not an `if let`"));
        };
        // condition: both elements present
        let Expr::Let(cl) = &*i.cond else {
            return Err(format!("render/{variant}: midpoint is not an `if let`"));
        };
        let cond_txt = { let e = &cl.expr; quote::quote!(#e).to_string().replace(' ', "") };
        let pat_txt = { let p = &cl.pat; quote::quote!(#p).to_string().replace(' ', "") };
        if cond_txt != "(&self.start_el,&self.end_el)" || pat_txt != "(Some(start_el),Some(end_el))" {
            return Err(format!("render/{variant}: unexpected midpoint condition `{pat_txt} = {cond_txt}`"));
        }
        // then: box lookups (parameters, in order: start element first) followed by pure statements
        let mut bbs = vec![];
        let mut rest = vec![];
        for st in &i.then_branch.stmts {
            if let Stmt::Local(l2) = st {
                if let (Pat::Ident(pi), Some(init2)) = (&l2.pat, &l2.init) {
                    if is_bbox_lookup(&init2.expr) {
                        if !rest.is_empty() {
                            return Err(format!("render/{variant}: box lookup after other statements"));
                        }
                        // which element is looked up
                        let e2 = &init2.expr;
                        let txt = quote::quote!(#e2).to_string().replace(' ', "");
                        let which = if txt.starts_with("ctx.get_element_bbox(start_el)?") {
                            "start_el"
                        } else if txt.starts_with("ctx.get_element_bbox(end_el)?") {
                            "end_el"
                        } else {
                            return Err(format!("render/{variant}: unexpected lookup {txt}"));
                        };
                        bbs.push((ident(&pi.ident.to_string()), which));
                        continue;
                    }
                }
            }
            rest.push(st.clone());
        }
        if bbs.iter().map(|b| b.1).collect::<Vec<_>>() != ["start_el", "end_el"] {
            return Err(format!("render/{variant}: expected the start box then the end box to be looked up"));
        }
        let mut cx = Cx::new(&w, "ConnectorPure", false);
        cx.forbidden = dropped.clone();
        cx.forbidden.insert("self".into());
        cx.forbidden.insert("start_el".into());
        cx.forbidden.insert("end_el".into());
        let body = cx.stmts_k(&rest, &|v| Ok(v)).map_err(|e| format!("render/{variant}: {e}"))?;
        writeln!(
            out,
            "/-- `midpoint` in the `ConnectionType::{variant}` arm of `Connector::render` when both ends are elements;\n    `{}` is the box of the start element, `{}` of the end element -/\ndef {fname} {} : Rat :=\n{}\n",
            bbs[0].0,
            bbs[1].0,
            bbs.iter().map(|b| format!("({} : BoundingBox)", b.0)).collect::<Vec<_>>().join(" "),
            indent(&body, 2)
        )
        .unwrap();
        // else: the value without two elements
        let else_e = match &i.else_branch {
            Some((_, e)) => (**e).clone(),
            None => return Err(format!("render/{variant}: midpoint without else")),
        };
        let mut all = leading.clone();
        all.push(Stmt::Expr(else_e, None));
        let mut cx = Cx::new(&w, "ConnectorPure", false);
        cx.forbidden = dropped.clone();
        let body = cx.stmts_k(&all, &|v| Ok(v)).map_err(|e| format!("render/{variant} (else): {e}"))?;
        writeln!(
            out,
            "/-- `midpoint` in the `ConnectionType::{variant}` arm otherwise -/\ndef {fname}_default (self : ConnectorPure) : Rat :=\n{}\n",
            indent(&body, 2)
        )
        .unwrap();
    }
    out.push_str("end Connector\nend Svgdx.Gen\n");
    Ok(out)
}
