//! vtranslate: regenerate the Lean model of svgdx's pure geometry core and tables
//! from the Rust source, on every run (DESIGN.md §4.1).
//!
//! usage: vtranslate <repo/src dir> <out dir (lean/Svgdx/Gen)>
//!
//! The accepted Rust subset is deliberately small and closed; anything outside it is an
//! error naming the item, which the check treats as a broken tie.

mod audit;
mod connector;
mod text;
mod boxlist;

use std::cell::{Cell, RefCell};
use std::collections::{BTreeMap, BTreeSet};
use std::fmt::Write as _;
use std::fs;
use std::path::Path;
use syn::punctuated::Punctuated;
use syn::{
    BinOp, Block, Expr, ExprIf, ExprMatch, FnArg, ImplItem, ImplItemFn, Item, ItemEnum, ItemImpl,
    ItemStruct, Lit, Pat, ReturnType, Stmt, Type, UnOp,
};

type R<T> = Result<T, String>;

const LEAN_KEYWORDS: &[&str] = &[
    "end", "from", "at", "open", "then", "else", "if", "fun", "do", "in", "with", "match", "let",
    "have", "show", "by", "where", "local", "instance", "def", "theorem", "variable", "universe",
    "section", "namespace", "import", "export", "abbrev", "structure", "class", "inductive",
    "mutual", "private", "protected", "partial", "unsafe", "macro", "syntax", "notation", "prefix",
    "infix", "postfix", "deriving", "extends", "for", "return", "mut", "try", "catch", "finally",
    "unless", "break", "continue", "nomatch", "using", "calc", "type", "Type", "Prop", "Sort",
];

fn ident(s: &str) -> String {
    if LEAN_KEYWORDS.contains(&s) {
        format!("{s}_")
    } else {
        s.to_string()
    }
}

fn char_list(s: &str) -> String {
    let mut out = String::from("[");
    for (i, c) in s.chars().enumerate() {
        if i > 0 {
            out.push_str(", ");
        }
        match c {
            '\'' => out.push_str("'\\''"),
            '\\' => out.push_str("'\\\\'"),
            '\n' => out.push_str("'\\n'"),
            '\t' => out.push_str("'\\t'"),
            c if (c as u32) < 0x20 || (c as u32) > 0x7e => {
                write!(out, "Char.ofNat {}", c as u32).unwrap()
            }
            c => write!(out, "'{c}'").unwrap(),
        }
    }
    out.push(']');
    if s.is_empty() {
        "([] : List Char)".to_string()
    } else {
        out
    }
}

/// decimal float literal text -> exact rational literal
fn rat_lit(text: &str) -> R<String> {
    let t = text
        .trim_end_matches("f32")
        .trim_end_matches("f64")
        .trim_end_matches('_')
        .replace('_', "");
    let (mant, exp) = match t.split_once(['e', 'E']) {
        Some((m, e)) => (m.to_string(), e.parse::<i32>().map_err(|e| e.to_string())?),
        None => (t.clone(), 0),
    };
    let (ip, fp) = match mant.split_once('.') {
        Some((a, b)) => (a.to_string(), b.to_string()),
        None => (mant.clone(), String::new()),
    };
    let fp = fp.trim_end_matches('0').to_string();
    let digits = format!("{ip}{fp}");
    let digits = digits.trim_start_matches('0');
    let digits = if digits.is_empty() { "0" } else { digits };
    let scale = fp.len() as i32 - exp;
    Ok(if scale <= 0 {
        format!("({}{} : Rat)", digits, "0".repeat((-scale) as usize))
    } else {
        format!("(({} : Rat) / 1{})", digits, "0".repeat(scale as usize))
    })
}

#[derive(Default)]
struct World {
    /// enum name -> variants (name, payload types)
    enums: BTreeMap<String, Vec<(String, Vec<String>)>>,
    /// struct name -> fields
    structs: BTreeMap<String, Vec<(String, String)>>,
    /// method name -> owning types (for receiver resolution)
    methods: BTreeMap<String, BTreeSet<String>>,
}

impl World {
    fn variant_owner(&self, v: &str) -> R<String> {
        let owners: Vec<_> = self
            .enums
            .iter()
            .filter(|(_, vs)| vs.iter().any(|(n, _)| n == v))
            .map(|(e, _)| e.clone())
            .collect();
        match owners.as_slice() {
            [one] => Ok(one.clone()),
            [] => Err(format!("unknown enum variant `{v}`")),
            _ => Err(format!("ambiguous enum variant `{v}`: {owners:?}")),
        }
    }
}

fn ty(t: &Type, this: &str) -> R<String> {
    Ok(match t {
        Type::Path(p) => {
            let seg = p.path.segments.last().ok_or("empty type path")?;
            let name = seg.ident.to_string();
            match name.as_str() {
                "f32" | "f64" => "Rat".into(),
                "bool" => "Bool".into(),
                "u16" | "u32" | "u64" | "usize" => "Nat".into(),
                "i32" | "i64" => "Int".into(),
                "String" | "str" => "Str".into(),
                "Self" => this.into(),
                "Option" => {
                    if let syn::PathArguments::AngleBracketed(a) = &seg.arguments {
                        if let Some(syn::GenericArgument::Type(inner)) = a.args.first() {
                            return Ok(format!("(Option {})", ty(inner, this)?));
                        }
                    }
                    return Err("Option without argument".into());
                }
                "Vec" | "Result" => {
                    if let syn::PathArguments::AngleBracketed(a) = &seg.arguments {
                        if let (1, Some(syn::GenericArgument::Type(inner))) = (a.args.len(), a.args.first()) {
                            let head = if name == "Vec" { "List" } else { "Except SvgdxError" };
                            return Ok(format!("({head} {})", ty(inner, this)?));
                        }
                    }
                    return Err(format!("{name} without a single type argument"));
                }
                other => other.into(),
            }
        }
        Type::Reference(r) => ty(&r.elem, this)?,
        Type::ImplTrait(it) => {
            // `impl IntoIterator<Item = T>` / `impl Iterator<Item = T>`: a list
            for b in &it.bounds {
                if let syn::TypeParamBound::Trait(tb) = b {
                    if let Some(seg) = tb.path.segments.last() {
                        if seg.ident == "IntoIterator" || seg.ident == "Iterator" {
                            if let syn::PathArguments::AngleBracketed(a) = &seg.arguments {
                                for ga in &a.args {
                                    if let syn::GenericArgument::AssocType(at) = ga {
                                        if at.ident == "Item" {
                                            return Ok(format!("(List {})", ty(&at.ty, this)?));
                                        }
                                    }
                                }
                            }
                        }
                    }
                }
            }
            return Err(format!("unsupported type {}", quote::quote!(#t)));
        }
        Type::Tuple(t) => {
            if t.elems.is_empty() {
                "Unit".into()
            } else {
                let parts: R<Vec<_>> = t.elems.iter().map(|e| ty(e, this)).collect();
                format!("({})", parts?.join(" × "))
            }
        }
        other => return Err(format!("unsupported type {}", quote::quote!(#other))),
    })
}

struct Cx<'a> {
    w: &'a World,
    this: String,
    /// if the fn takes `&mut self` and returns `&Self`, `*self = e; self` denotes `e`
    mut_self: bool,
    /// the translated code lives in `Except SvgdxError`: `?` is hoisted into an explicit match,
    /// `Ok(..)`/`Err(..)` are the constructors (connector.rs only)
    monadic: bool,
    /// `?` operands collected while translating one strict (branch-free) expression
    hoists: RefCell<Vec<(String, String)>>,
    in_plain: Cell<u32>,
    fresh: Cell<u32>,
    /// variables initialised with `f32::MAX` (type `Option Rat`, `none` = above every distance)
    ext_vars: RefCell<BTreeSet<String>>,
    /// parameters dropped from the signature (element handles, the context): any use is an error
    forbidden: BTreeSet<String>,
    /// function-local `const` items emitted as definitions of the same name
    consts: BTreeSet<String>,
    /// `?` unwraps an `Option` in a function returning `Option` (with `monadic`)
    opt_monad: bool,
    /// `Some(ref mut b)` aliases of `self.field` in a `&mut self` method: b -> field
    refmut: RefCell<BTreeMap<String, String>>,
}

impl<'a> Cx<'a> {
    fn new(w: &'a World, this: &str, mut_self: bool) -> Self {
        Cx {
            w,
            this: this.to_string(),
            mut_self,
            monadic: false,
            hoists: RefCell::new(vec![]),
            in_plain: Cell::new(0),
            fresh: Cell::new(0),
            ext_vars: RefCell::new(BTreeSet::new()),
            forbidden: BTreeSet::new(),
            consts: BTreeSet::new(),
            opt_monad: false,
            refmut: RefCell::new(BTreeMap::new()),
        }
    }
}

fn indent(s: &str, n: usize) -> String {
    let pad = " ".repeat(n);
    s.lines()
        .map(|l| format!("{pad}{l}"))
        .collect::<Vec<_>>()
        .join("\n")
}

impl<'a> Cx<'a> {
    fn path_expr(&self, p: &syn::Path) -> R<String> {
        let segs: Vec<String> = p.segments.iter().map(|s| s.ident.to_string()).collect();
        match segs.as_slice() {
            [one] => {
                if one == "None" {
                    Ok("none".into())
                } else if one == "self" {
                    Ok("self".into())
                } else if self.consts.contains(one) {
                    Ok(one.clone())
                } else if self.forbidden.contains(one) {
                    Err(format!("use of `{one}` (a parameter outside the translated subset)"))
                } else if self.ext_vars.borrow().contains(one) {
                    Err(format!("`{one}` (initialised with f32::MAX) used outside an order comparison"))
                } else if one.chars().next().is_some_and(|c| c.is_uppercase()) {
                    let owner = self.w.variant_owner(one)?;
                    Ok(format!("{owner}.{one}"))
                } else {
                    Ok(ident(one))
                }
            }
            [t, v] => {
                let t = if t == "Self" { self.this.clone() } else { t.clone() };
                if t == "f32" {
                    return Err(format!("unsupported f32 constant {v}"));
                }
                Ok(format!("{t}.{v}"))
            }
            _ => Err(format!("unsupported path {}", segs.join("::"))),
        }
    }

    fn pat(&self, p: &Pat) -> R<String> {
        Ok(match p {
            Pat::Wild(_) => "_".into(),
            Pat::Ident(i) => {
                let n = i.ident.to_string();
                if n == "None" {
                    "none".into()
                } else if n.chars().next().is_some_and(|c| c.is_uppercase()) {
                    let owner = self.w.variant_owner(&n)?;
                    format!("{owner}.{n}")
                } else {
                    ident(&n)
                }
            }
            Pat::Tuple(t) => {
                let parts: R<Vec<_>> = t.elems.iter().map(|e| self.pat(e)).collect();
                format!("({})", parts?.join(", "))
            }
            Pat::TupleStruct(ts) => {
                let parts: R<Vec<_>> = ts.elems.iter().map(|e| self.pat(e)).collect();
                let parts = parts?;
                if ts.path.is_ident("Some") {
                    format!("(some {})", parts.join(" "))
                } else {
                    let head = self.path_expr(&ts.path)?;
                    format!("({} {})", head, parts.join(" "))
                }
            }
            Pat::Path(pp) => self.path_expr(&pp.path)?,
            Pat::Reference(r) => self.pat(&r.pat)?,
            Pat::Paren(pp) => self.pat(&pp.pat)?,
            Pat::Lit(l) => match &l.lit {
                Lit::Str(s) => char_list(&s.value()),
                Lit::Bool(b) => format!("{}", b.value),
                other => return Err(format!("unsupported literal pattern {}", quote::quote!(#other))),
            },
            Pat::Or(_) => return Err("or-pattern in nested position".into()),
            other => return Err(format!("unsupported pattern {}", quote::quote!(#other))),
        })
    }

    /// top-level pattern of an arm: returns the alternatives, each as the list of column patterns
    fn arm_alts(&self, p: &Pat, cols: usize) -> R<Vec<String>> {
        let alts: Vec<&Pat> = match p {
            Pat::Or(o) => o.cases.iter().collect(),
            other => vec![other],
        };
        let mut out = vec![];
        for a in alts {
            let a = match a {
                Pat::Paren(pp) => &*pp.pat,
                o => o,
            };
            if cols > 1 {
                match a {
                    Pat::Tuple(t) if t.elems.len() == cols => {
                        // an or-pattern directly in a column is expanded (cartesian product, first column outermost)
                        let mut rows: Vec<Vec<String>> = vec![vec![]];
                        for e in &t.elems {
                            let e = match e {
                                Pat::Paren(pp) => &*pp.pat,
                                o => o,
                            };
                            let col: Vec<String> = match e {
                                Pat::Or(o) => o.cases.iter().map(|c| self.pat(c)).collect::<R<Vec<_>>>()?,
                                other => vec![self.pat(other)?],
                            };
                            let mut next = vec![];
                            for r in &rows {
                                for c in &col {
                                    let mut r2 = r.clone();
                                    r2.push(c.clone());
                                    next.push(r2);
                                }
                            }
                            rows = next;
                        }
                        for r in rows {
                            out.push(r.join(", "));
                        }
                    }
                    Pat::Wild(_) => out.push(vec!["_"; cols].join(", ")),
                    other => {
                        return Err(format!(
                            "arm pattern does not match tuple scrutinee: {}",
                            quote::quote!(#other)
                        ))
                    }
                }
            } else {
                out.push(self.pat(a)?);
            }
        }
        Ok(out)
    }

    fn scrut(&self, e: &Expr) -> R<(String, usize)> {
        match e {
            Expr::Tuple(t) => {
                let parts: R<Vec<_>> = t.elems.iter().map(|x| self.expr(x)).collect();
                Ok((parts?.join(", "), t.elems.len()))
            }
            Expr::Paren(p) => self.scrut(&p.expr),
            other => Ok((self.expr(other)?, 1)),
        }
    }

    fn match_arms(&self, scrut: &str, cols: usize, arms: &[syn::Arm], k: &dyn Fn(String) -> R<String>) -> R<String> {
        if arms.is_empty() {
            return Err("guarded arm falls off the end of a match".into());
        }
        let mut out = format!("(match {scrut} with");
        for (i, arm) in arms.iter().enumerate() {
            let alts = self.arm_alts(&arm.pat, cols)?;
            let body = self.expr_k(&arm.body, k)?;
            if let Some((_, g)) = &arm.guard {
                let g = self.expr(g)?;
                let rest = self.match_arms(scrut, cols, &arms[i + 1..], k)?;
                for a in &alts {
                    write!(out, "\n  | {a} =>\n    if {g} then\n{}\n    else\n{}", indent(&body, 6), indent(&rest, 6)).unwrap();
                }
            } else if alts.len() == 1 {
                write!(out, "\n  | {} =>\n{}", alts[0], indent(&body, 4)).unwrap();
            } else {
                // or-pattern: same body for each alternative (Lean requires identical binders)
                for a in &alts {
                    write!(out, "\n  | {a} =>\n{}", indent(&body, 4)).unwrap();
                }
            }
        }
        out.push(')');
        Ok(out)
    }

    fn expr_match(&self, m: &ExprMatch, k: &dyn Fn(String) -> R<String>) -> R<String> {
        let (s, cols) = self.scrut(&m.expr)?;
        self.match_arms(&s, cols, &m.arms, k)
    }

    fn expr_if(&self, i: &ExprIf, k: &dyn Fn(String) -> R<String>) -> R<String> {
        let then_b = self.block_k(&i.then_branch, k)?;
        let else_b = match &i.else_branch {
            Some((_, e)) => self.expr_k(e, k)?,
            None => return Err("`if` without else in expression position".into()),
        };
        if let Expr::Let(l) = &*i.cond {
            let (s, cols) = self.scrut(&l.expr)?;
            let alts = self.arm_alts(&l.pat, cols)?;
            let wild = vec!["_"; cols].join(", ");
            let mut out = format!("(match {s} with");
            for a in &alts {
                write!(out, "\n  | {a} =>\n{}", indent(&then_b, 4)).unwrap();
            }
            write!(out, "\n  | {wild} =>\n{})", indent(&else_b, 4)).unwrap();
            Ok(out)
        } else {
            let c = self.expr(&i.cond)?;
            Ok(format!("(if {c} then\n{}\nelse\n{})", indent(&then_b, 2), indent(&else_b, 2)))
        }
    }

    fn contains_return(e: &Expr) -> bool {
        struct V(bool);
        impl<'ast> syn::visit::Visit<'ast> for V {
            fn visit_expr_return(&mut self, _: &'ast syn::ExprReturn) {
                self.0 = true;
            }
            fn visit_expr_try(&mut self, _: &'ast syn::ExprTry) {
                self.0 = true;
            }
        }
        let mut v = V(false);
        syn::visit::Visit::visit_expr(&mut v, e);
        v.0
    }

    fn contains_plain_return(e: &Expr) -> bool {
        struct V(bool);
        impl<'ast> syn::visit::Visit<'ast> for V {
            fn visit_expr_return(&mut self, _: &'ast syn::ExprReturn) {
                self.0 = true;
            }
        }
        let mut v = V(false);
        syn::visit::Visit::visit_expr(&mut v, e);
        v.0
    }

    /// translate a block whose value is passed to continuation `k` (identity for tail position)
    fn block_k(&self, b: &Block, k: &dyn Fn(String) -> R<String>) -> R<String> {
        self.stmts_k(&b.stmts, k)
    }

    fn stmts_k(&self, stmts: &[Stmt], k: &dyn Fn(String) -> R<String>) -> R<String> {
        let Some((first, rest)) = stmts.split_first() else {
            return k(if self.mut_self { "self".into() } else { "()".into() });
        };
        match first {
            Stmt::Item(Item::Use(_)) => self.stmts_k(rest, k),
            Stmt::Local(l) => {
                let init = l.init.as_ref().ok_or("let without initialiser")?;
                if init.diverge.is_some() {
                    return Err("let-else is not supported".into());
                }
                let p = match &l.pat {
                    Pat::Type(pt) => self.pat(&pt.pat)?,
                    other => self.pat(other)?,
                };
                if Self::contains_return(&init.expr) {
                    // push the continuation into the initialiser's branches
                    let kk = |v: String| -> R<String> {
                        let body = self.stmts_k(rest, k)?;
                        Ok(format!("let {p} := {v}\n{body}"))
                    };
                    self.expr_k(&init.expr, &kk)
                } else {
                    let v = self.expr(&init.expr)?;
                    let body = self.stmts_k(rest, k)?;
                    Ok(format!("let {p} := {v}\n{body}"))
                }
            }
            Stmt::Expr(e, semi) => {
                // `self.field = EXPR;` in a `&mut self` method: functional update
                if self.mut_self && semi.is_some() {
                    if let Expr::Assign(a) = e {
                        if let Expr::Field(f) = &*a.left {
                            if matches!(&*f.base, Expr::Path(p) if p.path.is_ident("self")) {
                                if let syn::Member::Named(n) = &f.member {
                                    let v = self.expr(&a.right)?;
                                    let body = self.stmts_k(rest, k)?;
                                    return Ok(format!("let self := {{ self with {} := {v} }}\n{body}", ident(&n.to_string())));
                                }
                            }
                        }
                    }
                }
                if self.mut_self && semi.is_some() && rest.is_empty() {
                    if let Expr::Assign(a) = e {
                        if let Expr::Unary(u) = &*a.left {
                            if let (UnOp::Deref(_), Expr::Path(p)) = (&u.op, &*u.expr) {
                                if let Some(field) = p.path.get_ident().and_then(|i| self.refmut.borrow().get(&i.to_string()).cloned()) {
                                    let v = self.expr(&a.right)?;
                                    let body = self.stmts_k(rest, k)?;
                                    return Ok(format!("let self := {{ self with {field} := (some {v}) }}\n{body}"));
                                }
                            }
                        }
                    }
                }
                if rest.is_empty() {
                    return self.expr_k(e, k);
                }
                // `*self = EXPR; self`
                if self.mut_self && semi.is_some() {
                    if let Expr::Assign(a) = e {
                        if matches!(&*a.left, Expr::Unary(u) if matches!(u.op, UnOp::Deref(_)) && matches!(&*u.expr, Expr::Path(p) if p.path.is_ident("self")))
                        {
                            if let [Stmt::Expr(Expr::Path(p), None)] = rest {
                                if p.path.is_ident("self") {
                                    return self.expr_k(&a.right, k);
                                }
                            }
                        }
                    }
                }
                if self.mut_self {
                    if let Expr::If(i) = e {
                        if let Expr::Let(l) = &*i.cond {
                            return self.mut_self_if_let(i, l, rest, k);
                        }
                    }
                }
                Err(format!("unsupported statement {}", quote::quote!(#e)))
            }
            Stmt::Macro(m) => Err(format!("unsupported macro statement {}", quote::quote!(#m))),
            Stmt::Item(i) => Err(format!("unsupported item in body {}", quote::quote!(#i))),
        }
    }

    /// `&mut self` method: `if let PAT = SCRUT { .. } else { .. }` as a statement; each branch updates
    /// `self`; `Some(ref mut b)` over `self.field` makes `*b = E` an update of that field
    fn mut_self_if_let(&self, i: &ExprIf, l: &syn::ExprLet, rest: &[Stmt], k: &dyn Fn(String) -> R<String>) -> R<String> {
        let (s, cols) = self.scrut(&l.expr)?;
        let alts = self.arm_alts(&l.pat, cols)?;
        let mut alias: Option<String> = None;
        if let (Pat::TupleStruct(ts), Expr::Field(f)) = (&*l.pat, &*l.expr) {
            if let (true, Some(Pat::Ident(pi)), syn::Member::Named(n)) = (ts.path.is_ident("Some") && ts.elems.len() == 1, ts.elems.first(), &f.member) {
                if pi.by_ref.is_some() && pi.mutability.is_some() {
                    if !matches!(&*f.base, Expr::Path(p) if p.path.is_ident("self")) {
                        return Err("`ref mut` binding of something other than a field of self".into());
                    }
                    self.refmut.borrow_mut().insert(pi.ident.to_string(), ident(&n.to_string()));
                    alias = Some(pi.ident.to_string());
                }
            }
        }
        let id = |v: String| -> R<String> { Ok(v) };
        let then_b = self.stmts_k(&i.then_branch.stmts, &id);
        if let Some(a) = alias {
            self.refmut.borrow_mut().remove(&a);
        }
        let then_b = then_b?;
        let else_b = match &i.else_branch {
            None => "self".to_string(),
            Some((_, e)) => match &**e {
                Expr::Block(b) => self.stmts_k(&b.block.stmts, &id)?,
                other => return Err(format!("unsupported else branch {}", quote::quote!(#other))),
            },
        };
        let wild = vec!["_"; cols].join(", ");
        let mut out = format!("let self := (match {s} with");
        for a in &alts {
            write!(out, "\n  | {a} =>\n{}", indent(&then_b, 4)).unwrap();
        }
        write!(out, "\n  | {wild} =>\n{})", indent(&else_b, 4)).unwrap();
        let body = self.stmts_k(rest, k)?;
        Ok(format!("{out}\n{body}"))
    }

    /// expression in a position where `return` may occur: value flows to `k`, `return e` yields `e`
    fn expr_k(&self, e: &Expr, k: &dyn Fn(String) -> R<String>) -> R<String> {
        match e {
            Expr::Return(r) => {
                let v = r.expr.as_ref().ok_or("bare return")?;
                self.expr(v)
            }
            Expr::Match(_) | Expr::If(_) | Expr::Block(_) if self.in_plain.get() > 0 && Self::contains_return(e) => Err(format!(
                "`?` inside a conditional sub-expression of a strict expression: {}",
                quote::quote!(#e)
            )),
            Expr::Match(m) => self.expr_match(m, k),
            Expr::If(i) => self.expr_if(i, k),
            Expr::Block(b) => self.block_k(&b.block, k),
            Expr::Paren(p) if Self::contains_return(&p.expr) => self.expr_k(&p.expr, k),
            other => {
                if Self::contains_return(other) {
                    if !self.monadic || Self::contains_plain_return(other) {
                        return Err(format!("`return`/`?` in unsupported position: {}", quote::quote!(#other)));
                    }
                    if self.in_plain.get() > 0 {
                        // inside a strict expression already being collected
                        return k(self.expr_plain(other)?);
                    }
                    // strict expression with `?` operands: bind them first, in evaluation order
                    let mark = self.hoists.borrow().len();
                    self.in_plain.set(1);
                    let v = self.expr_plain(other);
                    self.in_plain.set(0);
                    let v = v?;
                    let hs: Vec<(String, String)> = self.hoists.borrow_mut().split_off(mark);
                    let mut inner = k(v)?;
                    for (name, he) in hs.into_iter().rev() {
                        if self.opt_monad {
                            inner = format!("(match {he} with\n  | none =>\n    none\n  | some {name} =>\n{})", indent(&inner, 4));
                            continue;
                        }
                        inner = format!(
                            "(match {he} with\n  | Except.error e__ =>\n    (Except.error e__)\n  | Except.ok {name} =>\n{})",
                            indent(&inner, 4)
                        );
                    }
                    return Ok(inner);
                }
                k(self.expr_plain(other)?)
            }
        }
    }

    fn expr(&self, e: &Expr) -> R<String> {
        self.expr_k(e, &|v| Ok(v))
    }

    fn method_call(&self, recv: &Expr, name: &str, args: &Punctuated<Expr, syn::Token![,]>) -> R<String> {
        if (name == "to_owned" || name == "to_string") && args.is_empty() {
            if let Some(s) = lit_str(recv) {
                return Ok(char_list(&s));
            }
            // a conditional all of whose leaves are string literals: `.to_owned()` is the identity on `Str`
            if !matches!(recv, Expr::Lit(_)) && str_leaves(recv) {
                return self.expr(recv);
            }
        }
        if name == "ok_or_else" && self.monadic {
            // Option -> Result with a thunk: `o.ok_or_else(|| E)`
            let [Expr::Closure(c)] = args.iter().collect::<Vec<_>>()[..] else {
                return Err("ok_or_else expects one closure".into());
            };
            if !c.inputs.is_empty() || Self::contains_return(&c.body) {
                return Err("ok_or_else: unsupported closure".into());
            }
            let r = self.expr(recv)?;
            let e = self.expr(&c.body)?;
            return Ok(format!("(match {r} with | some v__ => (Except.ok v__) | none => (Except.error {e}))"));
        }
        let r = self.expr(recv)?;
        let a: R<Vec<_>> = args.iter().map(|x| self.expr(x)).collect();
        let a = a?;
        let known = |n: usize| -> R<()> {
            if a.len() == n {
                Ok(())
            } else {
                Err(format!("method {name} expects {n} args"))
            }
        };
        Ok(match name {
            "min" => {
                known(1)?;
                format!("(Rq.min {r} {})", a[0])
            }
            "max" => {
                known(1)?;
                format!("(Rq.max {r} {})", a[0])
            }
            "abs" => format!("(Rq.abs {r})"),
            "floor" => format!("(Rq.floor {r})"),
            "ceil" => format!("(Rq.ceil {r})"),
            "or" => {
                known(1)?;
                format!("(Rq.optOr {r} {})", a[0])
            }
            "unwrap_or" => {
                known(1)?;
                format!("(Option.getD {r} {})", a[0])
            }
            "into_iter" if a.is_empty() => r.clone(),
            "reduce" => {
                known(1)?;
                format!("(Iter.reduce {} {r})", a[0])
            }
            "fold" => {
                known(2)?;
                format!("(List.foldl {} {} {r})", a[1], a[0])
            }
            "filter" => {
                known(1)?;
                format!("(List.filter {} {r})", a[0])
            }
            "is_some" => format!("(Option.isSome {r})"),
            "is_none" => format!("(Option.isNone {r})"),
            "map" => {
                known(1)?;
                format!("(Option.map {} {r})", a[0])
            }
            other => {
                let owners = self.w.methods.get(other).ok_or(format!("unknown method `{other}`"))?;
                let owner = if owners.len() == 1 {
                    owners.iter().next().unwrap().clone()
                } else if owners.contains(&self.this) && matches!(recv, Expr::Path(p) if p.path.is_ident("self")) {
                    self.this.clone()
                } else {
                    return Err(format!("ambiguous method `{other}`: {owners:?}"));
                };
                format!("({owner}.{} {r}{}{})", ident(other), if a.is_empty() { "" } else { " " }, a.join(" "))
            }
        })
    }

    fn is_ext(&self, e: &Expr) -> Option<String> {
        match e {
            Expr::Path(p) => p.path.get_ident().map(|i| i.to_string()).filter(|n| self.ext_vars.borrow().contains(n)),
            Expr::Paren(p) => self.is_ext(&p.expr),
            _ => None,
        }
    }

    fn expr_plain(&self, e: &Expr) -> R<String> {
        Ok(match e {
            Expr::Lit(l) => match &l.lit {
                Lit::Float(f) => rat_lit(&f.to_string())?,
                Lit::Int(i) => format!("{}", i.base10_digits()),
                Lit::Str(s) => char_list(&s.value()),
                Lit::Bool(b) => format!("{}", b.value),
                Lit::Char(c) => format!("'{}'", c.value()),
                other => return Err(format!("unsupported literal {}", quote::quote!(#other))),
            },
            Expr::Path(p) => self.path_expr(&p.path)?,
            Expr::Paren(p) => format!("({})", self.expr(&p.expr)?),
            Expr::Group(g) => self.expr(&g.expr)?,
            Expr::Reference(r) => self.expr(&r.expr)?,
            Expr::Unary(u) => {
                let inner = self.expr(&u.expr)?;
                match u.op {
                    UnOp::Neg(_) => format!("(-{inner})"),
                    UnOp::Not(_) => format!("(!{inner})"),
                    UnOp::Deref(_) => inner,
                    _ => return Err("unsupported unary op".into()),
                }
            }
            Expr::Binary(b) if self.is_ext(&b.left).is_some() || self.is_ext(&b.right).is_some() => {
                // comparison against a variable that starts at f32::MAX (`none`): every distance is below it
                let (ext_left, other) = match (self.is_ext(&b.left), self.is_ext(&b.right)) {
                    (Some(n), None) => (true, (n, self.expr(&b.right)?)),
                    (None, Some(n)) => (false, (n, self.expr(&b.left)?)),
                    _ => return Err(format!("unsupported use of f32::MAX variables in {}", quote::quote!(#b))),
                };
                let (n, o) = other;
                let (sym, o_below) = match b.op {
                    BinOp::Lt(_) => ("<", !ext_left),
                    BinOp::Le(_) => ("≤", !ext_left),
                    BinOp::Gt(_) => (">", ext_left),
                    BinOp::Ge(_) => ("≥", ext_left),
                    _ => return Err(format!("unsupported use of an f32::MAX variable in {}", quote::quote!(#b))),
                };
                let cmp = if ext_left { format!("m__ {sym} {o}") } else { format!("{o} {sym} m__") };
                format!("(match {n} with | none => {o_below} | some m__ => (decide ({cmp})))")
            }
            Expr::Try(t) => {
                if !self.monadic || self.in_plain.get() == 0 {
                    return Err(format!("`?` in unsupported position: {}", quote::quote!(#t)));
                }
                let inner = self.expr(&t.expr)?;
                let n = self.fresh.get() + 1;
                self.fresh.set(n);
                let name = format!("q{n}__");
                self.hoists.borrow_mut().push((name.clone(), inner));
                name
            }
            Expr::Macro(m) if m.mac.path.is_ident("vec") => {
                let elems = m
                    .mac
                    .parse_body_with(Punctuated::<Expr, syn::Token![,]>::parse_terminated)
                    .map_err(|e| format!("vec!: {e}"))?;
                let parts: R<Vec<_>> = elems.iter().map(|x| self.expr(x)).collect();
                format!("[{}]", parts?.join(", "))
            }
            Expr::Binary(b) => {
                let l = self.expr(&b.left)?;
                let r = self.expr(&b.right)?;
                match b.op {
                    BinOp::Add(_) => format!("({l} + {r})"),
                    BinOp::Sub(_) => format!("({l} - {r})"),
                    BinOp::Mul(_) => format!("({l} * {r})"),
                    BinOp::Div(_) => format!("({l} / {r})"),
                    BinOp::Lt(_) => format!("(decide ({l} < {r}))"),
                    BinOp::Le(_) => format!("(decide ({l} ≤ {r}))"),
                    BinOp::Gt(_) => format!("(decide ({l} > {r}))"),
                    BinOp::Ge(_) => format!("(decide ({l} ≥ {r}))"),
                    BinOp::Eq(_) => format!("({l} == {r})"),
                    BinOp::Ne(_) => format!("({l} != {r})"),
                    BinOp::And(_) => format!("({l} && {r})"),
                    BinOp::Or(_) => format!("({l} || {r})"),
                    _ => return Err(format!("unsupported binary op in {}", quote::quote!(#b))),
                }
            }
            Expr::Field(f) => {
                let base = self.expr(&f.base)?;
                match &f.member {
                    syn::Member::Named(n) => format!("{base}.{}", ident(&n.to_string())),
                    syn::Member::Unnamed(i) => format!("{base}.{}", i.index + 1),
                }
            }
            Expr::Tuple(t) => {
                let parts: R<Vec<_>> = t.elems.iter().map(|x| self.expr(x)).collect();
                format!("({})", parts?.join(", "))
            }
            Expr::Call(c) => {
                let args: R<Vec<_>> = c.args.iter().map(|x| self.expr(x)).collect();
                let args = args?;
                let Expr::Path(p) = &*c.func else {
                    return Err("unsupported call target".into());
                };
                if p.path.is_ident("Some") {
                    format!("(some {})", args.join(" "))
                } else if self.monadic && (p.path.is_ident("Ok") || p.path.is_ident("Err")) && args.len() == 1 {
                    format!("(Except.{} {})", if p.path.is_ident("Ok") { "ok" } else { "error" }, args[0])
                } else {
                    let f = self.path_expr(&p.path)?;
                    format!("({f} {})", args.join(" "))
                }
            }
            Expr::MethodCall(m) => self.method_call(&m.receiver, &m.method.to_string(), &m.args)?,
            Expr::Struct(s) => {
                let name = if s.path.is_ident("Self") {
                    self.this.clone()
                } else {
                    s.path.segments.last().unwrap().ident.to_string()
                };
                if s.rest.is_some() {
                    return Err("struct update syntax unsupported".into());
                }
                let mut fs = vec![];
                for f in &s.fields {
                    let syn::Member::Named(n) = &f.member else {
                        return Err("tuple struct literal".into());
                    };
                    fs.push(format!("{} := {}", ident(&n.to_string()), self.expr(&f.expr)?));
                }
                format!("({{ {} : {name} }})", fs.join(", "))
            }
            Expr::Closure(c) => {
                let mut ps = vec![];
                for p in &c.inputs {
                    ps.push(match p {
                        Pat::Type(pt) => self.pat(&pt.pat)?,
                        other => self.pat(other)?,
                    });
                }
                format!("(fun {} => {})", ps.join(" "), self.expr(&c.body)?)
            }
            Expr::Macro(m) if m.mac.path.is_ident("matches") => {
                let (scrut, pat): (Expr, Pat) = m
                    .mac
                    .parse_body_with(|input: syn::parse::ParseStream| {
                        let e: Expr = input.parse()?;
                        let _: syn::Token![,] = input.parse()?;
                        let p = Pat::parse_multi_with_leading_vert(input)?;
                        Ok((e, p))
                    })
                    .map_err(|e| e.to_string())?;
                let (s, cols) = self.scrut(&scrut)?;
                let alts = self.arm_alts(&pat, cols)?;
                let mut out = format!("(match {s} with");
                for a in alts {
                    write!(out, " | {a} => true").unwrap();
                }
                write!(out, " | {} => false)", vec!["_"; cols].join(", ")).unwrap();
                out
            }
            Expr::Match(_) | Expr::If(_) | Expr::Block(_) => self.expr(e)?,
            Expr::Cast(c) => {
                // only `x as f32` from integers is accepted
                let inner = self.expr(&c.expr)?;
                match ty(&c.ty, &self.this)?.as_str() {
                    "Rat" => format!("(({inner} : Nat) : Rat)"),
                    other => return Err(format!("unsupported cast to {other}")),
                }
            }
            other => return Err(format!("unsupported expression {}", quote::quote!(#other))),
        })
    }
}

fn trans_fn(w: &World, this: &str, f: &ImplItemFn) -> R<String> {
    let name = f.sig.ident.to_string();
    let mut params = vec![];
    let mut mut_self = false;
    for a in &f.sig.inputs {
        match a {
            FnArg::Receiver(r) => {
                mut_self = r.mutability.is_some();
                params.push(format!("(self : {this})"));
            }
            FnArg::Typed(pt) => {
                let Pat::Ident(pi) = &*pt.pat else {
                    return Err(format!("{this}::{name}: unsupported parameter pattern"));
                };
                params.push(format!("({} : {})", ident(&pi.ident.to_string()), ty(&pt.ty, this)?));
            }
        }
    }
    let ret = match &f.sig.output {
        ReturnType::Default if mut_self => this.to_string(),
        ReturnType::Default => "Unit".to_string(),
        ReturnType::Type(_, t) => ty(t, this)?,
    };
    let cx = Cx::new(w, this, mut_self);
    let body = cx
        .block_k(&f.block, &|v| Ok(v))
        .map_err(|e| format!("{this}::{name}: {e}"))?;
    // self-recursive (scalarspec Radius) functions need no special handling: structural on enum arg fails,
    // so mark them with a termination hint via `partial`-free trick: Lean accepts non-recursive calls only.
    Ok(format!(
        "def {this}.{} {} : {ret} :=\n{}\n",
        ident(&name),
        params.join(" "),
        indent(&body, 2)
    ))
}

fn enum_def(e: &ItemEnum) -> R<String> {
    let name = e.ident.to_string();
    let mut out = format!("inductive {name} where\n");
    for v in &e.variants {
        let mut fields = vec![];
        for f in &v.fields {
            fields.push(format!("(_ : {})", ty(&f.ty, &name)?));
        }
        writeln!(out, "  | {} {}", v.ident, fields.join(" ")).unwrap();
    }
    out.push_str("deriving Repr, DecidableEq, Inhabited\n");
    Ok(out)
}

fn struct_def(s: &ItemStruct) -> R<String> {
    let name = s.ident.to_string();
    let mut out = format!("structure {name} where\n");
    for f in &s.fields {
        let fname = f.ident.as_ref().ok_or("tuple struct")?.to_string();
        writeln!(out, "  {} : {}", ident(&fname), ty(&f.ty, &name)?).unwrap();
    }
    out.push_str("deriving Repr, DecidableEq, Inhabited\n");
    Ok(out)
}

struct Wanted {
    file: &'static str,
    ty: &'static str,
    fns: &'static [&'static str],
}

const GEOMETRY: &[Wanted] = &[
    Wanted { file: "position.rs", ty: "Length", fns: &["evaluate", "adjust", "calc_offset"] },
    Wanted { file: "position.rs", ty: "DirSpec", fns: &["to_locspec"] },
    Wanted { file: "position.rs", ty: "LocSpec", fns: &["is_top", "is_right", "is_bottom", "is_left"] },
    Wanted {
        file: "position.rs",
        ty: "BoundingBox",
        fns: &[
            "new", "width", "height", "center", "locspec", "scalarspec", "combine", "intersect", "expand",
            "expand_trbl_length", "shrink_trbl_length", "translated", "round",
        ],
    },
    Wanted { file: "transform_attr.rs", ty: "BoundingBox", fns: &["xfrm_scale", "xfrm_translate"] },
    Wanted {
        file: "position.rs",
        ty: "Position",
        fns: &["extent", "three_point", "x_def", "y_def", "to_bbox", "has_x_position", "has_y_position", "x", "y"],
    },
];

const GEOMETRY_TYPES: &[(&str, &str)] = &[
    ("position.rs", "Length"),
    ("position.rs", "DirSpec"),
    ("position.rs", "LocSpec"),
    ("position.rs", "ScalarSpec"),
    ("position.rs", "BoundingBox"),
    ("position.rs", "TrblLength"),
    ("position.rs", "Position"),
];

fn parse_file(src: &Path, name: &str) -> R<syn::File> {
    let text = fs::read_to_string(src.join(name)).map_err(|e| format!("{name}: {e}"))?;
    syn::parse_file(&text).map_err(|e| format!("{name}: {e}"))
}

fn self_ty_name(i: &ItemImpl) -> Option<String> {
    if let Type::Path(p) = &*i.self_ty {
        p.path.segments.last().map(|s| s.ident.to_string())
    } else {
        None
    }
}

fn find_fn<'a>(file: &'a syn::File, tyname: &str, fname: &str) -> Option<&'a ImplItemFn> {
    for item in &file.items {
        if let Item::Impl(i) = item {
            if i.trait_.is_none() && self_ty_name(i).as_deref() == Some(tyname) {
                for ii in &i.items {
                    if let ImplItem::Fn(f) = ii {
                        if f.sig.ident == fname {
                            return Some(f);
                        }
                    }
                }
            }
        }
    }
    None
}

fn find_trait_fn<'a>(file: &'a syn::File, trait_name: &str, tyname: &str, fname: &str) -> Option<&'a ImplItemFn> {
    for item in &file.items {
        if let Item::Impl(i) = item {
            let tn = i.trait_.as_ref().and_then(|(_, p, _)| p.segments.last().map(|s| s.ident.to_string()));
            if tn.as_deref() == Some(trait_name) && self_ty_name(i).as_deref() == Some(tyname) {
                for ii in &i.items {
                    if let ImplItem::Fn(f) = ii {
                        if f.sig.ident == fname {
                            return Some(f);
                        }
                    }
                }
            }
        }
    }
    None
}

fn gen_geometry(src: &Path) -> R<String> {
    let mut files: BTreeMap<&str, syn::File> = BTreeMap::new();
    for n in ["position.rs", "transform_attr.rs"] {
        files.insert(n, parse_file(src, n)?);
    }
    let mut w = World::default();
    let mut out = String::new();
    out.push_str("/- GENERATED by /verif/tools/vtranslate from /repo/src — do not edit. -/\nimport Svgdx.Base.Num\nimport Svgdx.Base.Rq\nnamespace Svgdx.Gen\nopen Svgdx\n\n");
    for (file, tname) in GEOMETRY_TYPES {
        let f = &files[file];
        let mut found = false;
        for item in &f.items {
            match item {
                Item::Enum(e) if e.ident == tname => {
                    let mut vs = vec![];
                    for v in &e.variants {
                        let mut tys = vec![];
                        for fl in &v.fields {
                            tys.push(ty(&fl.ty, tname)?);
                        }
                        vs.push((v.ident.to_string(), tys));
                    }
                    w.enums.insert(tname.to_string(), vs);
                    out.push_str(&enum_def(e)?);
                    out.push('\n');
                    found = true;
                }
                Item::Struct(s) if s.ident == tname => {
                    let mut fs_ = vec![];
                    for fl in &s.fields {
                        fs_.push((fl.ident.as_ref().unwrap().to_string(), ty(&fl.ty, tname)?));
                    }
                    w.structs.insert(tname.to_string(), fs_);
                    out.push_str(&struct_def(s)?);
                    out.push('\n');
                    found = true;
                }
                _ => {}
            }
        }
        if !found {
            return Err(format!("type {tname} not found in {file}"));
        }
    }
    for wanted in GEOMETRY {
        for f in wanted.fns {
            w.methods.entry(f.to_string()).or_default().insert(wanted.ty.to_string());
        }
    }
    w.methods.entry("from_scalarspec".into()).or_default().insert("LocSpec".into());
    for wanted in GEOMETRY {
        for fname in wanted.fns {
            let f = find_fn(&files[wanted.file], wanted.ty, fname)
                .ok_or(format!("{}::{} not found in {}", wanted.ty, fname, wanted.file))?;
            let mut text = trans_fn(&w, wanted.ty, f)?;
            if wanted.ty == "BoundingBox" && *fname == "scalarspec" {
                // the only self-recursive function (Radius = max Rx Ry): recursion is on constant
                // constructors, not structural; give Lean the obvious measure.
                text = text.trim_end().to_string()
                    + "\ntermination_by (match ss with | ScalarSpec.Radius => 1 | _ => 0)\ndecreasing_by all_goals simp_wf\n";
            }
            out.push_str(&text);
            out.push('\n');
        }
    }
    // impl From<ScalarSpec> for LocSpec
    let f = find_trait_fn(&files["position.rs"], "From", "LocSpec", "from")
        .ok_or("impl From<ScalarSpec> for LocSpec not found")?;
    let text = trans_fn(&w, "LocSpec", f)?.replacen("def LocSpec.from_ ", "def LocSpec.from_scalarspec ", 1);
    out.push_str(&text);
    out.push_str("\nend Svgdx.Gen\n");
    Ok(out)
}

// ---------------------------------------------------------------- tables

/// string-literal match tables: `match value { "a" | "b" => Ok(Self::X), ... }`
fn str_table(f: &ImplItemFn, what: &str) -> R<Vec<(Vec<String>, String)>> {
    // find the first `match` whose arms have string-literal patterns
    struct V<'a>(Option<&'a ExprMatch>);
    impl<'ast> syn::visit::Visit<'ast> for V<'ast> {
        fn visit_expr_match(&mut self, m: &'ast ExprMatch) {
            if self.0.is_none() {
                let has_str = m.arms.iter().any(|a| {
                    fn lit(p: &Pat) -> bool {
                        match p {
                            Pat::Lit(l) => matches!(l.lit, Lit::Str(_)),
                            Pat::Or(o) => o.cases.iter().all(lit),
                            _ => false,
                        }
                    }
                    lit(&a.pat)
                });
                if has_str {
                    self.0 = Some(m);
                    return;
                }
            }
            syn::visit::visit_expr_match(self, m);
        }
    }
    let mut v = V(None);
    syn::visit::Visit::visit_block(&mut v, &f.block);
    let m = v.0.ok_or(format!("{what}: no string match table found"))?;
    let mut rows = vec![];
    for arm in &m.arms {
        let mut keys = vec![];
        fn collect(p: &Pat, keys: &mut Vec<String>) -> bool {
            match p {
                Pat::Lit(l) => {
                    if let Lit::Str(s) = &l.lit {
                        keys.push(s.value());
                        true
                    } else {
                        false
                    }
                }
                Pat::Or(o) => o.cases.iter().all(|c| collect(c, keys)),
                _ => false,
            }
        }
        if !collect(&arm.pat, &mut keys) {
            continue; // default / fallthrough arm: modelled by hand
        }
        if arm.guard.is_some() {
            return Err(format!("{what}: guarded table arm"));
        }
        // value: Ok(Self::X) | Self::X | integer literal | Ok(Self::default())
        fn value(e: &Expr) -> Option<String> {
            match e {
                Expr::Call(c) => {
                    if let Expr::Path(p) = &*c.func {
                        if p.path.is_ident("Ok") && c.args.len() == 1 {
                            return value(&c.args[0]);
                        }
                        // Self::default()
                        let segs: Vec<_> = p.path.segments.iter().map(|s| s.ident.to_string()).collect();
                        if segs.len() == 2 && segs[1] == "default" && c.args.is_empty() {
                            return Some("Default".into());
                        }
                    }
                    None
                }
                Expr::Path(p) => p.path.segments.last().map(|s| s.ident.to_string()),
                Expr::Lit(l) => match &l.lit {
                    Lit::Int(i) => Some(i.base10_digits().to_string()),
                    _ => None,
                },
                _ => None,
            }
        }
        let val = value(&arm.body).ok_or(format!("{what}: unsupported table value {}", quote::quote!(#arm)))?;
        rows.push((keys, val));
    }
    Ok(rows)
}

fn emit_str_table(out: &mut String, name: &str, valty: &str, rows: &[(Vec<String>, String)], qualify: bool) {
    writeln!(out, "def {name} : List (List Char × {valty}) := [").unwrap();
    let mut first = true;
    for (keys, v) in rows {
        for k in keys {
            let val = if qualify { format!("{valty}.{v}") } else { v.clone() };
            writeln!(out, "  {}({}, {val})", if first { "" } else { ", " }, char_list(k)).unwrap();
            first = false;
        }
    }
    out.push_str("]\n\n");
}

fn static_str_list(file: &syn::File, name: &str) -> R<Vec<String>> {
    for item in &file.items {
        if let Item::Static(s) = item {
            if s.ident == name {
                return str_array(&s.expr);
            }
        }
        if let Item::Const(s) = item {
            if s.ident == name {
                return str_array(&s.expr);
            }
        }
    }
    Err(format!("static {name} not found"))
}

fn str_array(e: &Expr) -> R<Vec<String>> {
    match e {
        Expr::Reference(r) => str_array(&r.expr),
        Expr::Array(a) => {
            let mut out = vec![];
            for el in &a.elems {
                if let Expr::Lit(l) = el {
                    if let Lit::Str(s) = &l.lit {
                        out.push(s.value());
                        continue;
                    }
                }
                return Err("non-literal in string array".into());
            }
            Ok(out)
        }
        other => Err(format!("not an array: {}", quote::quote!(#other))),
    }
}

fn find_free_fn<'a>(file: &'a syn::File, name: &str) -> Option<&'a syn::ItemFn> {
    file.items.iter().find_map(|i| match i {
        Item::Fn(f) if f.sig.ident == name => Some(f),
        _ => None,
    })
}

/// all array literals inside a block whose elements are tuples of (string literal, X)
fn tuple_arrays(block: &Block) -> Vec<Vec<Vec<Expr>>> {
    struct V(Vec<Vec<Vec<Expr>>>);
    impl<'ast> syn::visit::Visit<'ast> for V {
        fn visit_expr_array(&mut self, a: &'ast syn::ExprArray) {
            let mut rows = vec![];
            for el in &a.elems {
                if let Expr::Tuple(t) = el {
                    rows.push(t.elems.iter().cloned().collect::<Vec<_>>());
                } else {
                    rows.clear();
                    break;
                }
            }
            if !rows.is_empty() {
                self.0.push(rows);
            }
            syn::visit::visit_expr_array(self, a);
        }
        fn visit_macro(&mut self, m: &'ast syn::Macro) {
            if m.path.is_ident("vec") {
                if let Ok(elems) = m.parse_body_with(Punctuated::<Expr, syn::Token![,]>::parse_terminated) {
                    let mut rows = vec![];
                    for el in &elems {
                        if let Expr::Tuple(t) = el {
                            rows.push(t.elems.iter().cloned().collect::<Vec<_>>());
                        } else {
                            rows.clear();
                            break;
                        }
                    }
                    if !rows.is_empty() {
                        self.0.push(rows);
                    }
                }
            }
        }
    }
    let mut v = V(vec![]);
    syn::visit::Visit::visit_block(&mut v, block);
    v.0
}

/// every leaf of the conditional expression is a string literal
fn str_leaves(e: &Expr) -> bool {
    fn block(b: &Block) -> bool {
        matches!(b.stmts.as_slice(), [Stmt::Expr(e, None)] if str_leaves(e))
    }
    match e {
        Expr::Lit(l) => matches!(l.lit, Lit::Str(_)),
        Expr::Paren(p) => str_leaves(&p.expr),
        Expr::Match(m) => !m.arms.is_empty() && m.arms.iter().all(|a| str_leaves(&a.body)),
        Expr::If(i) => block(&i.then_branch) && i.else_branch.as_ref().is_some_and(|(_, e)| str_leaves(e)),
        Expr::Block(b) => block(&b.block),
        _ => false,
    }
}

fn lit_str(e: &Expr) -> Option<String> {
    if let Expr::Lit(l) = e {
        if let Lit::Str(s) = &l.lit {
            return Some(s.value());
        }
    }
    None
}

/// every string literal (including format! templates) appearing in a fn body, in order
fn all_str_literals(block: &Block) -> Vec<String> {
    struct V(Vec<String>);
    impl<'ast> syn::visit::Visit<'ast> for V {
        fn visit_lit_str(&mut self, s: &'ast syn::LitStr) {
            self.0.push(s.value());
        }
        fn visit_macro(&mut self, m: &'ast syn::Macro) {
            // format!/matches!/vec! bodies: scan tokens for string literals
            fn walk(ts: proc_macro2::TokenStream, out: &mut Vec<String>) {
                for tt in ts {
                    match tt {
                        proc_macro2::TokenTree::Group(g) => walk(g.stream(), out),
                        proc_macro2::TokenTree::Literal(l) => {
                            if let Ok(Lit::Str(s)) = syn::parse_str::<Lit>(&l.to_string()) {
                                out.push(s.value());
                            }
                        }
                        _ => {}
                    }
                }
            }
            walk(m.tokens.clone(), &mut self.0);
        }
    }
    let mut v = V(vec![]);
    syn::visit::Visit::visit_block(&mut v, block);
    v.0
}

fn gen_tables(src: &Path) -> R<String> {
    let mut out = String::new();
    out.push_str("/- GENERATED by /verif/tools/vtranslate from /repo/src — do not edit. -/\nimport Svgdx.Gen.Geometry\nnamespace Svgdx.Gen\nopen Svgdx\n\n");
    let position = parse_file(src, "position.rs")?;
    for t in ["DirSpec", "LocSpec", "ScalarSpec"] {
        let f = find_trait_fn(&position, "FromStr", t, "from_str").ok_or(format!("FromStr for {t} not found"))?;
        let rows = str_table(f, t)?;
        emit_str_table(&mut out, &format!("{t}.fromStrTable"), t, &rows, true);
    }
    // edge table of LocSpec::from_str (second string match in the same fn)
    {
        let f = find_trait_fn(&position, "FromStr", "LocSpec", "from_str").unwrap();
        struct V<'a>(Vec<&'a ExprMatch>);
        impl<'ast> syn::visit::Visit<'ast> for V<'ast> {
            fn visit_expr_match(&mut self, m: &'ast ExprMatch) {
                self.0.push(m);
                syn::visit::visit_expr_match(self, m);
            }
        }
        let mut v = V(vec![]);
        syn::visit::Visit::visit_block(&mut v, &f.block);
        let edge = v
            .0
            .iter()
            .find(|m| matches!(&*m.expr, Expr::Path(p) if p.path.is_ident("edge")))
            .ok_or("LocSpec::from_str: edge table not found")?;
        writeln!(out, "def LocSpec.edgeTable : List (List Char × (Length → LocSpec)) := [").unwrap();
        let mut first = true;
        for arm in &edge.arms {
            if let Pat::Lit(l) = &arm.pat {
                if let Lit::Str(s) = &l.lit {
                    // Ok(Self::TopEdge(len))
                    let txt = quote::quote!(#arm).to_string();
                    let variant = ["TopEdge", "RightEdge", "BottomEdge", "LeftEdge"]
                        .iter()
                        .find(|v| txt.contains(*v))
                        .ok_or("edge table: unknown variant")?;
                    writeln!(out, "  {}({}, LocSpec.{variant})", if first { "" } else { ", " }, char_list(&s.value())).unwrap();
                    first = false;
                }
            }
        }
        out.push_str("]\n\n");
    }
    // expression.rs tables
    let expression = parse_file(src, "expression.rs")?;
    for t in ["ComparisonOp", "LogicalOp"] {
        let f = find_trait_fn(&expression, "FromStr", t, "from_str").ok_or(format!("FromStr for {t} not found"))?;
        let rows = str_table(f, t)?;
        writeln!(out, "def {t}.names : List (List Char × List Char) := [").unwrap();
        let mut first = true;
        for (keys, v) in &rows {
            for k in keys {
                writeln!(out, "  {}({}, {})", if first { "" } else { ", " }, char_list(k), char_list(v)).unwrap();
                first = false;
            }
        }
        out.push_str("]\n\n");
    }
    let functions = parse_file(src, "functions.rs")?;
    {
        let f = find_trait_fn(&functions, "FromStr", "Function", "from_str").ok_or("FromStr for Function not found")?;
        let rows = str_table(f, "Function")?;
        writeln!(out, "def Function.names : List (List Char × List Char) := [").unwrap();
        let mut first = true;
        for (keys, v) in &rows {
            for k in keys {
                writeln!(out, "  {}({}, {})", if first { "" } else { ", " }, char_list(k), char_list(v)).unwrap();
                first = false;
            }
        }
        out.push_str("]\n\n");
    }
    // types.rs AttrMap::priority
    let types = parse_file(src, "types.rs")?;
    {
        let f = find_fn(&types, "AttrMap", "priority").ok_or("AttrMap::priority not found")?;
        let rows = str_table(f, "AttrMap::priority")?;
        emit_str_table(&mut out, "AttrMap.priorityTable", "Nat", &rows, false);
    }
    // connector.rs ConnectionType::from_str
    let connector = parse_file(src, "connector.rs")?;
    {
        let f = find_fn(&connector, "ConnectionType", "from_str").ok_or("ConnectionType::from_str not found")?;
        let rows = str_table(f, "ConnectionType")?;
        writeln!(out, "def ConnectionType.names : List (List Char × List Char) := [").unwrap();
        let mut first = true;
        for (keys, v) in &rows {
            for k in keys {
                writeln!(out, "  {}({}, {})", if first { "" } else { ", " }, char_list(k), char_list(v)).unwrap();
                first = false;
            }
        }
        out.push_str("]\n\n");
    }
    // themes.rs ThemeType::from_str
    let themes = parse_file(src, "themes.rs")?;
    {
        let f = find_trait_fn(&themes, "FromStr", "ThemeType", "from_str").ok_or("FromStr for ThemeType not found")?;
        let rows = str_table(f, "ThemeType")?;
        writeln!(out, "def ThemeType.names : List (List Char × List Char) := [").unwrap();
        let mut first = true;
        for (keys, v) in &rows {
            for k in keys {
                writeln!(out, "  {}({}, {})", if first { "" } else { ", " }, char_list(k), char_list(v)).unwrap();
                first = false;
            }
        }
        out.push_str("]\n\n");
    }
    // colours
    let colours = parse_file(src, "colours.rs")?;
    for n in ["COLOUR_LIST", "DARK_COLOURS"] {
        let list = static_str_list(&colours, n)?;
        writeln!(out, "def {n} : List (List Char) := [").unwrap();
        for (i, c) in list.iter().enumerate() {
            writeln!(out, "  {}{}", if i == 0 { "" } else { ", " }, char_list(c)).unwrap();
        }
        out.push_str("]\n\n");
    }
    // themes.rs: (class, X) tables per function, and every string literal per function
    for fname in [
        "append_common_styles",
        "append_text_styles",
        "append_stroke_width_styles",
        "append_colour_styles",
        "append_arrow_styles",
        "append_dash_styles",
        "pattern_defs",
        "append_pattern_styles",
        "d_softshadow",
        "d_hardshadow",
    ] {
        let f = find_free_fn(&themes, fname).ok_or(format!("themes.rs: fn {fname} not found"))?;
        let arrays = tuple_arrays(&f.block);
        for (ai, rows) in arrays.iter().enumerate() {
            // keep only the leading string-literal column and a rendering of the rest
            writeln!(out, "def Theme.{fname}_table{ai} : List (List Char × List Char) := [").unwrap();
            let mut first = true;
            for row in rows {
                let Some(k) = row.first().and_then(lit_str) else { continue };
                let rest: Vec<String> = row[1..]
                    .iter()
                    .map(|e| lit_str(e).unwrap_or_else(|| quote::quote!(#e).to_string()))
                    .collect();
                writeln!(out, "  {}({}, {})", if first { "" } else { ", " }, char_list(&k), char_list(&rest.join("\u{1f}"))).unwrap();
                first = false;
            }
            out.push_str("]\n\n");
        }
        let lits = all_str_literals(&f.block);
        writeln!(out, "def Theme.{fname}_strings : List (List Char) := [").unwrap();
        for (i, s) in lits.iter().enumerate() {
            writeln!(out, "  {}{}", if i == 0 { "" } else { ", " }, char_list(s)).unwrap();
        }
        out.push_str("]\n\n");
    }
    // Theme trait: default fill/stroke/background/stroke_width and per-theme overrides
    {
        writeln!(out, "def Theme.overrides : List (List Char × List Char × List Char) := [").unwrap();
        let mut first = true;
        for item in &themes.items {
            match item {
                Item::Trait(t) if t.ident == "Theme" => {
                    for ti in &t.items {
                        if let syn::TraitItem::Fn(f) = ti {
                            let n = f.sig.ident.to_string();
                            if n.starts_with("default_") {
                                if let Some(b) = &f.default {
                                    let v = body_const(b).ok_or(format!("Theme::{n}: not a constant"))?;
                                    writeln!(out, "  {}({}, {}, {})", if first { "" } else { ", " }, char_list("*"), char_list(&n), char_list(&v)).unwrap();
                                    first = false;
                                }
                            }
                        }
                    }
                }
                Item::Impl(i) => {
                    let tn = i.trait_.as_ref().and_then(|(_, p, _)| p.segments.last().map(|s| s.ident.to_string()));
                    if tn.as_deref() == Some("Theme") {
                        let who = self_ty_name(i).unwrap_or_default();
                        for ii in &i.items {
                            if let ImplItem::Fn(f) = ii {
                                let n = f.sig.ident.to_string();
                                if n.starts_with("default_") {
                                    let v = body_const(&f.block).ok_or(format!("{who}::{n}: not a constant"))?;
                                    writeln!(out, "  {}({}, {}, {})", if first { "" } else { ", " }, char_list(&who), char_list(&n), char_list(&v)).unwrap();
                                    first = false;
                                } else if n == "append_early_styles" || n == "append_late_styles" {
                                    for s in all_str_literals(&f.block) {
                                        writeln!(out, "  {}({}, {}, {})", if first { "" } else { ", " }, char_list(&who), char_list(&n), char_list(&s)).unwrap();
                                        first = false;
                                    }
                                }
                            }
                        }
                    }
                }
                _ => {}
            }
        }
        out.push_str("]\n\n");
    }
    // text.rs tables
    let text = parse_file(src, "text.rs")?;
    {
        let f = find_free_fn(&text, "process_text_attr").ok_or("text.rs: process_text_attr not found")?;
        for name in ["text_ignore_classes", "text_presentation_attrs"] {
            let mut found = None;
            for st in &f.block.stmts {
                if let Stmt::Local(l) = st {
                    if let Pat::Ident(pi) = &l.pat {
                        if pi.ident == name {
                            if let Some(init) = &l.init {
                                found = Some(str_array(&init.expr)?);
                            }
                        }
                    }
                }
            }
            let list = found.ok_or(format!("text.rs: {name} not found"))?;
            writeln!(out, "def Text.{name} : List (List Char) := [").unwrap();
            for (i, c) in list.iter().enumerate() {
                writeln!(out, "  {}{}", if i == 0 { "" } else { ", " }, char_list(c)).unwrap();
            }
            out.push_str("]\n\n");
        }
    }
    // lib.rs TransformConfig::default() and cli.rs clap defaults
    let librs = parse_file(src, "lib.rs")?;
    {
        let f = find_trait_fn(&librs, "Default", "TransformConfig", "default").ok_or("Default for TransformConfig not found")?;
        let mut rows = vec![];
        struct V<'a>(Option<&'a syn::ExprStruct>);
        impl<'ast> syn::visit::Visit<'ast> for V<'ast> {
            fn visit_expr_struct(&mut self, s: &'ast syn::ExprStruct) {
                if self.0.is_none() {
                    self.0 = Some(s);
                }
            }
        }
        let mut v = V(None);
        syn::visit::Visit::visit_block(&mut v, &f.block);
        let s = v.0.ok_or("TransformConfig::default: struct literal not found")?;
        for fl in &s.fields {
            let syn::Member::Named(n) = &fl.member else { continue };
            let e = &fl.expr;
            let val = const_text(e).unwrap_or_else(|| quote::quote!(#e).to_string().replace(' ', ""));
            rows.push((n.to_string(), val));
        }
        writeln!(out, "def TransformConfig.defaults : List (List Char × List Char) := [").unwrap();
        for (i, (k, v)) in rows.iter().enumerate() {
            writeln!(out, "  {}({}, {})", if i == 0 { "" } else { ", " }, char_list(k), char_list(v)).unwrap();
        }
        out.push_str("]\n\n");
    }
    {
        let cli = parse_file(src, "cli.rs")?;
        let mut rows: Vec<(String, String)> = vec![];
        for item in &cli.items {
            if let Item::Struct(s) = item {
                if s.ident == "Arguments" {
                    for f in &s.fields {
                        let name = f.ident.as_ref().unwrap().to_string();
                        let mut dv: Option<String> = None;
                        for a in &f.attrs {
                            if a.path().is_ident("arg") {
                                let _ = a.parse_nested_meta(|meta| {
                                    if meta.path.is_ident("default_value") {
                                        let v: syn::LitStr = meta.value()?.parse()?;
                                        dv = Some(v.value());
                                    } else if meta.input.peek(syn::Token![=]) {
                                        let _: Expr = meta.value()?.parse()?;
                                    }
                                    Ok(())
                                });
                            }
                        }
                        let tystr = { let t = &f.ty; quote::quote!(#t).to_string().replace(' ', "") };
                        let val = dv.unwrap_or_else(|| if tystr == "bool" { "false".into() } else { "None".into() });
                        rows.push((name, val));
                    }
                }
            }
        }
        if rows.is_empty() {
            return Err("cli.rs: struct Arguments not found".into());
        }
        writeln!(out, "def Cli.argDefaults : List (List Char × List Char) := [").unwrap();
        for (i, (k, v)) in rows.iter().enumerate() {
            writeln!(out, "  {}({}, {})", if i == 0 { "" } else { ", " }, char_list(k), char_list(v)).unwrap();
        }
        out.push_str("]\n\n");
        // Config::from_args field mapping: `field: args.x` / `field: !args.x`
        let f = find_fn(&cli, "Config", "from_args").ok_or("cli.rs: Config::from_args not found")?;
        struct V2(Vec<(String, String)>);
        impl<'ast> syn::visit::Visit<'ast> for V2 {
            fn visit_expr_struct(&mut self, s: &'ast syn::ExprStruct) {
                if s.path.segments.last().is_some_and(|x| x.ident == "TransformConfig") {
                    for fl in &s.fields {
                        if let syn::Member::Named(n) = &fl.member {
                            let e = &fl.expr;
                            self.0.push((n.to_string(), quote::quote!(#e).to_string().replace(' ', "")));
                        }
                    }
                }
                syn::visit::visit_expr_struct(self, s);
            }
        }
        let mut v2 = V2(vec![]);
        syn::visit::Visit::visit_block(&mut v2, &f.block);
        if v2.0.is_empty() {
            return Err("cli.rs: TransformConfig literal in from_args not found".into());
        }
        writeln!(out, "def Cli.argMapping : List (List Char × List Char) := [").unwrap();
        for (i, (k, v)) in v2.0.iter().enumerate() {
            writeln!(out, "  {}({}, {})", if i == 0 { "" } else { ", " }, char_list(k), char_list(v)).unwrap();
        }
        out.push_str("]\n\n");
    }
    // transform.rs ConfigElement keys
    {
        let transform = parse_file(src, "transform.rs")?;
        let f = find_trait_fn(&transform, "EventGen", "ConfigElement", "generate_events").ok_or("ConfigElement::generate_events not found")?;
        struct V<'a>(Option<&'a ExprMatch>);
        impl<'ast> syn::visit::Visit<'ast> for V<'ast> {
            fn visit_expr_match(&mut self, m: &'ast ExprMatch) {
                if self.0.is_none() {
                    self.0 = Some(m);
                }
            }
        }
        let mut v = V(None);
        syn::visit::Visit::visit_block(&mut v, &f.block);
        let m = v.0.ok_or("ConfigElement: key table not found")?;
        writeln!(out, "def ConfigElement.keys : List (List Char × List Char) := [").unwrap();
        let mut first = true;
        for arm in &m.arms {
            if let Pat::Lit(l) = &arm.pat {
                if let Lit::Str(s) = &l.lit {
                    let body = &arm.body;
                    let txt = quote::quote!(#body).to_string();
                    // new_config . FIELD = ... | new_config . FIELD . clone_from (..)
                    let field = txt
                        .split("new_config .")
                        .nth(1)
                        .and_then(|r| r.split_whitespace().next())
                        .unwrap_or("?")
                        .to_string();
                    writeln!(out, "  {}({}, {})", if first { "" } else { ", " }, char_list(&s.value()), char_list(&field)).unwrap();
                    first = false;
                }
            }
        }
        out.push_str("]\n\n");
    }
    // constants.rs
    {
        let constants = parse_file(src, "constants.rs")?;
        writeln!(out, "def Constants.all : List (List Char × List Char) := [").unwrap();
        let mut first = true;
        for item in &constants.items {
            if let Item::Const(c) = item {
                let v = match &*c.expr {
                    Expr::Lit(l) => match &l.lit {
                        Lit::Char(ch) => ch.value().to_string(),
                        Lit::Str(s) => s.value(),
                        _ => continue,
                    },
                    _ => continue,
                };
                writeln!(out, "  {}({}, {})", if first { "" } else { ", " }, char_list(&c.ident.to_string()), char_list(&v)).unwrap();
                first = false;
            }
        }
        out.push_str("]\n\n");
    }
    // element.rs: remove_attrs lists in set_position_attrs (position.rs) and xy-loc table
    {
        let f = find_fn(&position, "Position", "set_position_attrs").ok_or("Position::set_position_attrs not found")?;
        // arms of `match element.name.as_str()`
        struct V<'a>(Option<&'a ExprMatch>);
        impl<'ast> syn::visit::Visit<'ast> for V<'ast> {
            fn visit_expr_match(&mut self, m: &'ast ExprMatch) {
                if self.0.is_none() {
                    self.0 = Some(m);
                }
            }
        }
        let mut v = V(None);
        syn::visit::Visit::visit_block(&mut v, &f.block);
        let m = v.0.ok_or("set_position_attrs: match not found")?;
        writeln!(out, "def Position.removeAttrs : List (List Char × List (List Char)) := [").unwrap();
        let mut first = true;
        for arm in &m.arms {
            let mut keys = vec![];
            fn collect(p: &Pat, keys: &mut Vec<String>) {
                match p {
                    Pat::Lit(l) => {
                        if let Lit::Str(s) = &l.lit {
                            keys.push(s.value());
                        }
                    }
                    Pat::Or(o) => o.cases.iter().for_each(|c| collect(c, keys)),
                    _ => {}
                }
            }
            collect(&arm.pat, &mut keys);
            // find remove_attrs(&[...]) call
            struct R2(Option<Vec<String>>);
            impl<'ast> syn::visit::Visit<'ast> for R2 {
                fn visit_expr_method_call(&mut self, mc: &'ast syn::ExprMethodCall) {
                    if mc.method == "remove_attrs" {
                        if let Some(a) = mc.args.first() {
                            if let Ok(l) = str_array(a) {
                                self.0 = Some(l);
                            }
                        }
                    }
                    syn::visit::visit_expr_method_call(self, mc);
                }
            }
            let mut r2 = R2(None);
            syn::visit::Visit::visit_expr(&mut r2, &arm.body);
            if let Some(list) = r2.0 {
                for k in keys {
                    let items: Vec<String> = list.iter().map(|s| char_list(s)).collect();
                    writeln!(out, "  {}({}, [{}])", if first { "" } else { ", " }, char_list(&k), items.join(", ")).unwrap();
                    first = false;
                }
            }
        }
        out.push_str("]\n\n");
        let element = parse_file(src, "element.rs")?;
        let f = find_fn(&element, "SvgElement", "expand_compound_pos").ok_or("expand_compound_pos not found")?;
        let mut v = V(None);
        syn::visit::Visit::visit_block(&mut v, &f.block);
        let m = v.0.ok_or("expand_compound_pos: xy-loc table not found")?;
        writeln!(out, "def Element.xyLocTable : List (List Char × List Char × List Char) := [").unwrap();
        let mut first = true;
        for arm in &m.arms {
            // Some("t") => ("cx", "y1")
            let pat = &arm.pat;
            let key = match pat {
                Pat::TupleStruct(ts) => ts.elems.first().and_then(|p| if let Pat::Lit(l) = p { if let Lit::Str(s) = &l.lit { Some(s.value()) } else { None } } else { None }),
                _ => None,
            };
            if let (Some(k), Expr::Tuple(t)) = (key, &*arm.body) {
                if let (Some(a), Some(b)) = (t.elems.first().and_then(lit_str), t.elems.last().and_then(lit_str)) {
                    writeln!(out, "  {}({}, {}, {})", if first { "" } else { ", " }, char_list(&k), char_list(&a), char_list(&b)).unwrap();
                    first = false;
                }
            }
        }
        out.push_str("]\n\n");
        let f = find_fn(&element, "SvgElement", "is_graphics_element").ok_or("is_graphics_element not found")?;
        let lits = all_str_literals(&f.block);
        writeln!(out, "def Element.graphicsElements : List (List Char) := [{}]\n", lits.iter().map(|s| char_list(s)).collect::<Vec<_>>().join(", ")).unwrap();
    }
    // ---- C20 additions (append-only): the control skeleton of `Theme::build` and the numeric
    // literals of the pattern functions, so that the hand-written order in Svgdx/Theme/Build.lean
    // is re-checked against the source on every run.
    {
        // default body of `trait Theme { fn build }`
        let mut build_block: Option<&Block> = None;
        for item in &themes.items {
            if let Item::Trait(t) = item {
                if t.ident == "Theme" {
                    for ti in &t.items {
                        if let syn::TraitItem::Fn(f) = ti {
                            if f.sig.ident == "build" {
                                build_block = f.default.as_ref();
                            }
                        }
                    }
                }
            }
        }
        let build_block = build_block.ok_or("themes.rs: trait Theme has no default fn build")?;
        // every call / method call / path mentioned whose name starts with `append_` or `d_`, in source order
        struct Calls(Vec<String>);
        impl<'ast> syn::visit::Visit<'ast> for Calls {
            fn visit_expr_method_call(&mut self, m: &'ast syn::ExprMethodCall) {
                syn::visit::visit_expr(self, &m.receiver);
                let n = m.method.to_string();
                if n.starts_with("append_") {
                    self.0.push(n);
                }
                for a in &m.args {
                    syn::visit::visit_expr(self, a);
                }
            }
            fn visit_expr_path(&mut self, p: &'ast syn::ExprPath) {
                if let Some(last) = p.path.segments.last() {
                    let n = last.ident.to_string();
                    if n.starts_with("append_") || n.starts_with("d_") {
                        self.0.push(n);
                    }
                }
            }
        }
        let mut calls = Calls(vec![]);
        syn::visit::Visit::visit_block(&mut calls, build_block);
        writeln!(out, "def Theme.build_order : List (List Char) := [").unwrap();
        for (i, c) in calls.0.iter().enumerate() {
            writeln!(out, "  {}{}", if i == 0 { "" } else { ", " }, char_list(c)).unwrap();
        }
        out.push_str("]\n\n");
        // (class, builder fn) arrays of `build` (the shadow table)
        let arrays = tuple_arrays(build_block);
        writeln!(out, "def Theme.build_table : List (List Char × List Char) := [").unwrap();
        let mut first = true;
        for rows in &arrays {
            for row in rows {
                let Some(k) = row.first().and_then(lit_str) else { continue };
                // second column: the first path identifier mentioned (`&d_softshadow as &Tfn` -> d_softshadow)
                let mut c2 = Calls(vec![]);
                for e in &row[1..] {
                    syn::visit::Visit::visit_expr(&mut c2, e);
                }
                let v = c2.0.first().cloned().unwrap_or_default();
                writeln!(out, "  {}({}, {})", if first { "" } else { ", " }, char_list(&k), char_list(&v)).unwrap();
                first = false;
            }
        }
        out.push_str("]\n\n");
        let lits = all_str_literals(build_block);
        writeln!(out, "def Theme.build_strings : List (List Char) := [").unwrap();
        for (i, s) in lits.iter().enumerate() {
            writeln!(out, "  {}{}", if i == 0 { "" } else { ", " }, char_list(s)).unwrap();
        }
        out.push_str("]\n\n");
        // numeric literals (digits only, sign dropped) of the two pattern functions, in source order
        struct Nums(Vec<String>);
        impl<'ast> syn::visit::Visit<'ast> for Nums {
            fn visit_lit(&mut self, l: &'ast Lit) {
                match l {
                    Lit::Int(i) => self.0.push(i.base10_digits().to_string()),
                    Lit::Float(f) => self.0.push(f.base10_digits().to_string()),
                    _ => {}
                }
            }
            fn visit_macro(&mut self, _m: &'ast syn::Macro) {}
        }
        for fname in ["pattern_defs", "append_pattern_styles"] {
            let f = find_free_fn(&themes, fname).ok_or(format!("themes.rs: fn {fname} not found"))?;
            let mut n = Nums(vec![]);
            syn::visit::Visit::visit_block(&mut n, &f.block);
            writeln!(out, "def Theme.{fname}_numbers : List (List Char) := [{}]\n", n.0.iter().map(|s| char_list(s)).collect::<Vec<_>>().join(", ")).unwrap();
        }
        // which rows of the pattern table draw horizontal / vertical lines / a circle: the `if let` patterns of
        // pattern_defs, as (variant list, first string literal of the branch)
        {
            let f = find_free_fn(&themes, "pattern_defs").ok_or("themes.rs: fn pattern_defs not found")?;
            writeln!(out, "def Theme.pattern_defs_branches : List (List (List Char) × List Char) := [").unwrap();
            let mut first = true;
            for st in &f.block.stmts {
                if let Stmt::Expr(Expr::If(i), _) = st {
                    if let Expr::Let(l) = &*i.cond {
                        // only `if let PatternType::A | PatternType::B = direction`
                        let mut vars = vec![];
                        fn collect(p: &Pat, out: &mut Vec<String>) {
                            match p {
                                Pat::Or(o) => o.cases.iter().for_each(|c| collect(c, out)),
                                Pat::Path(pp) => {
                                    if let Some(s) = pp.path.segments.last() {
                                        out.push(s.ident.to_string());
                                    }
                                }
                                Pat::Ident(pi) => out.push(pi.ident.to_string()),
                                _ => {}
                            }
                        }
                        collect(&l.pat, &mut vars);
                        let is_direction = matches!(&*l.expr, Expr::Path(p) if p.path.is_ident("direction"));
                        if is_direction && !vars.is_empty() {
                            let lits = all_str_literals(&i.then_branch);
                            let tpl = lits.iter().find(|s| s.contains('<')).cloned().unwrap_or_default();
                            writeln!(out, "  {}([{}], {})", if first { "" } else { ", " },
                                vars.iter().map(|v| char_list(v)).collect::<Vec<_>>().join(", "), char_list(&tpl)).unwrap();
                            first = false;
                        }
                    }
                }
            }
            out.push_str("]\n\n");
        }
    }
    out.push_str("end Svgdx.Gen\n");
    Ok(out)
}

fn const_text(e: &Expr) -> Option<String> {
    match e {
        Expr::Lit(l) => Some(match &l.lit {
            Lit::Str(s) => s.value(),
            Lit::Float(f) => f.base10_digits().to_string(),
            Lit::Int(i) => i.base10_digits().to_string(),
            Lit::Bool(b) => b.value.to_string(),
            _ => return None,
        }),
        Expr::MethodCall(m) if m.method == "to_owned" || m.method == "to_string" => const_text(&m.receiver),
        Expr::Call(c) => {
            // String::from("x")
            if c.args.len() == 1 {
                const_text(&c.args[0])
            } else {
                None
            }
        }
        Expr::Path(p) if p.path.is_ident("None") => Some("None".into()),
        _ => None,
    }
}

fn body_const(b: &Block) -> Option<String> {
    if let [Stmt::Expr(e, None)] = b.stmts.as_slice() {
        const_text(e)
    } else {
        None
    }
}

fn write_if_changed(path: &Path, text: &str) -> std::io::Result<bool> {
    if let Ok(old) = fs::read_to_string(path) {
        if old == text {
            return Ok(false);
        }
    }
    fs::write(path, text)?;
    Ok(true)
}

fn main() {
    let args: Vec<String> = std::env::args().collect();
    if args.len() != 3 {
        eprintln!("usage: vtranslate <repo/src> <out dir>");
        std::process::exit(2);
    }
    let src = Path::new(&args[1]);
    let out = Path::new(&args[2]);
    fs::create_dir_all(out).expect("create out dir");
    let mut failed = false;
    for (name, gen) in [
        ("Geometry.lean", gen_geometry as fn(&Path) -> R<String>),
        ("Tables.lean", gen_tables as fn(&Path) -> R<String>),
        ("Audit.lean", audit::gen_audit as fn(&Path) -> R<String>),
        ("Connector.lean", connector::gen_connector as fn(&Path) -> R<String>),
        ("Text.lean", text::gen_text as fn(&Path) -> R<String>),
        ("BoxList.lean", boxlist::gen_boxlist as fn(&Path) -> R<String>),
    ] {
        match gen(src) {
            Ok(text) => match write_if_changed(&out.join(name), &text) {
                Ok(changed) => println!("vtranslate: {name} {}", if changed { "rewritten" } else { "unchanged" }),
                Err(e) => {
                    println!("TRANSLATE-ERROR {name}: {e}");
                    failed = true;
                }
            },
            Err(e) => {
                println!("TRANSLATE-ERROR {name}: {e}");
                failed = true;
            }
        }
    }
    if failed {
        std::process::exit(1);
    }
}
