//! Gen/Text.lean: the pure placement logic of text.rs, regenerated from the syn AST on every run.
//!
//!  * `anchor_adjust`: the `match text_anchor { ls if ls.is_top() => {..} .. }` statements of
//!    `get_text_position` (alignment classes pushed, text-offset applied to t_dx / t_dy), as a function of
//!    the mutable state before them and the locals they read; `<var>_init`: the `let mut` initialisers
//!  * the function-local constants of `process_text_attr` (`WRAP_*` closures, string constants)
//!  * `line_offset`: `let first_line_offset = match (outside, vertical, text_loc) {..}` followed by the
//!    value of `let line_offset = if idx == 0 {..} else {..}`
//!  * `tspan_offset_attr`: the attribute name that receives the line offset
//!
//! Parameter types are read off the defining `let`s (see `shape_type`); anything else is an error.

use super::connector::{state_tuple, MutVar};
use super::*;

pub(super) fn position_world(src: &Path) -> R<World> {
    let position = parse_file(src, "position.rs")?;
    let mut w = World::default();
    for (file, tname) in GEOMETRY_TYPES {
        if *file != "position.rs" {
            continue;
        }
        let mut found = false;
        for item in &position.items {
            match item {
                Item::Enum(e) if e.ident == tname => {
                    let mut vs = vec![];
                    for v in &e.variants {
                        let mut tys = vec![];
                        for fl in &v.fields {
                            tys.push(ty(&fl.ty, tname)?);
                        }
                        vs.push((v.ident.to_string(), tys));
                    }
                    w.enums.insert(tname.to_string(), vs);
                    found = true;
                }
                Item::Struct(s) if s.ident == tname => {
                    let mut fs_ = vec![];
                    for fl in &s.fields {
                        fs_.push((fl.ident.as_ref().ok_or("tuple struct")?.to_string(), ty(&fl.ty, tname)?));
                    }
                    w.structs.insert(tname.to_string(), fs_);
                    found = true;
                }
                _ => {}
            }
        }
        if !found {
            return Err(format!("type {tname} not found in position.rs"));
        }
    }
    for wanted in GEOMETRY {
        for f in wanted.fns {
            w.methods.entry(f.to_string()).or_default().insert(wanted.ty.to_string());
        }
    }
    Ok(w)
}

/// the type of a local, read off the shape of its initialiser
fn shape_type(e: &Expr, w: &World) -> Option<String> {
    match e {
        Expr::Try(t) => shape_type(&t.expr, w),
        Expr::Paren(p) => shape_type(&p.expr, w),
        Expr::Lit(l) => match &l.lit {
            Lit::Float(_) => Some("Rat".into()),
            Lit::Bool(_) => Some("Bool".into()),
            _ => None,
        },
        Expr::Macro(m) if m.mac.path.is_ident("vec") => {
            let elems = m.mac.parse_body_with(Punctuated::<Expr, syn::Token![,]>::parse_terminated).ok()?;
            let all_str = elems.iter().all(|x| match x {
                Expr::MethodCall(mc) => (mc.method == "to_owned" || mc.method == "to_string") && lit_str(&mc.receiver).is_some(),
                _ => false,
            });
            if all_str {
                Some("(List Str)".into())
            } else {
                None
            }
        }
        Expr::MethodCall(mc) => {
            let n = mc.method.to_string();
            match n.as_str() {
                "parse" => {
                    let tf = mc.turbofish.as_ref()?;
                    if let Some(syn::GenericArgument::Type(t)) = tf.args.first() {
                        let t = ty(t, "").ok()?;
                        if w.enums.contains_key(&t) || w.structs.contains_key(&t) {
                            return Some(t);
                        }
                    }
                    None
                }
                "has_class" | "pop_class" | "has_attr" => Some("Bool".into()),
                "len" => Some("Nat".into()),
                _ => None,
            }
        }
        Expr::Call(c) => match &*c.func {
            Expr::Path(p) if p.path.is_ident("strp") => Some("Rat".into()),
            _ => None,
        },
        Expr::If(i) => match i.then_branch.stmts.as_slice() {
            [Stmt::Expr(Expr::Lit(l), None)] if matches!(l.lit, Lit::Bool(_)) => Some("Bool".into()),
            _ => None,
        },
        Expr::Binary(b) if matches!(b.op, BinOp::Lt(_) | BinOp::Le(_) | BinOp::Gt(_) | BinOp::Ge(_) | BinOp::Eq(_) | BinOp::Ne(_)) => {
            Some("Bool".into())
        }
        _ => None,
    }
}

/// typed locals of a function, in declaration order
fn local_types(f: &syn::ItemFn, file: &syn::File, w: &World) -> Vec<(String, String)> {
    struct V<'a> {
        out: Vec<(String, String)>,
        file: &'a syn::File,
        w: &'a World,
    }
    impl<'a, 'ast> syn::visit::Visit<'ast> for V<'a> {
        fn visit_local(&mut self, l: &'ast syn::Local) {
            if let Some(init) = &l.init {
                match &l.pat {
                    Pat::Ident(pi) => {
                        if let Some(t) = shape_type(&init.expr, self.w) {
                            self.out.push((pi.ident.to_string(), t));
                        }
                    }
                    Pat::Type(pt) => {
                        if let (Pat::Ident(pi), Ok(t)) = (&*pt.pat, ty(&pt.ty, "")) {
                            self.out.push((pi.ident.to_string(), t));
                        }
                    }
                    Pat::Tuple(pt) => {
                        // `let (a, b, ..) = f(..)?` with `fn f(..) -> Result<(A, B, ..)>` in the same file
                        let mut e = &*init.expr;
                        if let Expr::Try(t) = e {
                            e = &*t.expr;
                        }
                        if let Expr::Call(c) = e {
                            if let Expr::Path(p) = &*c.func {
                                if let Some(id) = p.path.get_ident() {
                                    if let Some(callee) = find_free_fn(self.file, &id.to_string()) {
                                        if let ReturnType::Type(_, rt) = &callee.sig.output {
                                            let mut rt = &**rt;
                                            if let Type::Path(tp) = rt {
                                                if let Some(seg) = tp.path.segments.last() {
                                                    if seg.ident == "Result" {
                                                        if let syn::PathArguments::AngleBracketed(a) = &seg.arguments {
                                                            if let Some(syn::GenericArgument::Type(inner)) = a.args.first() {
                                                                rt = inner;
                                                            }
                                                        }
                                                    }
                                                }
                                            }
                                            if let Type::Tuple(tt) = rt {
                                                if tt.elems.len() == pt.elems.len() {
                                                    for (p, t) in pt.elems.iter().zip(tt.elems.iter()) {
                                                        if let (Pat::Ident(pi), Ok(t)) = (p, ty(t, "")) {
                                                            self.out.push((pi.ident.to_string(), t));
                                                        }
                                                    }
                                                }
                                            }
                                        }
                                    }
                                }
                            }
                        }
                    }
                    _ => {}
                }
            }
            syn::visit::visit_local(self, l);
        }
        fn visit_expr_for_loop(&mut self, fl: &'ast syn::ExprForLoop) {
            // `for (idx, x) in it.enumerate()`
            if let (Pat::Tuple(pt), Expr::MethodCall(mc)) = (&*fl.pat, &*fl.expr) {
                if mc.method == "enumerate" && pt.elems.len() == 2 {
                    if let Pat::Ident(pi) = &pt.elems[0] {
                        self.out.push((pi.ident.to_string(), "Nat".into()));
                    }
                }
            }
            syn::visit::visit_expr_for_loop(self, fl);
        }
    }
    let mut v = V { out: vec![], file, w };
    syn::visit::Visit::visit_block(&mut v, &f.block);
    v.out
}

/// identifiers read and identifiers bound inside a fragment
fn idents_of(stmts: &[Stmt]) -> (Vec<String>, BTreeSet<String>) {
    struct V {
        used: Vec<String>,
        bound: BTreeSet<String>,
    }
    impl<'ast> syn::visit::Visit<'ast> for V {
        fn visit_expr_path(&mut self, p: &'ast syn::ExprPath) {
            if let Some(i) = p.path.get_ident() {
                let n = i.to_string();
                if !self.used.contains(&n) {
                    self.used.push(n);
                }
            }
        }
        fn visit_pat_ident(&mut self, p: &'ast syn::PatIdent) {
            self.bound.insert(p.ident.to_string());
        }
    }
    let mut v = V { used: vec![], bound: BTreeSet::new() };
    for s in stmts {
        syn::visit::Visit::visit_stmt(&mut v, s);
    }
    (v.used, v.bound)
}

/// parameters of a fragment: the typed locals it reads (declaration order); everything else it reads must
/// be bound inside it, a constant, or `skip`ped (state variables)
fn fragment_params(
    what: &str,
    stmts: &[Stmt],
    locals: &[(String, String)],
    consts: &BTreeSet<String>,
    skip: &[String],
) -> R<Vec<(String, String)>> {
    let (used, bound) = idents_of(stmts);
    let mut params: Vec<(String, String)> = vec![];
    for (n, t) in locals {
        if used.contains(n) && !bound.contains(n) && !skip.contains(n) && !params.iter().any(|p| &p.0 == n) {
            params.push((n.clone(), t.clone()));
        }
    }
    for u in &used {
        let known = bound.contains(u) || consts.contains(u) || skip.contains(u) || params.iter().any(|p| &p.0 == u) || u == "None";
        if !known {
            return Err(format!("{what}: reads `{u}`, which has no translatable type"));
        }
    }
    Ok(params)
}

fn find_local<'a>(b: &'a Block, name: &str) -> Vec<&'a syn::Local> {
    struct V<'a> {
        name: String,
        out: Vec<&'a syn::Local>,
    }
    impl<'ast> syn::visit::Visit<'ast> for V<'ast> {
        fn visit_local(&mut self, l: &'ast syn::Local) {
            if matches!(&l.pat, Pat::Ident(pi) if pi.ident == self.name.as_str()) {
                self.out.push(l);
            }
            syn::visit::visit_local(self, l);
        }
    }
    let mut v = V { name: name.to_string(), out: vec![] };
    syn::visit::Visit::visit_block(&mut v, b);
    v.out
}

pub fn gen_text(src: &Path) -> R<String> {
    let w = position_world(src)?;
    let text = parse_file(src, "text.rs")?;
    let mut out = String::new();
    out.push_str("/- GENERATED by /verif/tools/vtranslate from /repo/src/text.rs — do not edit. -/\nimport Svgdx.Gen.Geometry\nset_option linter.unusedVariables false\nnamespace Svgdx.Gen.Text\nopen Svgdx\n\n");

    // ---------------------------------------------------------------- get_text_position
    {
        let f = find_free_fn(&text, "get_text_position").ok_or("text.rs: fn get_text_position not found")?;
        let locals = local_types(f, &text, &w);
        let stmts = &f.block.stmts;
        let is_anchor_match = |s: &Stmt| matches!(s, Stmt::Expr(Expr::Match(m), _) if matches!(&*m.expr, Expr::Path(p) if p.path.is_ident("text_anchor")));
        let first = stmts.iter().position(is_anchor_match).ok_or("get_text_position: no `match text_anchor` statement")?;
        let last = stmts.iter().rposition(is_anchor_match).unwrap();
        let frag = &stmts[first..=last];
        if !frag.iter().all(is_anchor_match) {
            return Err("get_text_position: other statements between the `match text_anchor` statements".into());
        }
        // mutable state: the top-level `let mut`s before the fragment that the fragment touches
        let (used, _) = idents_of(frag);
        let mut muts: Vec<MutVar> = vec![];
        let cx0 = Cx::new(&w, "", false);
        for st in &stmts[..first] {
            if let Stmt::Local(l) = st {
                if let (Pat::Ident(pi), Some(init)) = (&l.pat, &l.init) {
                    if pi.mutability.is_some() {
                        let n = pi.ident.to_string();
                        if !used.contains(&n) {
                            continue;
                        }
                        let t = shape_type(&init.expr, &w).ok_or(format!("get_text_position: cannot type `let mut {n}`"))?;
                        let v = cx0.expr(&init.expr).map_err(|e| format!("get_text_position: `let mut {n}`: {e}"))?;
                        writeln!(out, "/-- `let mut {n}` of `get_text_position` -/\ndef {n}_init : {t} := {v}\n").unwrap();
                        muts.push(MutVar { name: ident(&n), ty: t, ext: false });
                    }
                }
            }
        }
        if muts.is_empty() {
            return Err("get_text_position: the `match text_anchor` statements touch no mutable state".into());
        }
        let skip: Vec<String> = muts.iter().map(|m| m.name.clone()).collect();
        let params = fragment_params("get_text_position", frag, &locals, &BTreeSet::new(), &skip)?;
        let cx = Cx::new(&w, "", false);
        let body = cx.st_block(frag, &mut muts, false).map_err(|e| format!("get_text_position: {e}"))?;
        let mut ps: Vec<String> = muts.iter().map(|m| format!("({} : {})", m.name, m.ty)).collect();
        ps.extend(params.iter().map(|(n, t)| format!("({} : {})", ident(n), t)));
        let ret = format!("({})", muts.iter().map(|m| m.ty.clone()).collect::<Vec<_>>().join(" × "));
        writeln!(
            out,
            "/-- the `match text_anchor {{ .. }}` statements of `get_text_position`: the state {} after them -/\ndef anchor_adjust {} : {ret} :=\n{}\n",
            state_tuple(&muts),
            ps.join(" "),
            indent(&body, 2)
        )
        .unwrap();
    }

    // ---------------------------------------------------------------- process_text_attr
    {
        let f = find_free_fn(&text, "process_text_attr").ok_or("text.rs: fn process_text_attr not found")?;
        let locals = local_types(f, &text, &w);
        // function-local constants
        let mut consts = BTreeSet::new();
        let mut const_text = String::new();
        for st in &f.block.stmts {
            if let Stmt::Item(Item::Const(c)) = st {
                let n = c.ident.to_string();
                match (&*c.ty, &*c.expr) {
                    (Type::BareFn(bf), Expr::Closure(cl)) => {
                        if bf.inputs.len() != cl.inputs.len() {
                            return Err(format!("process_text_attr: const {n}: arity mismatch"));
                        }
                        let mut ps = vec![];
                        for (a, p) in bf.inputs.iter().zip(cl.inputs.iter()) {
                            let Pat::Ident(pi) = p else {
                                return Err(format!("process_text_attr: const {n}: unsupported closure parameter"));
                            };
                            ps.push(format!("({} : {})", ident(&pi.ident.to_string()), ty(&a.ty, "")?));
                        }
                        let ret = match &bf.output {
                            ReturnType::Type(_, t) => ty(t, "")?,
                            ReturnType::Default => return Err(format!("process_text_attr: const {n}: no return type")),
                        };
                        let mut cx = Cx::new(&w, "", false);
                        cx.consts = consts.clone();
                        let body = cx.expr(&cl.body).map_err(|e| format!("process_text_attr: const {n}: {e}"))?;
                        writeln!(const_text, "def {n} {} : {ret} :=\n  {body}\n", ps.join(" ")).unwrap();
                    }
                    (Type::Reference(r), e) if matches!(&*r.elem, Type::Path(p) if p.path.is_ident("str")) => {
                        let s = lit_str(e).ok_or(format!("process_text_attr: const {n}: not a string literal"))?;
                        writeln!(const_text, "def {n} : Str := {}\n", char_list(&s)).unwrap();
                    }
                    _ => return Err(format!("process_text_attr: unsupported const {n}")),
                }
                consts.insert(n);
            }
        }
        out.push_str(&const_text);
        // first_line_offset / line_offset
        let flo = find_local(&f.block, "first_line_offset");
        let lo = find_local(&f.block, "line_offset");
        let ([flo], [lo]) = (flo.as_slice(), lo.as_slice()) else {
            return Err("process_text_attr: expected exactly one `let first_line_offset` and one `let line_offset`".into());
        };
        let flo_init = flo.init.as_ref().ok_or("first_line_offset: no initialiser")?;
        let Expr::Match(m) = &*flo_init.expr else {
            return Err("first_line_offset: not a match".into());
        };
        let lo_init = lo.init.as_ref().ok_or("line_offset: no initialiser")?;
        let frag = vec![Stmt::Local((*flo).clone()), Stmt::Expr((*lo_init.expr).clone(), None)];
        let params = fragment_params("process_text_attr", &frag, &locals, &consts, &[])?;
        let mut cx = Cx::new(&w, "", false);
        cx.consts = consts.clone();
        // the match with guards
        let (s, cols) = cx.scrut(&m.expr).map_err(|e| format!("first_line_offset: {e}"))?;
        let bodies: R<Vec<String>> = m.arms.iter().map(|a| cx.expr(&a.body)).collect();
        let bodies = bodies.map_err(|e| format!("first_line_offset: {e}"))?;
        let mv = cx.guarded_match(&s, cols, &m.arms, &bodies).map_err(|e| format!("first_line_offset: {e}"))?;
        let tail = cx.expr(&lo_init.expr).map_err(|e| format!("line_offset: {e}"))?;
        writeln!(
            out,
            "/-- `let first_line_offset = match .. ;` and the value of `let line_offset = ..` in `process_text_attr` -/\ndef line_offset {} : Rat :=\n  let first_line_offset := {}\n{}\n",
            params.iter().map(|(n, t)| format!("({} : {})", ident(n), t)).collect::<Vec<_>>().join(" "),
            indent(&mv, 2).trim_start(),
            indent(&tail, 2)
        )
        .unwrap();
        // the attribute receiving the offset: first argument of `tspan.attrs.insert(..)`
        struct Ins<'a>(Vec<&'a syn::ExprMethodCall>);
        impl<'ast> syn::visit::Visit<'ast> for Ins<'ast> {
            fn visit_expr_method_call(&mut self, mc: &'ast syn::ExprMethodCall) {
                if mc.method == "insert" && mc.args.len() == 2 {
                    let r = &mc.receiver;
                    if quote::quote!(#r).to_string().replace(' ', "") == "tspan.attrs" {
                        self.0.push(mc);
                    }
                }
                syn::visit::visit_expr_method_call(self, mc);
            }
        }
        let mut ins = Ins(vec![]);
        syn::visit::Visit::visit_block(&mut ins, &f.block);
        let [mc] = ins.0.as_slice() else {
            return Err("process_text_attr: expected exactly one `tspan.attrs.insert(..)`".into());
        };
        let key = &mc.args[0];
        if !str_leaves(key) {
            return Err("process_text_attr: tspan attribute name is not a conditional over string literals".into());
        }
        let kfrag = vec![Stmt::Expr(key.clone(), None)];
        let kparams = fragment_params("process_text_attr (tspan attribute)", &kfrag, &locals, &consts, &[])?;
        let k = cx.expr(key).map_err(|e| format!("tspan attribute: {e}"))?;
        writeln!(
            out,
            "/-- the attribute of a `tspan` that receives `line_offset` (in em) -/\ndef tspan_offset_attr {} : Str :=\n{}\n",
            kparams.iter().map(|(n, t)| format!("({} : {})", ident(n), t)).collect::<Vec<_>>().join(" "),
            indent(&k, 2)
        )
        .unwrap();
    }
    out.push_str("end Svgdx.Gen.Text\n");
    Ok(out)
}
