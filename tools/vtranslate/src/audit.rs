//! Source audits regenerated on every run (Gen/Audit.lean): tables of the places in the non-test source
//! where a property could be lost without any modelled function changing —
//!   * panic sites: `unwrap` / `expect` / `panic!` / `unreachable!` / `todo!` / `unimplemented!` /
//!     `assert*!` / index expressions, per (file, function);
//!   * nondeterminism and shared-state sites: hash containers, clocks, OS randomness, environment,
//!     statics, thread-locals, locks, per (file, function);
//!   * recursion: functions that (syntactically) call themselves or a same-file function that calls back.
//! The Lean side proves that each table equals a reviewed list (Props/C01, C06, C07): a new entry breaks
//! that theorem and has to be looked at.

use std::collections::{BTreeMap, BTreeSet};
use std::fmt::Write as _;
use std::fs;
use std::path::Path;
use syn::visit::Visit;

type R<T> = Result<T, String>;

#[derive(Default)]
struct Tally {
    /// (file, function, kind) -> count
    panics: BTreeMap<(String, String, String), usize>,
    nondet: BTreeMap<(String, String, String), usize>,
    /// (file, function) -> called idents
    calls: BTreeMap<(String, String), BTreeSet<String>>,
}

struct V<'a> {
    file: String,
    func: Vec<String>,
    /// name of the type whose impl block we are in
    ty: Vec<String>,
    t: &'a mut Tally,
}

impl<'a> V<'a> {
    fn cur(&self) -> String {
        self.func.last().cloned().unwrap_or_else(|| "(item)".into())
    }
    fn panic(&mut self, kind: &str) {
        *self.t.panics.entry((self.file.clone(), self.cur(), kind.into())).or_insert(0) += 1;
    }
    fn nondet(&mut self, kind: &str) {
        *self.t.nondet.entry((self.file.clone(), self.cur(), kind.into())).or_insert(0) += 1;
    }
}

fn is_test_attr(attrs: &[syn::Attribute]) -> bool {
    attrs.iter().any(|a| {
        let p = a.path();
        if p.is_ident("test") {
            return true;
        }
        if p.is_ident("cfg") {
            let s = quote::ToTokens::to_token_stream(a).to_string();
            return s.contains("test") || s.contains("verif-hooks") || s.contains("verif_hooks");
        }
        false
    })
}

const NONDET_IDENTS: &[&str] = &[
    "HashMap", "HashSet", "RandomState", "SystemTime", "Instant", "UNIX_EPOCH", "thread_rng", "OsRng",
    "getrandom", "thread_local", "lazy_static", "OnceCell", "OnceLock", "LazyLock", "Mutex", "RwLock",
    "AtomicUsize", "AtomicU64", "AtomicBool", "env",
];

impl<'a, 'ast> Visit<'ast> for V<'a> {
    fn visit_item_mod(&mut self, m: &'ast syn::ItemMod) {
        if is_test_attr(&m.attrs) {
            return;
        }
        syn::visit::visit_item_mod(self, m);
    }
    fn visit_item_fn(&mut self, f: &'ast syn::ItemFn) {
        if is_test_attr(&f.attrs) {
            return;
        }
        self.func.push(f.sig.ident.to_string());
        syn::visit::visit_item_fn(self, f);
        self.func.pop();
    }
    fn visit_item_impl(&mut self, i: &'ast syn::ItemImpl) {
        if is_test_attr(&i.attrs) {
            return;
        }
        let ty = match &*i.self_ty {
            syn::Type::Path(p) => p.path.segments.last().map(|s| s.ident.to_string()).unwrap_or_default(),
            _ => String::new(),
        };
        self.ty.push(ty);
        syn::visit::visit_item_impl(self, i);
        self.ty.pop();
    }
    fn visit_impl_item_fn(&mut self, f: &'ast syn::ImplItemFn) {
        if is_test_attr(&f.attrs) {
            return;
        }
        let q = match self.ty.last() {
            Some(t) if !t.is_empty() => format!("{t}::{}", f.sig.ident),
            _ => f.sig.ident.to_string(),
        };
        self.func.push(q);
        syn::visit::visit_impl_item_fn(self, f);
        self.func.pop();
    }
    fn visit_item_static(&mut self, s: &'ast syn::ItemStatic) {
        let kind = if matches!(s.mutability, syn::StaticMutability::Mut(_)) { "static mut" } else { "static" };
        self.func.push(format!("(static {})", s.ident));
        self.nondet(kind);
        syn::visit::visit_item_static(self, s);
        self.func.pop();
    }
    fn visit_expr_method_call(&mut self, m: &'ast syn::ExprMethodCall) {
        let name = m.method.to_string();
        match name.as_str() {
            "unwrap" | "expect" | "unwrap_unchecked" => self.panic(&name),
            _ => {}
        }
        let on_self = matches!(&*m.receiver, syn::Expr::Path(p) if p.path.is_ident("self"));
        let key = (self.file.clone(), self.cur());
        if on_self {
            if let Some(t) = self.ty.last().cloned() {
                self.t.calls.entry(key).or_default().insert(format!("{t}::{name}"));
            }
        } else {
            // resolved later, when the method name is unique in the crate
            self.t.calls.entry(key).or_default().insert(format!("?::{name}"));
        }
        syn::visit::visit_expr_method_call(self, m);
    }
    fn visit_expr_call(&mut self, c: &'ast syn::ExprCall) {
        if let syn::Expr::Path(p) = &*c.func {
            let segs: Vec<String> = p.path.segments.iter().map(|s| s.ident.to_string()).collect();
            let callee = match segs.as_slice() {
                [f] => Some(f.clone()),
                [t, f] if t == "Self" => self.ty.last().map(|ty| format!("{ty}::{f}")),
                [t, f] => Some(format!("{t}::{f}")),
                _ => None,
            };
            if let Some(c) = callee {
                let key = (self.file.clone(), self.cur());
                self.t.calls.entry(key).or_default().insert(c);
            }
        }
        syn::visit::visit_expr_call(self, c);
    }
    fn visit_expr_index(&mut self, i: &'ast syn::ExprIndex) {
        self.panic("index");
        syn::visit::visit_expr_index(self, i);
    }
    fn visit_macro(&mut self, m: &'ast syn::Macro) {
        if let Some(last) = m.path.segments.last() {
            let n = last.ident.to_string();
            match n.as_str() {
                "panic" | "unreachable" | "todo" | "unimplemented" | "assert" | "assert_eq" | "assert_ne" => self.panic(&format!("{n}!")),
                "thread_local" | "lazy_static" => self.nondet(&format!("{n}!")),
                _ => {}
            }
            // look inside the macro's tokens for method calls we care about (format!, vec! ... arguments)
            let s = m.tokens.to_string();
            for (pat, kind) in [(". unwrap ()", "unwrap"), (". expect (", "expect")] {
                let c = s.matches(pat).count();
                for _ in 0..c {
                    self.panic(kind);
                }
            }
        }
        syn::visit::visit_macro(self, m);
    }
    fn visit_path(&mut self, p: &'ast syn::Path) {
        for seg in &p.segments {
            let n = seg.ident.to_string();
            if NONDET_IDENTS.contains(&n.as_str()) {
                // `env` only as std::env
                if n == "env" && !p.segments.iter().any(|s| s.ident == "std") {
                    continue;
                }
                self.nondet(&n);
            }
        }
        syn::visit::visit_path(self, p);
    }
}

fn lean_str(s: &str) -> String {
    // the `cs!` macro of Svgdx.Base.Str expands a literal to an explicit character list
    format!("cs!\"{}\"", s.replace('\\', "\\\\").replace('"', "\\\""))
}

pub fn gen_audit(src: &Path) -> R<String> {
    let mut t = Tally::default();
    let mut files: Vec<_> = Vec::new();
    for dir in [src.to_path_buf(), src.join("bin")] {
        let rd = fs::read_dir(&dir).map_err(|e| format!("{}: {e}", dir.display()))?;
        for e in rd.filter_map(|e| e.ok()) {
            let p = e.path();
            if p.extension().map(|x| x == "rs").unwrap_or(false) {
                files.push(p);
            }
        }
    }
    files.sort();
    for p in &files {
        let rel = p.strip_prefix(src).unwrap_or(p).to_string_lossy().to_string();
        if rel == "verif_hooks.rs" {
            continue;
        }
        let text = fs::read_to_string(p).map_err(|e| format!("{rel}: {e}"))?;
        let file = syn::parse_file(&text).map_err(|e| format!("{rel}: {e}"))?;
        let mut v = V { file: rel, func: vec![], ty: vec![], t: &mut t };
        v.visit_file(&file);
    }
    // direct and mutual recursion (syntactic): a call graph over the whole crate; `Type::f` and bare `f`
    // resolve to the function of that name, `x.f()` on a receiver other than `self` resolves when the
    // method name is unique in the crate. Trait-object dispatch (`generate_events`) is not visible here.
    let mut rec: BTreeSet<(String, String)> = BTreeSet::new();
    let mut file_of: BTreeMap<String, String> = BTreeMap::new();
    let mut graph: BTreeMap<String, BTreeSet<String>> = BTreeMap::new();
    for ((f, func), calls) in &t.calls {
        file_of.insert(func.clone(), f.clone());
        graph.entry(func.clone()).or_default().extend(calls.iter().cloned());
    }
    let mut by_method: BTreeMap<String, Vec<String>> = BTreeMap::new();
    for q in graph.keys() {
        let m = q.rsplit("::").next().unwrap_or(q).to_string();
        by_method.entry(m).or_default().push(q.clone());
    }
    let resolve = |c: &str| -> Option<String> {
        if let Some(m) = c.strip_prefix("?::") {
            match by_method.get(m) {
                Some(v) if v.len() == 1 => Some(v[0].clone()),
                _ => None,
            }
        } else if graph.contains_key(c) {
            Some(c.to_string())
        } else {
            None
        }
    };
    for start in graph.keys() {
        let mut seen: BTreeSet<String> = BTreeSet::new();
        let mut stack: Vec<String> = graph[start].iter().filter_map(|c| resolve(c)).collect();
        let mut found = false;
        while let Some(c) = stack.pop() {
            if &c == start {
                found = true;
                break;
            }
            if !seen.insert(c.clone()) {
                continue;
            }
            if let Some(cs) = graph.get(&c) {
                stack.extend(cs.iter().filter_map(|n| resolve(n)));
            }
        }
        if found {
            rec.insert((file_of.get(start).cloned().unwrap_or_default(), start.clone()));
        }
    }
    let mut out = String::new();
    writeln!(out, "/-\n  GENERATED by tools/vtranslate (audit.rs) from /repo/src — do not edit.\n  Source audits: panic sites, nondeterminism / shared-state sites, recursive functions (non-test code,\n  verif hooks excluded).\n-/\nimport Svgdx.Base.Str\nnamespace Svgdx.Gen.Audit\nopen Svgdx\n").ok();
    writeln!(out, "/-- (file, function, kind, occurrences) -/\ndef panicSites : List (Str × Str × Str × Nat) := [").ok();
    let n = t.panics.len();
    for (i, ((f, func, kind), c)) in t.panics.iter().enumerate() {
        writeln!(out, "  ({}, {}, {}, {}){}", lean_str(f), lean_str(func), lean_str(kind), c, if i + 1 < n { "," } else { "" }).ok();
    }
    writeln!(out, "]\n").ok();
    writeln!(out, "/-- (file, function, kind, occurrences) -/\ndef nondetSites : List (Str × Str × Str × Nat) := [").ok();
    let n = t.nondet.len();
    for (i, ((f, func, kind), c)) in t.nondet.iter().enumerate() {
        writeln!(out, "  ({}, {}, {}, {}){}", lean_str(f), lean_str(func), lean_str(kind), c, if i + 1 < n { "," } else { "" }).ok();
    }
    writeln!(out, "]\n").ok();
    writeln!(out, "/-- (file, function) of functions that can call themselves, directly or through functions of the same file -/\ndef recursiveFns : List (Str × Str) := [").ok();
    let n = rec.len();
    for (i, (f, func)) in rec.iter().enumerate() {
        writeln!(out, "  ({}, {}){}", lean_str(f), lean_str(func), if i + 1 < n { "," } else { "" }).ok();
    }
    writeln!(out, "]\n\nend Svgdx.Gen.Audit").ok();
    Ok(out)
}
