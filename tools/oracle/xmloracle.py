#!/usr/bin/env python3
"""
Independent XML oracle (expat) for the harness: a long-lived child process.

Protocol (binary, on stdin/stdout): request = 4-byte big-endian length + bytes of a document;
response = 4-byte big-endian length + UTF-8 JSON:
  {"ok": true, "root": name, "infoset": [...]}  |  {"ok": false, "error": "..."}
The infoset is a list of items in document order:
  ["start", name, [[attr, value] sorted by attr]]   (duplicate attributes are a parse error in expat)
  ["end", name] ["text", coalesced character data] ["comment", data] ["pi", target, data]
  ["cdata-start"] ["cdata-end"] ["doctype", name]
Character data is the UNESCAPED text; CDATA content is reported as text between cdata-start/-end markers.
"""
import json
import struct
import sys
import xml.parsers.expat


def infoset(data: bytes):
    items = []
    text = []

    def flush():
        if text:
            items.append(["text", "".join(text)])
            text.clear()

    p = xml.parsers.expat.ParserCreate()
    p.ordered_attributes = True
    p.buffer_text = False

    def start(name, attrs):
        flush()
        pairs = [[attrs[i], attrs[i + 1]] for i in range(0, len(attrs), 2)]
        items.append(["start", name, sorted(pairs)])

    def end(name):
        flush()
        items.append(["end", name])

    def chars(d):
        text.append(d)

    def comment(d):
        flush()
        items.append(["comment", d])

    def pi(t, d):
        flush()
        items.append(["pi", t, d])

    def cds():
        flush()
        items.append(["cdata-start"])

    def cde():
        flush()
        items.append(["cdata-end"])

    def doctype(name, sysid, pubid, has_internal):
        flush()
        items.append(["doctype", name])

    p.StartElementHandler = start
    p.EndElementHandler = end
    p.CharacterDataHandler = chars
    p.CommentHandler = comment
    p.ProcessingInstructionHandler = pi
    p.StartCdataSectionHandler = cds
    p.EndCdataSectionHandler = cde
    p.StartDoctypeDeclHandler = doctype
    # undefined entities without a DTD are an error in expat: that is what well-formedness says
    p.Parse(data, True)
    flush()
    root = next((it[1] for it in items if it[0] == "start"), None)
    return {"ok": True, "root": root, "infoset": items}


def main():
    inp = sys.stdin.buffer
    out = sys.stdout.buffer
    while True:
        hdr = inp.read(4)
        if len(hdr) < 4:
            return
        (n,) = struct.unpack(">I", hdr)
        data = inp.read(n)
        try:
            data.decode("utf-8")
            res = infoset(data)
        except UnicodeDecodeError as e:
            res = {"ok": False, "error": f"not UTF-8: {e}"}
        except xml.parsers.expat.ExpatError as e:
            res = {"ok": False, "error": f"expat: {e}"}
        except Exception as e:  # noqa
            res = {"ok": False, "error": f"{type(e).__name__}: {e}"}
        payload = json.dumps(res, ensure_ascii=False).encode("utf-8")
        out.write(struct.pack(">I", len(payload)))
        out.write(payload)
        out.flush()


if __name__ == "__main__":
    main()
