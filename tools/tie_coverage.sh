#!/bin/bash
# How much of /repo/src do the correspondence / oracle streams actually execute?
# Builds the harness with source-based coverage instrumentation (nightly toolchain, offline), runs the
# quick tier of every property's harness part, and writes a per-file summary plus the uncovered line
# ranges to /verif/coverage/. This measures the REACH OF THE TIE between model and code (DESIGN.md 12.8);
# it is documentation, not evidence, and is not part of any registered check.
set -e
cd "$(dirname "$0")/.."
NIGHTLY_BIN=$(ls -d ~/.rustup/toolchains/nightly-x86_64-unknown-linux-gnu/lib/rustlib/x86_64-unknown-linux-gnu/bin)
COV=/verif/.build/cov
rm -rf "$COV"; mkdir -p "$COV" coverage
export CARGO_NET_OFFLINE=true
(cd tools/vharness && LLVM_PROFILE_FILE="$COV/build-%p-%m.profraw" RUSTFLAGS="-C instrument-coverage" \
   CARGO_TARGET_DIR=/verif/.build/cov-target cargo +nightly build --offline 2>&1 | tail -1)
rm -f "$COV"/build-*.profraw
for i in $(seq -w 1 20); do
  LLVM_PROFILE_FILE="$COV/C$i-%p-%m.profraw" /verif/.build/cov-target/debug/vharness "C$i" --tier quick --seed "${VERIF_SEED:-1}" \
     --out "$COV/C$i.json" >/dev/null 2>&1 || true
done
"$NIGHTLY_BIN/llvm-profdata" merge -sparse "$COV"/*.profraw -o "$COV/all.profdata"
"$NIGHTLY_BIN/llvm-cov" report /verif/.build/cov-target/debug/vharness -instr-profile="$COV/all.profdata" \
   --ignore-filename-regex='(registry|rustc|vharness|rustup)' 2>/dev/null | sed 's/  */ /g' > coverage/tie_coverage.txt
"$NIGHTLY_BIN/llvm-cov" export /verif/.build/cov-target/debug/vharness -instr-profile="$COV/all.profdata" -format=lcov \
   --ignore-filename-regex='(registry|rustc|vharness|rustup)' 2>/dev/null > "$COV/all.lcov"
python3 - "$COV/all.lcov" >> coverage/tie_coverage.txt <<'PY'
import sys, collections
unc = collections.defaultdict(list); cur = None
for l in open(sys.argv[1]):
    l = l.strip()
    if l.startswith('SF:'): cur = l[3:]
    elif l.startswith('DA:'):
        n, c = l[3:].split(',')[:2]
        if int(c) == 0: unc[cur].append(int(n))
def ranges(ns):
    out = []; s = p = None
    for n in ns:
        if s is None: s = p = n
        elif n == p + 1: p = n
        else: out.append((s, p)); s = p = n
    if s is not None: out.append((s, p))
    return out
print("\nlines of /repo/src never executed by any stream (quick tier):")
for f in sorted(unc):
    print(f, len(unc[f]), ' '.join('%d-%d' % x if x[0] != x[1] else str(x[0]) for x in ranges(unc[f])))
PY
rm -rf "$COV" /verif/.build/cov-target
tail -5 coverage/tie_coverage.txt | cut -c1-200
