//! C17 — limits reject exactly when exceeded; depth means nesting, not length.
use crate::ctl::*;
use crate::driver::Driver;
use crate::report::*;
use crate::rng::Rng;
use serde_json::json;

fn leaf(rng: &mut Rng, i: usize) -> X {
    match rng.below(4) {
        0 => X::leaf("rect", &[("xy", &format!("{} {}", i % 50, i / 50)), ("wh", "1")]),
        1 => X::leaf("circle", &[("cxy", &format!("{} 0", i % 50)), ("r", "1")]),
        2 => X::node("defs", &[], vec![]),
        _ => X::leaf("line", &[("xy1", "0 0"), ("xy2", &format!("{} 1", i % 50))]),
    }
}

/// wrap `inner` in one more nesting level of a random kind
fn wrap(rng: &mut Rng, inner: Vec<X>, allow_specs: bool) -> X {
    match rng.below(if allow_specs { 7 } else { 6 }) {
        0 => X::node("g", &[], inner),
        1 => X::node("g", &[("class", "c")], inner),
        2 => X::node("a", &[], inner),
        3 => X::node("loop", &[("count", "1")], inner),
        4 => X::node("if", &[("test", "1")], inner),
        5 => X::node("symbol", &[], inner),
        _ => X::node("specs", &[], inner),
    }
}

fn siblings(rng: &mut Rng, n: usize) -> Vec<X> {
    (0..n).map(|i| leaf(rng, i)).collect()
}

struct Case {
    what: &'static str,
    nodes: Vec<X>,
    lim: Limits,
    /// None = the oracle does not judge; Some(true) = must be accepted; Some(false) = must be rejected with `kind`
    expect_ok: Option<bool>,
    kind: &'static str,
    /// when accepted: number of <rect class="it"> the output must contain (never truncated)
    expect_items: Option<usize>,
    quantity: i64,
    limit: i64,
}

fn gen_depth(rng: &mut Rng) -> Case {
    let l = rng.range(2, 9) as u32;
    let d = (l as i64 + rng.range(-1, 1)).max(1) as usize;
    // chain of d nested levels, the innermost being a leaf; siblings at every level
    let k0 = 1 + rng.below(3);
    let mut cur: Vec<X> = siblings(rng, k0);
    let mut specs_used = false;
    for _ in 1..d {
        let allow = !specs_used && rng.chance(1, 6);
        let w = wrap(rng, cur, allow);
        if let X::El { name, .. } = &w {
            if name == "specs" {
                specs_used = true;
            }
        }
        let k1 = rng.below(3);
        let mut level = siblings(rng, k1);
        level.insert(rng.below(level.len() + 1), w);
        cur = level;
    }
    // long flat tail of siblings at the top: depth is not length
    let flat = if rng.chance(1, 3) { rng.range(50, 400) as usize } else { 0 };
    for i in 0..flat {
        let x = match i % 3 { 0 => X::node("g", &[], vec![leaf(rng, i)]), 1 => X::node("defs", &[], vec![]), _ => leaf(rng, i) };
        cur.push(x);
    }
    let nesting = cur.iter().map(|n| n.nesting()).max().unwrap_or(0);
    let lim = Limits { depth_limit: l, ..Default::default() };
    // other errors inside <specs> are ignored by design; a limit is a limit there too
    let judged = true;
    let _ = specs_used;
    Case { what: "depth", nodes: cur, lim, expect_ok: if judged { Some(nesting as u32 <= l) } else { None }, kind: "DepthLimitExceeded", expect_items: None, quantity: nesting as i64, limit: l as i64 }
}

/// a <config> that LOWERS the depth limit below the depth it stands at: what follows it at that depth (or
/// deeper) nests deeper than the limit now in force and must be rejected
fn gen_depth_lowered(rng: &mut Rng) -> Case {
    let d = rng.range(3, 8) as usize;
    let l = rng.range(1, d as i64 - 2) as u32;
    let mut cur: Vec<X> = vec![X::leaf("config", &[("depth-limit", &l.to_string())])];
    if rng.chance(1, 2) { cur.push(leaf(rng, 0)); } else { cur.push(X::node("g", &[], vec![leaf(rng, 0)])); }
    if rng.chance(1, 2) { cur.insert(0, leaf(rng, 1)); }
    for _ in 0..d {
        let k = rng.below(2);
        let mut level = siblings(rng, k);
        level.push(X::node("g", &[], cur));
        cur = level;
    }
    let nesting = cur.iter().map(|n| n.nesting()).max().unwrap_or(0);
    Case { what: "depth-lowered-inside", nodes: cur, lim: Limits::default(), expect_ok: Some(false), kind: "DepthLimitExceeded", expect_items: None, quantity: nesting as i64, limit: l as i64 }
}

fn gen_loop(rng: &mut Rng) -> Case {
    let l = rng.range(1, 14) as u32;
    let c = (l as i64 + rng.range(-1, 1)).max(0) as usize;
    let body = vec![X::leaf("rect", &[("wh", "1"), ("class", "it")])];
    let (node, via_config) = match if c == 0 { rng.below(2) } else { rng.below(3) } {
        0 => (X::node("loop", &[("count", &c.to_string())], body), false),
        1 => (X::node("loop", &[("count", &c.to_string()), ("loop-var", "i"), ("start", "2"), ("step", "3")], body), false),
        _ => {
            let data = (0..c).map(|i| i.to_string()).collect::<Vec<_>>().join(if rng.chance(1, 2) { ", " } else { "," });
            (X::node("for", &[("var", "v"), ("data", &data)], body), false)
        }
    };
    let _ = via_config;
    let mut nodes = vec![];
    let mut lim = Limits::default();
    if rng.chance(1, 2) {
        nodes.push(X::leaf("config", &[("loop-limit", &l.to_string())]));
    } else {
        lim.loop_limit = l;
    }
    // wrap the loop in 0-2 groups, and give it siblings; one in five inside a <specs> block (its content is
    // processed for its registrations but not rendered; the limit applies all the same)
    let mut cur = vec![node];
    for _ in 0..rng.below(3) {
        cur = vec![X::node("g", &[], cur)];
    }
    let in_specs = rng.chance(1, 5);
    if in_specs { cur = vec![X::node("specs", &[], cur)]; }
    nodes.extend(cur);
    nodes.push(X::leaf("rect", &[("wh", "2")]));
    Case { what: if in_specs { "loop-in-specs" } else { "loop" }, nodes, lim, expect_ok: Some(c as u32 <= l), kind: "LoopLimitError", expect_items: Some(if in_specs { 0 } else { c }), quantity: c as i64, limit: l as i64 }
}

fn gen_var(rng: &mut Rng) -> Case {
    let l = rng.range(1, 40) as u32;
    let len = (l as i64 + rng.range(-1, 1)).max(0) as usize;
    // value of exactly `len` bytes, possibly with 2-byte characters
    let mut s = String::new();
    while s.len() < len {
        if len - s.len() >= 2 && rng.chance(1, 4) { s.push('é'); } else { s.push(*rng.pick(&['a', 'b', ' ', 'x', '7'])); }
    }
    let mut nodes = vec![];
    let mut lim = Limits::default();
    if rng.chance(1, 2) {
        nodes.push(X::leaf("config", &[("var-limit", &l.to_string())]));
    } else {
        lim.var_limit = l;
    }
    if rng.chance(1, 2) && len >= 2 {
        // built by substitution from two shorter variables
        let cut = (1..len).find(|i| s.is_char_boundary(*i)).unwrap_or(0);
        if cut > 0 && s.is_char_boundary(cut) && (cut as u32) <= l && ((len - cut) as u32) <= l {
            nodes.push(X::leaf("var", &[("p", &s[..cut]), ("q", &s[cut..])]));
            nodes.push(X::leaf("var", &[("v", "$p${q}")]));
        } else {
            nodes.push(X::leaf("var", &[("v", &s)]));
        }
    } else {
        nodes.push(X::leaf("var", &[("v", &s)]));
    }
    // one in five: the assignments stand inside a <specs> block
    let in_specs = rng.chance(1, 5);
    if in_specs {
        let (vars, rest): (Vec<X>, Vec<X>) = nodes.into_iter().partition(|x| matches!(x, X::El { name, .. } if name == "var"));
        nodes = rest;
        nodes.push(X::node("specs", &[], vars));
    }
    nodes.push(X::leaf("rect", &[("wh", "1"), ("class", "it")]));
    // leading/trailing blanks are part of the value; XML attribute normalisation does not trim spaces
    Case { what: if in_specs { "var-in-specs" } else { "var" }, nodes, lim, expect_ok: Some(len as u32 <= l), kind: "VarLimitError", expect_items: Some(1), quantity: len as i64, limit: l as i64 }
}

fn stream(rep: &mut Report, drv: &mut Driver, rng: &mut Rng, n: usize) -> Result<(), String> {
    let mut corr = Stream::new(
        "doc/limits",
        "correspondence",
        "fragments built around one limit L (depth 2-9 / loop 1-14 / var-limit 1-40 bytes, set by configuration or <config>) with the quantity at L-1, L, L+1: nesting chains of g / a / loop / if / symbol / specs levels with siblings at every level and flat tails of 50-400 siblings; count loops and <for> lists; variable values incl. 2-byte characters and values built by substitution; one loop / assignment in five inside a <specs> block. Implementation (transform_probe: result kind, output elements, end-of-run depth / scope-stack / element-stack / in-specs) vs the Lean control-skeleton model; non-trivial = every case",
    );
    let mut orc = Stream::new(
        "oracle/limits-two-sided",
        "oracle",
        "same documents: accepted iff quantity <= limit, rejected with the matching limit error otherwise; when accepted every iteration is present (never truncated) and the depth counter is 0 at the end",
    );
    for i in 0..n {
        let case = match i % 3 { 0 if i % 15 == 0 => gen_depth_lowered(rng), 0 => gen_depth(rng), 1 => gen_loop(rng), _ => gen_var(rng) };
        let xml = doc_xml(&case.nodes);
        let imp = run_impl(&xml, case.lim);
        let mdl = run_model(drv, &case.nodes, case.lim)?;
        corr.case(&xml, true, || json!({"document": if xml.len() > 600 { format!("{}… ({} bytes)", &xml[..600], xml.len()) } else { xml.clone() }, "limits": format!("{:?}", case.lim), "impl": imp.status, "model": mdl.status}));
        corr.tally(&format!("kind={}", case.what));
        corr.tally(&format!("{}:q-L={}", case.what, case.quantity - case.limit));
        corr.tally(&format!("impl={}", imp.status.split(':').take(2).collect::<Vec<_>>().join(":")));
        if mdl.outside {
            corr.skipped += 1;
        } else {
            match agree(&imp, &mdl) {
                Ok(()) => corr.exact += 1,
                Err(what) => rep.violation(Violation { kind: "correspondence", stream: corr.name.clone(), signature: format!("limits:{}", case.what), what, replay: json!({"input": xml, "limits": format!("{:?}", case.lim)}), confirmed_on_impl: false }),
            }
        }
        // oracle
        orc.case(&xml, true, || json!({"document_bytes": xml.len(), "quantity": case.quantity, "limit": case.limit, "kind": case.what}));
        let mut fail: Option<String> = None;
        if imp.status.starts_with("panic") {
            fail = Some(format!("panic: {}", imp.status));
        } else if let Some(exp) = case.expect_ok {
            if exp && imp.status != "ok" {
                fail = Some(format!("{} {} within limit {} but rejected: {}", case.what, case.quantity, case.limit, imp.status));
            } else if !exp && imp.status != format!("err:{}", case.kind) {
                fail = Some(format!("{} {} exceeds limit {} but result is {} (expected {})", case.what, case.quantity, case.limit, imp.status, case.kind));
            } else if exp {
                if let Some(k) = case.expect_items {
                    let got = imp.events.iter().filter(|e| e.contains("class\u{1f}it")).count();
                    if got != k {
                        fail = Some(format!("accepted but output has {got} of {k} iterations (truncated)"));
                    }
                }
            }
        }
        if fail.is_none() && (imp.depth != 0 || imp.elem_stack != 0 || imp.in_specs) {
            fail = Some(format!("end-of-run state not restored: depth={} element-stack={} in-specs={}", imp.depth, imp.elem_stack, imp.in_specs));
        }
        match fail {
            Some(what) => rep.violation(Violation { kind: "oracle", stream: orc.name.clone(), signature: format!("C17:{}:{}", case.what, (case.quantity - case.limit).signum()), what, replay: json!({"input": xml, "limits": format!("{:?}", case.lim), "quantity": case.quantity, "limit": case.limit}), confirmed_on_impl: true }),
            None => orc.exact += 1,
        }
    }
    rep.streams.push(corr);
    rep.streams.push(orc);
    Ok(())
}

pub fn run(rep: &mut Report, tier: &str, seed: u64) -> Result<(), String> {
    let mut rng = Rng::new(seed);
    let mut drv = Driver::start()?;
    let n = if tier == "thorough" { 30_000 } else { 900 };
    stream(rep, &mut drv, &mut rng.fork(), n)?;
    Ok(())
}
