//! C03 — real SVG (namespaced root) passes through with an identical XML infoset.
use crate::driver::Driver;
use crate::expat::Expat;
use crate::report::*;
use crate::rng::Rng;
use crate::util::*;
use crate::xmlgen::*;
use serde_json::json;
use svgdx::verif_hooks as hooks;

fn short(s: &str) -> String {
    if s.len() > 900 { format!("{}… ({} bytes)", s.chars().take(900).collect::<String>(), s.len()) } else { s.to_string() }
}

pub fn run(rep: &mut Report, tier: &str, seed: u64) -> Result<(), String> {
    let mut rng = Rng::new(seed);
    let mut drv = Driver::start()?;
    let mut ex = Expat::start()?;
    let n = if tier == "thorough" { 40_000 } else { 1_500 };
    let mut tok = Stream::new(
        "reader/tokens",
        "correspondence",
        "well-formed XML documents rooted at a namespaced <svg> (random element tree with svgdx-looking elements and attributes, entity and character references in every spelling, Unicode, namespaced attributes, PIs, doctype, CDATA, comments, attribute quoting styles, whitespace inside tags); event boundaries of the reader (hook read_events: kind + raw content) vs the Lean tokenizer model; non-trivial = every case",
    );
    let mut pass = Stream::new(
        "oracle/passthrough",
        "oracle",
        "same documents through transform_str under a random configuration (debug, metadata, theme, auto-styles, border, scale, background / font / svg-style strings): output byte-identical to the input (counted exact) or, failing that, infoset-identical per the independent expat parser (counted tolerance); anything else is a violation",
    );
    let mut wr = Stream::new(
        "writer/passthrough-bytes",
        "correspondence",
        "same documents: output bytes of transform_str vs the Lean model of read-then-write (source slices written back, end-tag blanks dropped, one blank after DOCTYPE); non-trivial = every case",
    );
    let mut nested = Stream::new(
        "oracle/nested-subtree",
        "oracle",
        "a namespaced <svg> subtree embedded in an svgdx document as first / middle / last child of the root or of a group: the subtree's bytes (or infoset) must reappear in the output, and the document around it is still processed (compound attributes expanded, root completed)",
    );
    for i in 0..n {
        let doc = real_svg_doc(&mut rng);
        // the generator is supposed to produce well-formed XML: check with the independent parser
        let Ok(in_info) = ex.parse(doc.as_bytes()) else {
            tok.skipped += 1;
            continue;
        };
        // 1. tokenizer correspondence
        tok.case(&doc, true, || json!({"document": short(&doc)}));
        let imp = hooks::read_events(doc.as_bytes());
        let m = drv.call("xml_tokens", &[&doc])?;
        match (&imp, m[0].as_str()) {
            (Ok(evs), "ok") => {
                let mut flat: Vec<String> = vec![];
                for (k, raw) in evs {
                    flat.push(k.clone());
                    flat.push(String::from_utf8_lossy(raw).to_string());
                }
                if flat == m[1..] {
                    tok.exact += 1;
                } else {
                    let idx = flat.iter().zip(m[1..].iter()).position(|(a, b)| a != b).unwrap_or(0);
                    rep.violation(Violation { kind: "correspondence", stream: tok.name.clone(), signature: "tokens".into(), what: format!("event field {idx}: impl {:?} vs model {:?}", flat.get(idx), m.get(idx + 1)), replay: json!({"input": doc}), confirmed_on_impl: false });
                }
            }
            (Err(_), "err") => tok.errors_agreed += 1,
            (a, b) => rep.violation(Violation { kind: "correspondence", stream: tok.name.clone(), signature: "tokens:status".into(), what: format!("reader {:?} vs model {b}", a.as_ref().map(|v| v.len())), replay: json!({"input": doc}), confirmed_on_impl: false }),
        }
        // 2. pass-through oracle
        let cfg = random_cfg(&mut rng);
        pass.case(&doc, true, || json!({"document": short(&doc), "config": cfg_desc(&cfg)}));
        match transform(&doc, &cfg) {
            Err(p) => rep.violation(Violation { kind: "oracle", stream: pass.name.clone(), signature: "C03:panic".into(), what: format!("panic: {p}"), replay: json!({"input": doc, "config": cfg_desc(&cfg)}), confirmed_on_impl: true }),
            Ok(Err(e)) => rep.violation(Violation { kind: "oracle", stream: pass.name.clone(), signature: format!("C03:error:{}", err_kind(&e)), what: format!("well-formed real SVG rejected: {e}"), replay: json!({"input": doc, "config": cfg_desc(&cfg)}), confirmed_on_impl: true }),
            Ok(Ok(out)) => {
                wr.case(&doc, true, || json!({"document": short(&doc)}));
                let m = drv.call("xml_passthrough", &[&doc])?;
                if m[0] == "ok" && m.get(1).map(|s| s.as_str()) == Some(out.as_str()) {
                    wr.exact += 1;
                } else {
                    rep.violation(Violation { kind: "correspondence", stream: wr.name.clone(), signature: "passthrough-bytes".into(), what: format!("output differs from the model's read-then-write: impl {:?} model {:?}", short(&out), m.get(1).map(|s| short(s))), replay: json!({"input": doc}), confirmed_on_impl: false });
                }
                if out == doc {
                    pass.exact += 1;
                } else {
                    match ex.parse(out.as_bytes()) {
                        Ok(oi) if oi.get("infoset") == in_info.get("infoset") => pass.tolerance += 1,
                        Ok(oi) => {
                            let a = in_info["infoset"].as_array().cloned().unwrap_or_default();
                            let b = oi["infoset"].as_array().cloned().unwrap_or_default();
                            let idx = a.iter().zip(b.iter()).position(|(x, y)| x != y).unwrap_or(a.len().min(b.len()));
                            rep.violation(Violation { kind: "oracle", stream: pass.name.clone(), signature: format!("C03:infoset:{}", a.get(idx).and_then(|x| x.get(0)).and_then(|x| x.as_str()).unwrap_or("len")), what: format!("infoset item {idx}: input {} vs output {}", a.get(idx).unwrap_or(&json!(null)), b.get(idx).unwrap_or(&json!(null))), replay: json!({"input": doc, "config": cfg_desc(&cfg)}), confirmed_on_impl: true });
                        }
                        Err(e) => rep.violation(Violation { kind: "oracle", stream: pass.name.clone(), signature: "C03:output-not-wellformed".into(), what: format!("output of a pass-through is not well-formed: {e}"), replay: json!({"input": doc, "config": cfg_desc(&cfg)}), confirmed_on_impl: true }),
                    }
                }
            }
        }
        // 3. nested subtree
        if i % 3 == 0 {
            // one in five: the embedded <svg> is an empty-element tag carrying attributes that svgdx would expand
            let sub = if rng.chance(1, 5) { format!("<svg xmlns=\"http://www.w3.org/2000/svg\" viewBox=\"0 0 3 3\" {}/>", rng.pick(&["wh=\"10\" xy=\"1\"", "cxy=\"4 5\" text=\"t\"", "width=\"4\" height=\"4\"", "xy=\"^|h\" class=\"d-fill-red\""])) } else { real_svg_subtree(&mut rng) };
            if ex.parse(sub.as_bytes()).is_err() { continue; }
            // where the subtree stands: first / middle / last child of the root, or of a group
            let place = rng.below(6);
            let (r, c) = ("<rect xy=\"1 2\" wh=\"3\"/>", "<circle cxy=\"20 20\" r=\"2\"/>");
            let outer = match place {
                0 => format!("<svg>\n  {r}\n  {sub}\n  {c}\n</svg>"),
                1 => format!("<svg>\n  {sub}\n  {r}\n  {c}\n</svg>"),
                2 => format!("<svg>{sub}{r}{c}</svg>"),
                3 => format!("<svg>\n  {r}\n  {c}\n  {sub}\n</svg>"),
                4 => format!("<svg>\n  <g>\n  {sub}\n  {r}\n  </g>\n  {c}\n</svg>"),
                _ => format!("<svg>\n  <!-- c -->\n  {sub}\n  <g>{r}{sub}</g>\n  {c}\n</svg>"),
            };
            nested.case(&outer, true, || json!({"document": short(&outer)}));
            nested.tally(&format!("subtree-position={}", ["middle", "first", "first-no-blanks", "last", "first-in-group", "after-comment+in-group"][place as usize]));
            match transform(&outer, &cfg) {
                Ok(Ok(out)) => {
                    // the rest of the document is still an svgdx document: its elements are expanded and
                    // the root is completed (the embedded subtree has no say in that)
                    let rest = out.replace(&sub, "");
                    if rest.contains("wh=\"3\"") || rest.contains("cxy=\"20 20\"") || !out.find("<svg").map(|i| out[i..].split('>').next().unwrap_or("").contains("xmlns=")).unwrap_or(false) {
                        rep.violation(Violation { kind: "oracle", stream: nested.name.clone(), signature: "C03:nested-rest-unprocessed".into(), what: format!("an embedded namespaced <svg> switched off processing of the document around it: {}", short(&out)), replay: json!({"input": outer, "config": cfg_desc(&cfg)}), confirmed_on_impl: true });
                    }
                    if out.contains(&sub) {
                        nested.exact += 1;
                    } else {
                        // infoset comparison of the embedded subtree: find it by parsing the output
                        let sub_info = ex.parse(sub.as_bytes()).ok().and_then(|v| v.get("infoset").cloned()).and_then(|v| v.as_array().cloned()).unwrap_or_default();
                        let out_info = ex.parse(out.as_bytes()).ok().and_then(|v| v.get("infoset").cloned()).and_then(|v| v.as_array().cloned()).unwrap_or_default();
                        let found = out_info.windows(sub_info.len().max(1)).any(|w| w == sub_info.as_slice());
                        if found { nested.tolerance += 1; } else {
                            rep.violation(Violation { kind: "oracle", stream: nested.name.clone(), signature: "C03:nested".into(), what: "embedded namespaced <svg> subtree not reproduced with the same infoset".into(), replay: json!({"input": outer, "config": cfg_desc(&cfg)}), confirmed_on_impl: true });
                        }
                    }
                }
                Ok(Err(e)) => rep.violation(Violation { kind: "oracle", stream: nested.name.clone(), signature: format!("C03:nested-error:{}", err_kind(&e)), what: format!("document with an embedded real SVG subtree rejected: {e}"), replay: json!({"input": outer}), confirmed_on_impl: true }),
                Err(p) => rep.violation(Violation { kind: "oracle", stream: nested.name.clone(), signature: "C03:panic".into(), what: format!("panic: {p}"), replay: json!({"input": outer}), confirmed_on_impl: true }),
            }
        }
    }
    // 4. a DOCTYPE with an internal subset: the entities it declares are part of the document, and real SVG -
    //    whose DOCTYPE is passed through - may use them in character data and in attribute values
    let mut ent = Stream::new(
        "oracle/doctype-entities",
        "oracle",
        "real SVG documents whose DOCTYPE declares one or two internal entities (Illustrator style) and uses them in character data and attribute values, next to predefined and character references, under random configurations: the transform succeeds and the output is the input byte for byte (or has the same infoset, entities expanded by the independent parser)",
    );
    for _ in 0..n / 4 {
        let (e1, v1) = *rng.pick(&[("brand", "svgdx &amp; co"), ("ns_x", "urn:example:x"), ("Gr\u{fc}n", "#0f0"), ("a.b-c", "1 2")]);
        let two = rng.chance(1, 2);
        let mut subset = format!("<!ENTITY {e1} \"{v1}\">");
        if two { subset.push_str(*rng.pick(&["\n  <!ENTITY copy \"&#169;\">", "<!ENTITY copy '&#xA9; 2024'>"])); }
        let body_text = format!("{} &{e1}; {}{}", rng.pick(&["made by", "&lt;", "x"]), rng.pick(&["&amp;", "&#65;", ""]), if two { " &copy;" } else { "" });
        let attr = if rng.chance(1, 2) { format!(" data-b=\"&{e1};\"") } else { String::new() };
        let pre = if rng.chance(1, 2) { "<?xml version=\"1.0\"?>\n" } else { "" };
        let doc = format!("{pre}<!DOCTYPE svg [{subset}]>\n<svg xmlns=\"http://www.w3.org/2000/svg\" viewBox=\"0 0 10 10\"><desc{attr}>{body_text}</desc><rect width=\"2\" height=\"2\"{attr}/></svg>");
        let Ok(in_info) = ex.parse(doc.as_bytes()) else { ent.skipped += 1; continue };
        let cfg = random_cfg(&mut rng);
        ent.case(&doc, true, || json!({"document": short(&doc), "config": cfg_desc(&cfg)}));
        match transform(&doc, &cfg) {
            Err(p) => rep.violation(Violation { kind: "oracle", stream: ent.name.clone(), signature: "C03:panic".into(), what: format!("panic: {p}"), replay: json!({"input": doc, "config": cfg_desc(&cfg)}), confirmed_on_impl: true }),
            Ok(Err(e)) => rep.violation(Violation { kind: "oracle", stream: ent.name.clone(), signature: format!("C03:error:{}", err_kind(&e)), what: format!("real SVG using the entities its DOCTYPE declares is rejected: {e}"), replay: json!({"input": doc, "config": cfg_desc(&cfg)}), confirmed_on_impl: true }),
            Ok(Ok(out)) if out == doc => ent.exact += 1,
            Ok(Ok(out)) => match ex.parse(out.as_bytes()) {
                Ok(oi) if oi.get("infoset") == in_info.get("infoset") => ent.tolerance += 1,
                _ => rep.violation(Violation { kind: "oracle", stream: ent.name.clone(), signature: "C03:infoset:doctype".into(), what: "a real SVG document with DOCTYPE-declared entities does not come out with the same infoset".into(), replay: json!({"input": doc, "config": cfg_desc(&cfg), "output": short(&out)}), confirmed_on_impl: true }),
            },
        }
    }
    rep.streams.push(ent);
    rep.streams.push(tok);
    rep.streams.push(pass);
    rep.streams.push(wr);
    rep.streams.push(nested);
    Ok(())
}
