//! C10 — forward references: geometry is independent of document order.
//!
//! streams
//!  * doc/forward-refs (correspondence): reference DAGs over ids in a random sibling order (optionally with
//!    a run of siblings wrapped in a group), implementation vs the Lean control-skeleton model (retry loop
//!    + geometry), events and end-of-run probe;
//!  * oracle/permutation: the same DAG in all n! orders (n <= 4) or the identity, the reversal and 10 random
//!    orders: every element's output attributes, keyed by id, must be the same in every order and equal to
//!    the box of an independent reference calculator;
//!  * oracle/unsatisfiable (+ correspondence): unknown id, reference cycles (length 1-3), targets without a
//!    bounding box: the transform must fail in every order.
use crate::c09;
use crate::ctl::*;
use crate::driver::Driver;
use crate::report::*;
use crate::rng::Rng;
use crate::util::*;
use serde_json::json;
use std::collections::BTreeMap;

fn to_x(e: &El) -> X {
    X::El { name: e.name.clone(), attrs: e.attrs.clone(), kids: None }
}

/// a reference DAG: node i > 0 refers (by id only) to earlier nodes of this list
pub fn gen_dag(rng: &mut Rng, n: usize) -> Vec<c09::Node> {
    let mut nodes = c09::gen_doc(rng, n);
    for i in 1..nodes.len() {
        let prev = format!("#e{}", i - 1);
        for (_, v) in nodes[i].el.attrs.iter_mut() {
            if v.starts_with('^') {
                *v = format!("{prev}{}", &v[1..]);
            }
        }
    }
    nodes
}

fn shuffle<T>(rng: &mut Rng, v: &mut Vec<T>) {
    for i in (1..v.len()).rev() {
        let j = rng.below(i + 1);
        v.swap(i, j);
    }
}

fn all_perms(n: usize) -> Vec<Vec<usize>> {
    fn go(cur: &mut Vec<usize>, used: &mut Vec<bool>, n: usize, out: &mut Vec<Vec<usize>>) {
        if cur.len() == n {
            out.push(cur.clone());
            return;
        }
        for i in 0..n {
            if !used[i] {
                used[i] = true;
                cur.push(i);
                go(cur, used, n, out);
                cur.pop();
                used[i] = false;
            }
        }
    }
    let mut out = vec![];
    go(&mut vec![], &mut vec![false; n], n, &mut out);
    out
}

/// the document for one order; `group` = Some(members): those nodes sit in one `<g>` placed where its
/// first member comes in the order, the members in the order's relative order (membership is fixed, so
/// every order is a permutation of the same siblings at both levels)
fn doc_of(nodes: &[c09::Node], order: &[usize], group: Option<&[usize]>) -> Vec<X> {
    let mut out: Vec<X> = vec![];
    let mut done = false;
    for &i in order {
        match group {
            Some(g) if g.contains(&i) => {
                if !done {
                    done = true;
                    out.push(X::node("g", &[], order.iter().filter(|j| g.contains(j)).map(|&j| to_x(&nodes[j].el)).collect()));
                }
            }
            _ => out.push(to_x(&nodes[i].el)),
        }
    }
    out
}

/// output elements keyed by id (canonical attribute order)
fn by_id(events: &[String]) -> BTreeMap<String, String> {
    let mut m = BTreeMap::new();
    for e in events {
        if e.len() > 2 && (e.starts_with("L ") || e.starts_with("S ")) {
            let el = El::decode(&e[2..]);
            if let Some(id) = el.get("id") {
                m.insert(id.to_string(), el.sorted().encode());
            }
        }
    }
    m
}

/// indices of the nodes a node refers to (`#e<j>` anywhere in its attribute values)
fn deps(el: &El) -> Vec<usize> {
    let mut out = vec![];
    for (_, v) in &el.attrs {
        let b = v.as_bytes();
        let mut i = 0;
        while i + 2 < b.len() + 1 {
            if i + 1 < b.len() && b[i] == b'#' && b[i + 1] == b'e' {
                let mut j = i + 2;
                let mut n = 0usize;
                let mut any = false;
                while j < b.len() && b[j].is_ascii_digit() {
                    n = n * 10 + (b[j] - b'0') as usize;
                    j += 1;
                    any = true;
                }
                if any && !out.contains(&n) {
                    out.push(n);
                }
                i = j;
            } else {
                i += 1;
            }
        }
    }
    out
}

/// ids referred to by an element (`#name` anywhere in its attribute values)
fn ref_ids(el: &El) -> Vec<String> {
    let mut out = vec![];
    for (_, v) in &el.attrs {
        let cs: Vec<char> = v.chars().collect();
        let mut i = 0;
        while i < cs.len() {
            if cs[i] == '#' && i + 1 < cs.len() && (cs[i + 1].is_ascii_alphabetic() || cs[i + 1] == '_') {
                let mut j = i + 1;
                while j < cs.len() && (cs[j].is_ascii_alphanumeric() || cs[j] == '_' || cs[j] == '-') {
                    j += 1;
                }
                let id: String = cs[i + 1..j].iter().collect();
                if !out.contains(&id) {
                    out.push(id);
                }
                i = j;
            } else {
                i += 1;
            }
        }
    }
    out
}

/// the abstract scheduler of the Lean development (`Svgdx.Sched.run`) on the dependency structure of a
/// flat document: `Some(true)` = everything resolved, `Some(false)` = stuck
fn sched_model(drv: &mut Driver, els: &[&El], never: &[&str]) -> Result<bool, String> {
    let ids: Vec<String> = els.iter().map(|e| e.get("id").unwrap_or("").to_string()).collect();
    let args: Vec<String> = els.iter().enumerate().map(|(i, e)| {
        let mut parts = vec![i.to_string()];
        for r in ref_ids(e) {
            match ids.iter().position(|x| *x == r) {
                Some(j) => parts.push(j.to_string()),
                None => parts.push("9999".into()),
            }
        }
        if never.contains(&ids[i].as_str()) {
            parts.push("9999".into());
        }
        parts.join(" ")
    }).collect();
    let argr: Vec<&str> = args.iter().map(|s| s.as_str()).collect();
    let r = drv.call("sched_run", &argr)?;
    Ok(r.first().map(|s| s == "some").unwrap_or(false))
}

#[derive(Clone)]
enum Tg {
    One(usize),
    Group(Vec<usize>),
}

/// the retry loop as the code runs it (a pass in which every tag fails ends the run, whatever was
/// resolved inside failing containers); returns whether everything was resolved
fn sim(nodes: &[c09::Node], tags: &[Tg], resolved: &mut Vec<bool>) -> bool {
    let mut tags: Vec<Tg> = tags.to_vec();
    loop {
        let mut remain = vec![];
        for t in &tags {
            let ok = match t {
                Tg::One(i) => {
                    let ok = deps(&nodes[*i].el).iter().all(|d| *d < resolved.len() && resolved[*d]);
                    if ok {
                        resolved[*i] = true;
                    }
                    ok
                }
                Tg::Group(v) => {
                    let inner: Vec<Tg> = v.iter().map(|i| Tg::One(*i)).collect();
                    sim(nodes, &inner, resolved)
                }
            };
            if !ok {
                remain.push(t.clone());
            }
        }
        if remain.is_empty() {
            return true;
        }
        if remain.len() == tags.len() {
            return false;
        }
        tags = remain;
    }
}

fn tags_of(order: &[usize], group: Option<&[usize]>) -> Vec<Tg> {
    let mut out = vec![];
    let mut done = false;
    for &i in order {
        match group {
            Some(g) if g.contains(&i) => {
                if !done {
                    done = true;
                    out.push(Tg::Group(order.iter().filter(|j| g.contains(j)).cloned().collect()));
                }
            }
            _ => out.push(Tg::One(i)),
        }
    }
    out
}

fn order_str(order: &[usize]) -> String {
    order.iter().map(|i| i.to_string()).collect::<Vec<_>>().join(",")
}

/// the C10 predicate on the implementation for one DAG: same per-id geometry in every listed order, equal to `expect`
pub fn check_orders(nodes: &[c09::Node], orders: &[Vec<usize>], group: Option<&[usize]>) -> Option<(String, String, serde_json::Value)> {
    let generic = "C10:order-dependent".to_string();
    let lim = Limits::default();
    let mut base: Option<(Vec<usize>, BTreeMap<String, String>)> = None;
    for order in orders {
        let doc = doc_of(nodes, order, group);
        let xml = doc_xml(&doc);
        let r = run_impl(&xml, lim);
        if r.status != "ok" {
            // known cause: a pass in which every top-level tag fails ends the run although elements
            // nested in a failing group were resolved in it (the code's progress test is top-level only)
            let stuck = group.is_some() && r.status == "err:MultiError" && !sim(nodes, &tags_of(order, group), &mut vec![false; nodes.len()]);
            let sig = if stuck { "C10:nested-progress-not-counted".to_string() } else { generic.clone() };
            let other = orders.iter().find(|o| sim(nodes, &tags_of(o, group), &mut vec![false; nodes.len()])).map(|o| doc_xml(&doc_of(nodes, o, group)));
            return Some((sig, format!("order [{}]: transform of a satisfiable reference DAG fails: {}", order_str(order), r.status), json!({"input": xml, "input_other_order": other, "expect_by_id": c09::expect_json(nodes)})));
        }
        let m = by_id(&r.events);
        // against the independent calculator
        for n in nodes {
            if n.el.name == "box" || n.el.name == "point" {
                continue;
            }
            let id = n.el.get("id").unwrap_or("");
            let Some(enc) = m.get(id) else { return Some((generic.clone(), format!("order [{}]: #{id} missing from the output", order_str(order)), json!({"input": xml}))) };
            let ob = c09::out_box(&El::decode(enc));
            let good = matches!(ob, Some(b) if b.iter().zip(&n.expect).all(|(x, y)| (x - y).abs() <= 0.0011));
            if !good {
                return Some((generic.clone(), format!("order [{}]: #{id} placed at {:?}, its references resolve to {:?}", order_str(order), ob, n.expect), json!({"input": xml, "expect_by_id": c09::expect_json(nodes)})));
            }
        }
        match &base {
            None => base = Some((order.clone(), m)),
            Some((o0, m0)) => {
                if *m0 != m {
                    let id = m0.keys().find(|k| m0.get(*k) != m.get(*k)).cloned().unwrap_or_default();
                    let xml0 = doc_xml(&doc_of(nodes, o0, group));
                    return Some((generic.clone(), format!("#{id} differs between order [{}] and order [{}]: {:?} vs {:?}", order_str(o0), order_str(order), m0.get(&id), m.get(&id)),
                        json!({"input": xml, "input_other_order": xml0, "expect_by_id": c09::expect_json(nodes)})));
                }
            }
        }
    }
    None
}

fn stream_dags(rep: &mut Report, drv: &mut Driver, rng: &mut Rng, n: usize) -> Result<(), String> {
    let mut corr = Stream::new(
        "doc/forward-refs",
        "correspondence",
        "reference DAGs of 2-7 rect/circle/ellipse/line/box/point elements (every relspec form of C09, references by id only, wh vs width/height spellings) written in a random sibling order, optionally with a run of siblings wrapped in <g>; transform_str (events + end-of-run probe) vs the Lean control-skeleton model (retry loop, registration, geometry); non-trivial = the order contains at least one forward reference",
    );
    let mut orc = Stream::new(
        "oracle/permutation",
        "oracle",
        "the same DAGs in all n! sibling orders (n <= 4), otherwise identity + reversal + 10 random orders: every element's output attributes keyed by id are identical in every order and its box equals the independent reference calculator's (tolerance 0.0011); the transform never fails",
    );
    let mut sch = Stream::new(
        "sched/abstract-dag",
        "correspondence",
        "the flat documents of doc/forward-refs reduced to their dependency structure (id -> referenced ids): Svgdx.Sched.run (the scheduler the order-independence theorem is about) resolves everything iff the implementation succeeds",
    );
    let lim = Limits::default();
    for _ in 0..n {
        let k = 2 + rng.below(6);
        let nodes = gen_dag(rng, k);
        // correspondence on one random order
        let mut order: Vec<usize> = (0..k).collect();
        match rng.below(4) {
            0 => order.reverse(),
            1 => {}
            _ => shuffle(rng, &mut order),
        }
        let members: Option<Vec<usize>> = if rng.chance(1, 4) {
            let m: Vec<usize> = (0..k).filter(|_| rng.chance(1, 2)).collect();
            if m.is_empty() { None } else { Some(m) }
        } else {
            None
        };
        let group = members.as_deref();
        let doc = doc_of(&nodes, &order, group);
        let xml = doc_xml(&doc);
        let forward = order.iter().enumerate().any(|(p, &i)| order[p + 1..].iter().any(|&j| j < i && nodes[i].el.attrs.iter().any(|(_, v)| v.contains(&format!("#e{j}")) && !v.contains(&format!("#e{j}0")))));
        corr.case(&xml, forward, || json!({"document": xml}));
        corr.tally(if group.is_some() { "grouped" } else { "flat" });
        corr.tally(if forward { "forward-ref" } else { "in-order" });
        let imp = run_impl(&xml, lim);
        let mdl = run_model(drv, &doc, lim)?;
        corr.tally(&format!("impl={}", imp.status));
        if mdl.outside {
            corr.skipped += 1;
        } else {
            match agree(&imp, &mdl) {
                Ok(()) => corr.exact += 1,
                Err(what) => rep.violation(Violation { kind: "correspondence", stream: corr.name.clone(), signature: "forward-refs".into(), what, replay: json!({"input": xml}), confirmed_on_impl: false }),
            }
        }
        if group.is_none() {
            let els: Vec<&El> = order.iter().map(|&i| &nodes[i].el).collect();
            let ok = sched_model(drv, &els, &[])?;
            sch.case(&xml, true, || json!({"document": xml}));
            if ok == (imp.status == "ok") { sch.exact += 1 } else {
                rep.violation(Violation { kind: "correspondence", stream: sch.name.clone(), signature: "sched:dag".into(), what: format!("abstract scheduler {} vs implementation {}", if ok { "resolves everything" } else { "is stuck" }, imp.status), replay: json!({"input": xml}), confirmed_on_impl: false });
            }
        }
        // permutation oracle
        let orders: Vec<Vec<usize>> = if k <= 4 {
            all_perms(k)
        } else {
            let mut os = vec![(0..k).collect::<Vec<_>>(), (0..k).rev().collect::<Vec<_>>()];
            for _ in 0..10 {
                let mut o: Vec<usize> = (0..k).collect();
                shuffle(rng, &mut o);
                os.push(o);
            }
            os
        };
        let g2 = if group.is_some() && rng.chance(1, 2) { group } else { None };
        orc.case(&xml, true, || json!({"elements": nodes.iter().map(|n| n.el.xml()).collect::<Vec<_>>(), "orders": orders.len()}));
        orc.tally(&format!("orders={}", orders.len()));
        match check_orders(&nodes, &orders, g2) {
            None => orc.exact += 1,
            Some((sig, what, replay)) => rep.violation(Violation { kind: "oracle", stream: orc.name.clone(), signature: sig, what, replay, confirmed_on_impl: true }),
        }
    }
    rep.streams.push(corr);
    rep.streams.push(sch);
    rep.streams.push(orc);
    Ok(())
}

/// documents whose references can never be satisfied
fn gen_unsat(rng: &mut Rng) -> (Vec<El>, &'static str) {
    let k = 2 + rng.below(4);
    let mut els: Vec<El> = gen_dag(rng, k).into_iter().map(|n| n.el).collect();
    let refspec = |rng: &mut Rng, id: &str| -> (String, String) {
        match rng.below(4) {
            0 => ("xy".into(), format!("#{id}|h 2")),
            1 => ("xy".into(), format!("#{id}@br 1 1")),
            2 => ("cxy".into(), format!("#{id}@c")),
            _ => ("xy".into(), format!("#{id}|V")),
        }
    };
    let rect_ref = |rng: &mut Rng, id: &str, target: &str| -> El {
        let (k, v) = refspec(rng, target);
        let mut e = El::new("rect");
        e.push("id", id);
        e.push(&k, &v);
        if rng.chance(1, 2) { e.push("wh", "6 4"); } else { e.push("width", "6"); e.push("height", "4"); }
        e
    };
    let kind = match rng.below(5) {
        0 => {
            els.push(rect_ref(rng, "u0", "nowhere"));
            "unknown-id"
        }
        1 => {
            let len = 1 + rng.below(3);
            for i in 0..len {
                els.push(rect_ref(rng, &format!("c{i}"), &format!("c{}", (i + 1) % len)));
            }
            "cycle"
        }
        2 => {
            // a target that has no bounding box: no size at all, or a non-numeric size that is passed through
            let mut t = El::new("rect");
            t.push("id", "nb");
            match rng.below(3) {
                0 => {}
                1 => { t.push("width", "10%"); t.push("height", "5"); }
                _ => { t.push("xy", "1 2"); }
            }
            els.push(t);
            els.push(rect_ref(rng, "u1", "nb"));
            "no-bbox-target"
        }
        3 => {
            // an empty group has no bounding box
            let mut t = El::new("g");
            t.push("id", "eg");
            els.push(t);
            els.push(rect_ref(rng, "u2", "eg"));
            "empty-group-target"
        }
        _ => {
            // a chain hanging off an unknown id
            els.push(rect_ref(rng, "d0", "d1"));
            els.push(rect_ref(rng, "d1", "d2"));
            els.push(rect_ref(rng, "d2", "ghost"));
            "chain-to-unknown"
        }
    };
    (els, kind)
}

fn stream_unsat(rep: &mut Report, drv: &mut Driver, rng: &mut Rng, n: usize) -> Result<(), String> {
    let mut corr = Stream::new(
        "doc/unsatisfiable",
        "correspondence",
        "a satisfiable DAG plus a reference that can never be satisfied (unknown id, cycle of length 1-3, target without a bounding box, empty group, chain ending in an unknown id), in a random order: implementation vs model (status and end-of-run probe)",
    );
    let mut orc = Stream::new(
        "oracle/unsatisfiable",
        "oracle",
        "the same documents in 4 random orders: the transform must fail in every order (never place the dependent element against a default or partially evaluated box)",
    );
    let mut sch = Stream::new(
        "sched/abstract-unsat",
        "correspondence",
        "the unsatisfiable documents reduced to their dependency structure (an unknown id or a target without a box never resolves): Svgdx.Sched.run is stuck iff the implementation fails",
    );
    let lim = Limits::default();
    for _ in 0..n {
        let (els, kind) = gen_unsat(rng);
        let mut failed: Option<(String, String)> = None;
        for rep_i in 0..4 {
            let mut order: Vec<usize> = (0..els.len()).collect();
            if rep_i > 0 {
                shuffle(rng, &mut order);
            }
            let doc: Vec<X> = order.iter().map(|&i| to_x(&els[i])).collect();
            let xml = doc_xml(&doc);
            let imp = run_impl(&xml, lim);
            if rep_i == 0 {
                corr.case(&xml, true, || json!({"document": xml, "kind": kind}));
                corr.tally(kind);
                let mdl = run_model(drv, &doc, lim)?;
                corr.tally(&format!("impl={}", imp.status));
                if mdl.outside {
                    corr.skipped += 1;
                } else {
                    match agree(&imp, &mdl) {
                        Ok(()) => { if imp.status != "ok" { corr.errors_agreed += 1; } corr.exact += 1 }
                        Err(what) => rep.violation(Violation { kind: "correspondence", stream: corr.name.clone(), signature: format!("unsat:{kind}"), what, replay: json!({"input": xml}), confirmed_on_impl: false }),
                    }
                }
                orc.case(&xml, true, || json!({"document": xml, "kind": kind}));
                orc.tally(kind);
                let elr: Vec<&El> = order.iter().map(|&i| &els[i]).collect();
                let ok = sched_model(drv, &elr, &["nb", "eg"])?;
                sch.case(&xml, true, || json!({"document": xml, "kind": kind}));
                if ok == (imp.status == "ok") { sch.exact += 1; if !ok { sch.errors_agreed += 1; } } else {
                    rep.violation(Violation { kind: "correspondence", stream: sch.name.clone(), signature: format!("sched:{kind}"), what: format!("abstract scheduler {} vs implementation {}", if ok { "resolves everything" } else { "is stuck" }, imp.status), replay: json!({"input": xml}), confirmed_on_impl: false });
                }
            }
            if imp.status == "ok" && failed.is_none() {
                failed = Some((xml.clone(), imp.output.clone()));
            }
        }
        match failed {
            None => orc.exact += 1,
            Some((xml, out)) => rep.violation(Violation { kind: "oracle", stream: orc.name.clone(), signature: format!("C10:unsatisfiable-accepted:{kind}"),
                what: format!("a document with an unsatisfiable reference ({kind}) is transformed without error"), replay: json!({"input": xml, "unsatisfiable": kind, "output": out}), confirmed_on_impl: true }),
        }
    }
    rep.streams.push(corr);
    rep.streams.push(sch);
    rep.streams.push(orc);
    Ok(())
}


/// siblings that involve a clip path: the clipped element's box, as seen by elements that refer to it,
/// is the intersection with the clipPath's content - wherever the clipPath is written
fn stream_clip(rep: &mut Report, drv: &mut Driver, rng: &mut Rng, n: usize) -> Result<(), String> {
    let mut corr = Stream::new(
        "doc/clip-order",
        "correspondence",
        "3-5 siblings: a <clipPath> with a rect, an element clipped by it (rect or a group), elements placed relative to the clipped element and to each other, in a random order: implementation vs model",
    );
    let mut orc = Stream::new(
        "oracle/clip-permutation",
        "oracle",
        "the same siblings in all n! orders: every element's output attributes keyed by id are the same in every order; when the clip region misses the element (no box left) every order fails alike",
    );
    let lim = Limits::default();
    for _ in 0..n {
        let h = |rng: &mut Rng, lo: i64, hi: i64| fstr_ref(rng.range(lo, hi) as f64 / 2.0);
        let mut sib: Vec<X> = vec![];
        sib.push(X::node("clipPath", &[("id", "cp")], vec![X::leaf("rect", &[("xy", &format!("{} {}", h(rng, 0, 20), h(rng, 0, 20))), ("wh", &format!("{} {}", 2 + rng.below(10), 2 + rng.below(10)))])]));
        let (tx, ty, tw, th) = (h(rng, -10, 20), h(rng, -10, 20), (4 + rng.below(30)).to_string(), (4 + rng.below(30)).to_string());
        if rng.chance(1, 3) {
            sib.push(X::node("g", &[("id", "t"), ("clip-path", "url(#cp)")], vec![X::leaf("rect", &[("xy", &format!("{tx} {ty}")), ("wh", &format!("{tw} {th}"))])]));
        } else {
            sib.push(X::leaf("rect", &[("id", "t"), ("xy", &format!("{tx} {ty}")), ("wh", &format!("{tw} {th}")), ("clip-path", "url(#cp)")]));
        }
        let spec = |rng: &mut Rng, id: &str| -> String { format!("#{id}{}", rng.pick(&["|h 5", "|v 2", "@br 1 1", "|H", "@c"])) };
        sib.push(X::leaf("rect", &[("id", "r"), ("xy", &spec(rng, "t")), ("wh", "6 4")]));
        if rng.chance(1, 2) { sib.push(X::leaf("circle", &[("id", "q"), ("cxy", &format!("#r@{}", rng.pick(&["c", "tl", "b"]))), ("r", "2")])); }
        if rng.chance(1, 2) { sib.push(X::leaf("rect", &[("id", "w"), ("xy", "40 40"), ("wh", "#t")])); }
        let k = sib.len();
        let mut order: Vec<usize> = (0..k).collect();
        shuffle(rng, &mut order);
        let doc: Vec<X> = order.iter().map(|&i| sib[i].clone()).collect();
        let xml = doc_xml(&doc);
        corr.case(&xml, true, || json!({"document": xml}));
        let imp = run_impl(&xml, lim);
        let mdl = run_model(drv, &doc, lim)?;
        corr.tally(&format!("impl={}", imp.status));
        if mdl.outside { corr.skipped += 1; } else {
            match agree(&imp, &mdl) {
                Ok(()) => corr.exact += 1,
                Err(what) => rep.violation(Violation { kind: "correspondence", stream: corr.name.clone(), signature: "clip-order".into(), what, replay: json!({"input": xml}), confirmed_on_impl: false }),
            }
        }
        orc.case(&xml, true, || json!({"siblings": sib.iter().map(|x| { let mut s = String::new(); x.xml(&mut s); s }).collect::<Vec<_>>()}));
        let mut base: Option<(String, BTreeMap<String, String>)> = None;
        let mut bad = None;
        for o in all_perms(k) {
            let d: Vec<X> = o.iter().map(|&i| sib[i].clone()).collect();
            let x = doc_xml(&d);
            let r = run_impl(&x, lim);
            // an empty intersection leaves the clipped element without a box: then every order must fail
            let mut m = by_id(&r.events);
            m.insert("(status)".into(), if r.status == "ok" { "ok".into() } else { "error".into() });
            match &base {
                None => base = Some((x, m)),
                Some((x0, m0)) => if *m0 != m {
                    let id = m0.keys().find(|k| m0.get(*k) != m.get(*k)).cloned().unwrap_or_default();
                    bad = Some((format!("#{id} differs between two orders of the same siblings: {:?} vs {:?}", m0.get(&id), m.get(&id)), json!({"input": x, "input_other_order": x0})));
                    break;
                }
            }
        }
        match bad {
            None => orc.exact += 1,
            Some((what, replay)) => rep.violation(Violation { kind: "oracle", stream: orc.name.clone(), signature: "C10:order-dependent".into(), what, replay, confirmed_on_impl: true }),
        }
    }
    rep.streams.push(corr);
    rep.streams.push(orc);
    Ok(())
}

/// `<use>` among the permuted siblings: a target, a `<use>` of it (possibly a `<use>` of that), elements and
/// connectors placed relative to the instance. A `<use>` has no box of its own - it is known only through its
/// target - yet it is a valid `#id`; every order must succeed, with the same geometry.
fn stream_use(rep: &mut Report, drv: &mut Driver, rng: &mut Rng, n: usize) -> Result<(), String> {
    let mut corr = Stream::new(
        "doc/use-order",
        "correspondence",
        "3-6 siblings: a rect / circle / ellipse target, a <use> of it with x / y (one in three also a <use> of the <use>), 1-3 elements placed relative to the instance (direction, location, size, connector start), in a random order: implementation vs model",
    );
    let mut orc = Stream::new(
        "oracle/use-permutation",
        "oracle",
        "the same siblings in all n! orders (at most 120): every order succeeds and every element's output attributes keyed by id are the same in every order",
    );
    let lim = Limits::default();
    for _ in 0..n {
        let h = |rng: &mut Rng, lo: i64, hi: i64| fstr_ref(rng.range(lo, hi) as f64 / 2.0);
        let mut sib: Vec<X> = vec![];
        match rng.below(3) {
            0 => sib.push(X::leaf("rect", &[("id", "t"), ("xy", &format!("{} {}", h(rng, -10, 20), h(rng, -10, 20))), ("wh", &format!("{} {}", 2 * (1 + rng.below(8)), 2 * (1 + rng.below(8))))])),
            1 => sib.push(X::leaf("circle", &[("id", "t"), ("cxy", &format!("{} {}", h(rng, -10, 20), h(rng, -10, 20))), ("r", &(2 + rng.below(6)).to_string())])),
            _ => sib.push(X::leaf("ellipse", &[("id", "t"), ("cxy", &format!("{} {}", h(rng, -10, 20), h(rng, -10, 20))), ("rxy", &format!("{} {}", 2 + rng.below(6), 1 + rng.below(4)))])),
        }
        let mut ua: Vec<(String, String)> = vec![("id".into(), "u".into()), ("href".into(), "#t".into())];
        let mut last = "u";
        if rng.chance(1, 3) {
            // a <reuse> with an id whose own position refers to a sibling: written before that sibling it fails
            // first and is attempted again - until then its id must not stand for a half-made instance
            ua.push(("xy".into(), format!("#b{}", rng.pick(&["|h 5", "|v 2", "@br 1 1", "|H 3"]))));
            sib.push(X::El { name: "reuse".into(), attrs: ua, kids: None });
            sib.push(X::leaf("rect", &[("id", "b"), ("xy", &format!("{} {}", h(rng, 40, 90), h(rng, 40, 90))), ("wh", "4 2")]));
            corr.tally("instance=reuse-with-forward-position");
        } else {
            if rng.chance(3, 4) { ua.push(("x".into(), h(rng, -40, 40))); }
            if rng.chance(3, 4) { ua.push(("y".into(), h(rng, -40, 40))); }
            sib.push(X::El { name: "use".into(), attrs: ua, kids: None });
            if rng.chance(1, 3) { sib.push(X::leaf("use", &[("id", "v"), ("href", "#u"), ("x", &h(rng, -20, 20))])); last = "v"; }
        }
        let spec = |rng: &mut Rng, id: &str| -> String { format!("#{id}{}", rng.pick(&["|h 4", "|v 2", "@br 1 1", "|H", "@c", "|V 3", "@tl"])) };
        sib.push(X::leaf("rect", &[("id", "r"), ("xy", &spec(rng, last)), ("wh", "6 4")]));
        if rng.chance(1, 2) { sib.push(X::leaf("line", &[("id", "k"), ("start", &format!("#{last}")), ("end", "#r")])); }
        if rng.chance(1, 3) { sib.push(X::leaf("rect", &[("id", "w"), ("xy", "60 60"), ("wh", &format!("#{last}"))])); }
        let k = sib.len();
        let mut order: Vec<usize> = (0..k).collect();
        shuffle(rng, &mut order);
        // one document in three starts with a <defaults> block (not permuted: it stands before all of them)
        // whose entries augment transform / style - attributes that are appended to, so applying the
        // defaults once per ATTEMPT instead of once per element would show in the geometry
        let head: Vec<X> = if rng.chance(1, 3) {
            vec![X::node("defaults", &[], vec![
                X::leaf("rect", &[("transform", *rng.pick(&["translate(7, -3)", "translate(2 2)", "scale(2)"])), ("style", "opacity: 0.5")]),
                X::leaf("_", &[("match", ".big"), ("rx", "1")]),
            ])]
        } else { vec![] };
        let doc: Vec<X> = head.iter().cloned().chain(order.iter().map(|&i| sib[i].clone())).collect();
        let xml = doc_xml(&doc);
        corr.case(&xml, true, || json!({"document": xml}));
        if !head.is_empty() { corr.tally("with-defaults"); }
        let imp = run_impl(&xml, lim);
        let mdl = run_model(drv, &doc, lim)?;
        corr.tally(&format!("impl={}", imp.status));
        if mdl.outside { corr.skipped += 1; } else {
            match agree(&imp, &mdl) {
                Ok(()) => corr.exact += 1,
                Err(what) => rep.violation(Violation { kind: "correspondence", stream: corr.name.clone(), signature: "use-order".into(), what, replay: json!({"input": xml}), confirmed_on_impl: false }),
            }
        }
        orc.case(&xml, true, || json!({"siblings": sib.iter().map(|x| { let mut s = String::new(); x.xml(&mut s); s }).collect::<Vec<_>>()}));
        let mut base: Option<(String, BTreeMap<String, String>)> = None;
        let mut bad = None;
        for o in all_perms(k).into_iter().take(120) {
            let d: Vec<X> = head.iter().cloned().chain(o.iter().map(|&i| sib[i].clone())).collect();
            let x = doc_xml(&d);
            let r = run_impl(&x, lim);
            if r.status != "ok" {
                bad = Some((format!("a satisfiable document fails in this order of its siblings: {}", r.status), json!({"input": x})));
                break;
            }
            let m = by_id(&r.events);
            match &base {
                None => base = Some((x, m)),
                Some((x0, m0)) => if *m0 != m {
                    let id = m0.keys().find(|k| m0.get(*k) != m.get(*k)).cloned().unwrap_or_default();
                    bad = Some((format!("#{id} differs between two orders of the same siblings: {:?} vs {:?}", m0.get(&id), m.get(&id)), json!({"input": x, "input_other_order": x0})));
                    break;
                }
            }
        }
        match bad {
            None => orc.exact += 1,
            Some((what, replay)) => rep.violation(Violation { kind: "oracle", stream: orc.name.clone(), signature: "C10:order-dependent".into(), what, replay, confirmed_on_impl: true }),
        }
    }
    rep.streams.push(corr);
    rep.streams.push(orc);
    Ok(())
}

/// containment (`surround` / `inside`) of targets whose box is only known late: a polyline / polygon /
/// path whose points are themselves references, registered as soon as it is read but without a box
/// until those references resolve. Every order of the siblings must succeed with the same geometry.
fn stream_contain(rep: &mut Report, drv: &mut Driver, rng: &mut Rng, n: usize) -> Result<(), String> {
    let mut corr = Stream::new(
        "doc/containment-order",
        "correspondence",
        "4-6 siblings: two boxes (one placed relative to the other), a polyline / polygon / path whose points refer to them, an element that surrounds the poly (with a margin) or lies inside a box, elements placed relative to those, in a random order: implementation vs model",
    );
    let mut orc = Stream::new(
        "oracle/containment-permutation",
        "oracle",
        "the same siblings in all n! orders (n <= 5; 24 random orders of 6): every order succeeds (the document is satisfiable: it is in dependency order as generated) and every element's output attributes keyed by id are the same",
    );
    let lim = Limits::default();
    for _ in 0..n {
        let h = |rng: &mut Rng, lo: i64, hi: i64| fstr_ref(rng.range(lo, hi) as f64 / 2.0);
        let mut sib: Vec<X> = vec![];
        sib.push(X::leaf("rect", &[("id", "a"), ("xy", &format!("{} {}", h(rng, -10, 10), h(rng, -10, 10))), ("wh", &format!("{} {}", 4 + rng.below(10), 4 + rng.below(10)))]));
        sib.push(X::leaf("rect", &[("id", "b"), ("xy", &format!("#a{}", rng.pick(&["|h 20", "|v 12", "@br 8 6", "|H 7"]))), ("wh", &format!("{} {}", 4 + rng.below(10), 6 + rng.below(20)))]));
        let (l1, l2, l3) = (*rng.pick(&["r", "c", "tl", "b"]), *rng.pick(&["t", "l", "c", "br"]), *rng.pick(&["bl", "r", "c"]));
        match rng.below(3) {
            0 => sib.push(X::leaf("polyline", &[("id", "p"), ("points", &format!("#a@{l1} #b@{l2}"))])),
            1 => sib.push(X::leaf("polygon", &[("id", "p"), ("points", &format!("#a@{l1} #b@{l2} #a@{l3}"))])),
            _ => sib.push(X::leaf("path", &[("id", "p"), ("d", &format!("M #a@{l1} L #b@{l2} L #b@{l3}"))])),
        }
        let margin = rng.pick(&["0", "2", "1 3", "0.5"]).to_string();
        match rng.below(3) {
            0 => sib.push(X::leaf("rect", &[("id", "s"), ("surround", "#p"), ("margin", &margin)])),
            1 => sib.push(X::leaf("ellipse", &[("id", "s"), ("surround", "#p #a"), ("margin", &margin)])),
            _ => sib.push(X::leaf("rect", &[("id", "s"), ("inside", "#b"), ("margin", "1")])),
        }
        if rng.chance(1, 2) { sib.push(X::leaf("rect", &[("id", "f"), ("xy", &format!("#s{}", rng.pick(&["|h 2", "@bl", "|V 1"]))), ("wh", "3 2")])); }
        if rng.chance(1, 3) { sib.push(X::leaf("circle", &[("id", "q"), ("cxy", "#p@c"), ("r", "1.5")])); }
        let k = sib.len();
        let mut order: Vec<usize> = (0..k).collect();
        shuffle(rng, &mut order);
        let doc: Vec<X> = order.iter().map(|&i| sib[i].clone()).collect();
        let xml = doc_xml(&doc);
        corr.case(&xml, true, || json!({"document": xml}));
        let imp = run_impl(&xml, lim);
        let mdl = run_model(drv, &doc, lim)?;
        corr.tally(&format!("impl={}", imp.status));
        if mdl.outside { corr.skipped += 1; } else {
            match agree(&imp, &mdl) {
                Ok(()) => corr.exact += 1,
                Err(what) => rep.violation(Violation { kind: "correspondence", stream: corr.name.clone(), signature: "containment-order".into(), what, replay: json!({"input": xml}), confirmed_on_impl: false }),
            }
        }
        orc.case(&xml, true, || json!({"siblings": sib.iter().map(|x| { let mut s = String::new(); x.xml(&mut s); s }).collect::<Vec<_>>()}));
        let orders: Vec<Vec<usize>> = if k <= 5 { all_perms(k) } else {
            let mut v = vec![(0..k).collect::<Vec<usize>>()];
            for _ in 0..23 { let mut o: Vec<usize> = (0..k).collect(); shuffle(rng, &mut o); v.push(o); }
            v
        };
        let mut base: Option<(String, BTreeMap<String, String>)> = None;
        let mut bad = None;
        for o in orders {
            let d: Vec<X> = o.iter().map(|&i| sib[i].clone()).collect();
            let x = doc_xml(&d);
            let r = run_impl(&x, lim);
            if r.status != "ok" {
                bad = Some((format!("a satisfiable document fails in this order of its siblings: {}", r.status), json!({"input": x, "input_other_order": base.as_ref().map(|b| b.0.clone())})));
                break;
            }
            let m = by_id(&r.events);
            match &base {
                None => base = Some((x, m)),
                Some((x0, m0)) => if *m0 != m {
                    let id = m0.keys().find(|k| m0.get(*k) != m.get(*k)).cloned().unwrap_or_default();
                    bad = Some((format!("#{id} differs between two orders of the same siblings: {:?} vs {:?}", m0.get(&id), m.get(&id)), json!({"input": x, "input_other_order": x0})));
                    break;
                }
            }
        }
        match bad {
            None => orc.exact += 1,
            Some((what, replay)) => rep.violation(Violation { kind: "oracle", stream: orc.name.clone(), signature: "C10:order-dependent".into(), what, replay, confirmed_on_impl: true }),
        }
    }
    rep.streams.push(corr);
    rep.streams.push(orc);
    Ok(())
}

/// corpus: {"input", "input_other_order"?, "expect_by_id"?, "unsatisfiable"?, "signature"}
fn corpus(rep: &mut Report) {
    let mut st = Stream::new("corpus", "oracle", "files of /verif/corpus/C10 (past failures): geometry equals the recorded boxes / both orders agree / unsatisfiable input fails");
    let dir = std::path::Path::new("/verif/corpus/C10");
    let mut files: Vec<_> = std::fs::read_dir(dir).map(|d| d.filter_map(|e| e.ok()).map(|e| e.path()).collect()).unwrap_or_default();
    files.sort();
    for f in files {
        let Ok(txt) = std::fs::read_to_string(&f) else { continue };
        let Ok(v) = serde_json::from_str::<serde_json::Value>(&txt) else { continue };
        let name = f.file_name().map(|s| s.to_string_lossy().to_string()).unwrap_or_default();
        st.case(&name, true, || json!({"file": name}));
        let sig = v.get("signature").and_then(|s| s.as_str()).unwrap_or("C10:corpus").to_string();
        match judge(&v) {
            None => st.exact += 1,
            Some(what) => rep.violation(Violation { kind: "oracle", stream: "corpus".into(), signature: sig, what, replay: v.clone(), confirmed_on_impl: true }),
        }
    }
    rep.streams.push(st);
}

/// judge one replay object against the implementation
fn judge(v: &serde_json::Value) -> Option<String> {
    let input = v.get("input").and_then(|s| s.as_str()).unwrap_or("");
    let lim = Limits::default();
    let r = run_impl(input, lim);
    if v.get("unsatisfiable").is_some() {
        return if r.status == "ok" { Some("a document with an unsatisfiable reference is transformed without error".into()) } else { None };
    }
    if r.status != "ok" {
        return Some(format!("transform fails: {}", r.status));
    }
    let m = by_id(&r.events);
    if let Some(exp) = v.get("expect_by_id").and_then(|e| e.as_object()) {
        for (id, bx) in exp {
            let want: Vec<f64> = bx.as_array().map(|a| a.iter().filter_map(|x| x.as_f64()).collect()).unwrap_or_default();
            let ob = m.get(id).and_then(|enc| c09::out_box(&El::decode(enc)));
            let good = matches!(ob, Some(b) if want.len() == 4 && b.iter().zip(&want).all(|(x, y)| (x - y).abs() <= 0.0011));
            if !good {
                return Some(format!("#{id} placed at {:?}, its references resolve to {:?}", ob, want));
            }
        }
    }
    if let Some(other) = v.get("input_other_order").and_then(|s| s.as_str()) {
        let r2 = run_impl(other, lim);
        if r2.status != "ok" {
            return Some(format!("transform of the other order fails: {}", r2.status));
        }
        let m2 = by_id(&r2.events);
        if m != m2 {
            let id = m.keys().find(|k| m.get(*k) != m2.get(*k)).cloned().unwrap_or_default();
            return Some(format!("#{id} differs between the two orders: {:?} vs {:?}", m.get(&id), m2.get(&id)));
        }
    }
    None
}

pub fn replay(rep: &mut Report, v: &serde_json::Value) {
    let mut st = Stream::new("replay", "oracle", "one replay file judged against the implementation");
    st.case("replay", true, || v.clone());
    match judge(v) {
        None => st.exact += 1,
        Some(what) => rep.violation(Violation { kind: "oracle", stream: "replay".into(), signature: "C10:replay".into(), what, replay: v.clone(), confirmed_on_impl: true }),
    }
    rep.streams.push(st);
}

pub fn run(rep: &mut Report, tier: &str, seed: u64) -> Result<(), String> {
    let mut rng = Rng::new(seed);
    let mut drv = Driver::start()?;
    let (n, u) = if tier == "thorough" { (20_000, 10_000) } else { (800, 500) };
    corpus(rep);
    stream_dags(rep, &mut drv, &mut rng.fork(), n)?;
    stream_unsat(rep, &mut drv, &mut rng.fork(), u)?;
    stream_clip(rep, &mut drv, &mut rng.fork(), u / 2)?;
    stream_contain(rep, &mut drv, &mut rng.fork(), u / 2)?;
    stream_use(rep, &mut drv, &mut rng.fork(), u / 2)?;
    Ok(())
}
