//! Shared by the control-skeleton properties (C15 C16 C17 C18 C10 C08): a small document AST rendered
//! both as XML (for the implementation) and as driver tokens (for the Lean model), the probe runner
//! and the canonical event encoding used to compare outputs.
use crate::driver::Driver;
use crate::util::*;
use quick_xml::events::Event;
use quick_xml::Reader;
use svgdx::verif_hooks as hooks;

#[derive(Clone, Debug)]
pub enum X {
    El { name: String, attrs: Vec<(String, String)>, kids: Option<Vec<X>> },
    Text(String),
    Comment(String),
}

impl X {
    pub fn leaf(name: &str, attrs: &[(&str, &str)]) -> X {
        X::El { name: name.into(), attrs: attrs.iter().map(|(k, v)| (k.to_string(), v.to_string())).collect(), kids: None }
    }
    pub fn node(name: &str, attrs: &[(&str, &str)], kids: Vec<X>) -> X {
        X::El { name: name.into(), attrs: attrs.iter().map(|(k, v)| (k.to_string(), v.to_string())).collect(), kids: Some(kids) }
    }
    pub fn xml(&self, out: &mut String) {
        match self {
            X::El { name, attrs, kids } => {
                out.push('<');
                out.push_str(name);
                for (k, v) in attrs {
                    out.push_str(&format!(" {}=\"{}\"", k, xml_escape_attr(v)));
                }
                match kids {
                    None => out.push_str("/>"),
                    Some(ks) => {
                        out.push('>');
                        for k in ks {
                            k.xml(out);
                        }
                        out.push_str(&format!("</{}>", name));
                    }
                }
            }
            X::Text(t) => out.push_str(&xml_escape_text(t)),
            X::Comment(c) => out.push_str(&format!("<!--{}-->", c)),
        }
    }
    pub fn toks(&self, out: &mut Vec<String>) {
        match self {
            X::El { name, attrs, kids } => {
                let el = El { name: name.clone(), attrs: attrs.clone() };
                match kids {
                    None => out.push(format!("L {}", el.encode())),
                    Some(ks) => {
                        out.push(format!("S {}", el.encode()));
                        for k in ks {
                            k.toks(out);
                        }
                        out.push("E".into());
                    }
                }
            }
            X::Text(t) => out.push(format!("T {}", t)),
            X::Comment(c) => out.push(format!("C {}", c)),
        }
    }
    /// number of element levels on the deepest path
    pub fn nesting(&self) -> usize {
        match self {
            X::El { kids, .. } => 1 + kids.as_ref().map(|ks| ks.iter().map(|k| k.nesting()).max().unwrap_or(0)).unwrap_or(0),
            _ => 0,
        }
    }
    pub fn count_elements(&self) -> usize {
        match self {
            X::El { kids, .. } => 1 + kids.as_ref().map(|ks| ks.iter().map(|k| k.count_elements()).sum()).unwrap_or(0),
            _ => 0,
        }
    }
}

pub fn doc_xml(nodes: &[X]) -> String {
    let mut s = String::new();
    for n in nodes {
        n.xml(&mut s);
    }
    s
}

pub fn doc_toks(nodes: &[X]) -> Vec<String> {
    let mut v = vec![];
    for n in nodes {
        n.toks(&mut v);
    }
    v
}

/// element events of an output document in the driver's encoding (text / comments dropped)
pub fn element_events(xml: &str) -> Result<Vec<String>, String> {
    let mut rd = Reader::from_str(xml);
    let mut out = vec![];
    loop {
        match rd.read_event() {
            Err(e) => return Err(format!("{e:?}")),
            Ok(Event::Eof) => break,
            Ok(Event::Start(s)) => out.push(format!("S {}", bs_el(&s)?.encode())),
            Ok(Event::Empty(s)) => out.push(format!("L {}", bs_el(&s)?.encode())),
            Ok(Event::End(e)) => out.push(format!("E {}", String::from_utf8_lossy(e.name().as_ref()))),
            Ok(_) => {}
        }
    }
    Ok(out)
}

fn bs_el(s: &quick_xml::events::BytesStart) -> Result<El, String> {
    let name = String::from_utf8_lossy(s.name().as_ref()).to_string();
    let mut attrs = vec![];
    for a in s.attributes() {
        let a = a.map_err(|e| format!("{e:?}"))?;
        attrs.push((String::from_utf8_lossy(a.key.as_ref()).to_string(), a.unescape_value().map_err(|e| format!("{e:?}"))?.to_string()));
    }
    Ok(El { name, attrs })
}

#[derive(Clone, Debug)]
pub struct Run {
    /// "ok" or "err:<Kind>" or "panic:<msg>"
    pub status: String,
    pub depth: u64,
    pub scope_height: u64,
    pub elem_stack: u64,
    pub in_specs: bool,
    pub events: Vec<String>,
    pub output: String,
    pub outside: bool,
    pub bbox: String,
}

#[derive(Clone, Copy, Debug)]
pub struct Limits {
    pub loop_limit: u32,
    pub var_limit: u32,
    pub depth_limit: u32,
}

impl Default for Limits {
    fn default() -> Self {
        Limits { loop_limit: 1000, var_limit: 1024, depth_limit: 100 }
    }
}

pub fn run_impl(xml: &str, lim: Limits) -> Run {
    let cfg = svgdx::TransformConfig { loop_limit: lim.loop_limit, var_limit: lim.var_limit, depth_limit: lim.depth_limit, ..Default::default() };
    let input = xml.as_bytes().to_vec();
    let r = std::panic::catch_unwind(move || hooks::transform_probe(&input, &cfg));
    match r {
        Err(p) => {
            let msg = p.downcast_ref::<String>().cloned().or_else(|| p.downcast_ref::<&str>().map(|s| s.to_string())).unwrap_or("panic".into());
            Run { status: format!("panic:{msg}"), depth: 0, scope_height: 0, elem_stack: 0, in_specs: false, events: vec![], output: String::new(), outside: false, bbox: String::new() }
        }
        Ok(p) => {
            let (status, output) = match &p.result {
                Ok(bytes) => ("ok".to_string(), String::from_utf8_lossy(bytes).to_string()),
                Err(e) => (format!("err:{}", err_kind(e)), String::new()),
            };
            let events = if status == "ok" { element_events(&output).unwrap_or_else(|e| vec![format!("unparseable:{e}")]) } else { vec![] };
            Run { status, depth: p.depth as u64, scope_height: p.scope_height as u64, elem_stack: p.element_stack_height as u64, in_specs: p.in_specs, events, output, outside: false, bbox: String::new() }
        }
    }
}

pub fn run_model(drv: &mut Driver, nodes: &[X], lim: Limits) -> Result<Run, String> {
    let toks = doc_toks(nodes);
    let mut args: Vec<String> = vec![lim.loop_limit.to_string(), lim.var_limit.to_string(), lim.depth_limit.to_string()];
    args.extend(toks);
    let argr: Vec<&str> = args.iter().map(|s| s.as_str()).collect();
    let f = drv.call("ctl_doc", &argr)?;
    if f.len() < 7 {
        return Err(format!("short ctl_doc response: {f:?}"));
    }
    let events: Vec<String> = f[7..].iter().filter(|e| e.starts_with("S ") || e.starts_with("L ") || e.starts_with("E ")).cloned().collect();
    Ok(Run {
        status: f[0].clone(),
        depth: f[1].parse().unwrap_or(0),
        scope_height: f[2].parse().unwrap_or(0),
        elem_stack: f[3].parse().unwrap_or(0),
        in_specs: f[4] == "1",
        outside: f[5] == "1",
        bbox: f[6].clone(),
        events,
        output: String::new(),
    })
}

/// do implementation and model agree? (status kind, end-of-run probe, element events)
/// documents on which model and implementation agreed only up to the rounding of off-grid numbers
pub static OFF_GRID_TOLERATED: std::sync::atomic::AtomicU64 = std::sync::atomic::AtomicU64::new(0);

/// same events, field for field, except numeric attribute values that differ by at most 0.0025 - and
/// only if the model itself printed a number with three decimals (so a rounding has taken place)
fn events_close(a: &[String], b: &[String]) -> bool {
    if a.len() != b.len() { return false; }
    let three = |v: &str| v.rsplit_once('.').map(|(_, f)| f.len() >= 3 && f.bytes().all(|c| c.is_ascii_digit())).unwrap_or(false);
    if !b.iter().any(|e| e.split('\u{1f}').any(three)) { return false; }
    for (x, y) in a.iter().zip(b.iter()) {
        if x == y { continue; }
        let (fx, fy): (Vec<&str>, Vec<&str>) = (x.split('\u{1f}').collect(), y.split('\u{1f}').collect());
        if fx.len() != fy.len() { return false; }
        for (p, q) in fx.iter().zip(fy.iter()) {
            if p == q { continue; }
            match (p.parse::<f64>(), q.parse::<f64>()) {
                (Ok(u), Ok(v)) if (u - v).abs() <= 0.0025 => {}
                _ => return false,
            }
        }
    }
    true
}

pub fn agree(i: &Run, m: &Run) -> Result<(), String> {
    let limit_kind = |s: &str| s.contains("LimitE") ;
    if i.status.starts_with("ok") != m.status.starts_with("ok") {
        return Err(format!("status: impl {} vs model {}", i.status, m.status));
    }
    if (limit_kind(&i.status) || limit_kind(&m.status)) && i.status != m.status {
        return Err(format!("error kind: impl {} vs model {}", i.status, m.status));
    }
    if i.depth != m.depth || i.elem_stack != m.elem_stack || i.in_specs != m.in_specs || i.scope_height.max(1) != m.scope_height.max(1) {
        return Err(format!("end-of-run state: impl depth={} scopes={} stack={} specs={} vs model depth={} scopes={} stack={} specs={}",
            i.depth, i.scope_height, i.elem_stack, i.in_specs, m.depth, m.scope_height, m.elem_stack, m.in_specs));
    }
    if i.status == "ok" && i.events != m.events && events_close(&i.events, &m.events) {
        // the model computes on exact rationals, the code in f32 with every written number rounded to
        // three decimals: once a value with a third decimal has been written (the document has left the
        // grid on which both are exact) later digits may differ by rounding (DESIGN §3.2)
        OFF_GRID_TOLERATED.fetch_add(1, std::sync::atomic::Ordering::Relaxed);
        return Ok(());
    }
    if i.status == "ok" && i.events != m.events {
        let idx = i.events.iter().zip(m.events.iter()).position(|(a, b)| a != b).unwrap_or(i.events.len().min(m.events.len()));
        return Err(format!("output event {idx}: impl {:?} vs model {:?} (lengths {} / {})", i.events.get(idx), m.events.get(idx), i.events.len(), m.events.len()));
    }
    Ok(())
}
