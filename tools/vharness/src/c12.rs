//! C12 — containment: surround encloses, inside is enclosed.
use crate::c09::{native_el, out_box, B};
use crate::driver::Driver;
use crate::geom::*;
use crate::report::*;
use crate::rng::Rng;
use crate::util::*;
use serde_json::json;

const SQRT2_F32: f64 = 1.41421353816986083984375;
const FRAC_1_SQRT2_F32: f64 = 0.707106769084930419921875;

#[derive(Clone)]
struct Node {
    el: El,
    bx: B,
}

fn margin(rng: &mut Rng, allow_negative: bool) -> (String, Vec<(bool, f64)>) {
    let n = 1 + rng.below(4);
    let mut parts = vec![];
    let mut vals = vec![];
    for _ in 0..n {
        if rng.chance(1, 3) {
            let p = *rng.pick(&[0, 10, 25, 50]);
            parts.push(format!("{p}%"));
            vals.push((true, p as f64 / 100.0));
        } else {
            let v = rng.range(if allow_negative { -2 } else { 0 }, 8);
            parts.push(half(v));
            vals.push((false, v as f64 / 2.0));
        }
    }
    let sep = *rng.pick(&[" ", ", ", ","]);
    (parts.join(sep), vals)
}

/// CSS order expansion: top right bottom left
fn trbl(vals: &[(bool, f64)], base: f64) -> [f64; 4] {
    let ev = |v: (bool, f64)| if v.0 { base * v.1 } else { v.1 };
    match vals.len() {
        1 => [ev(vals[0]); 4],
        2 => [ev(vals[0]), ev(vals[1]), ev(vals[0]), ev(vals[1])],
        3 => [ev(vals[0]), ev(vals[1]), ev(vals[2]), ev(vals[1])],
        _ => [ev(vals[0]), ev(vals[1]), ev(vals[2]), ev(vals[3])],
    }
}

struct Case {
    doc: String,
    nodes: Vec<Node>,
    container: El,
    kind: &'static str, // surround | inside
    refs: Vec<usize>,
    /// area each referenced element offers (surround: its box; inside: its inscribed area)
    areas: Vec<B>,
    grown: Option<B>, // union grown / intersection shrunk
}

fn gen_case(rng: &mut Rng) -> Case {
    let n = 1 + rng.below(4);
    let mut nodes: Vec<Node> = vec![];
    for i in 0..n {
        let shape = *rng.pick(&["rect", "rect", "circle", "ellipse"]);
        let hb = gen_box(rng, shape == "circle");
        let mut el = El::new(shape);
        el.push("id", &format!("r{i}"));
        let b = hb.f();
        for (k, v) in native_el(shape, &b) {
            el.push(&k, &v);
        }
        nodes.push(Node { el, bx: b });
    }
    let kind = if rng.chance(3, 5) { "surround" } else { "inside" };
    let cshape = *rng.pick(&["rect", "rect", "circle", "ellipse"]);
    if kind == "surround" {
        // elements whose box has no area - an axis-parallel line, a rect of size zero - still have an extent
        // that the surround must enclose, wherever they stand in the list
        for i in 0..n {
            if !rng.chance(1, 4) { continue; }
            let b = nodes[i].bx;
            let mut el;
            let bx: B;
            match rng.below(4) {
                0 => { el = El::new("line"); bx = [b[0], b[1], b[2], b[1]]; }
                1 => { el = El::new("line"); bx = [b[2], b[1], b[2], b[3]]; }
                2 => { el = El::new("line"); bx = b; }
                _ => { el = El::new("rect"); bx = [b[2], b[3], b[2], b[3]]; }
            }
            el.push("id", &format!("r{i}"));
            if el.name == "line" {
                for (k, v) in [("x1", bx[0]), ("y1", bx[1]), ("x2", bx[2]), ("y2", bx[3])] { el.push(k, &fstr_ref(v)); }
            } else {
                for (k, v) in native_el("rect", &bx) { el.push(&k, &v); }
            }
            nodes[i] = Node { el, bx };
        }
    }
    let mut refs: Vec<usize> = (0..n).filter(|_| rng.chance(2, 3)).collect();
    if refs.is_empty() {
        refs.push(rng.below(n));
    }
    if kind == "inside" && !rng.chance(1, 8) {
        // make the areas overlap: re-centre the referenced shapes near each other
        // one case in eight leaves the FIRST listed area where it is (far from the others, which overlap one
        // another): an intersection that is empty half-way through the list stays empty
        let keep_first_apart = refs.len() >= 3 && rng.chance(1, 8);
        for (k, &i) in refs.iter().enumerate() {
            if keep_first_apart && k == 0 { continue; }
            let w = nodes[i].bx[2] - nodes[i].bx[0];
            let h = nodes[i].bx[3] - nodes[i].bx[1];
            let (cx, cy) = (10.0 + k as f64, 20.0 - k as f64);
            let b = [cx - w / 2.0, cy - h / 2.0, cx + w / 2.0, cy + h / 2.0];
            let shape = nodes[i].el.name.clone();
            let mut el = El::new(&shape);
            el.push("id", &format!("r{i}"));
            for (k, v) in native_el(&shape, &b) {
                el.push(&k, &v);
            }
            nodes[i] = Node { el, bx: b };
        }
    }
    let mut c = El::new(cshape);
    c.push("id", "c");
    let sep = *rng.pick(&[" ", ", ", ","]);
    c.push(kind, &refs.iter().map(|i| format!("#r{i}")).collect::<Vec<_>>().join(sep));
    let areas: Vec<B> = refs
        .iter()
        .map(|&i| {
            let b = nodes[i].bx;
            if kind == "inside" && cshape == "rect" && nodes[i].el.name != "rect" {
                let (cx, cy) = ((b[0] + b[2]) / 2.0, (b[1] + b[3]) / 2.0);
                let (rx, ry) = ((b[2] - b[0]) / 2.0 * FRAC_1_SQRT2_F32, (b[3] - b[1]) / 2.0 * FRAC_1_SQRT2_F32);
                [cx - rx, cy - ry, cx + rx, cy + ry]
            } else {
                b
            }
        })
        .collect();
    let mut acc: Option<B> = Some(areas[0]);
    for a in &areas[1..] {
        acc = acc.and_then(|u| {
            if kind == "surround" {
                Some([u[0].min(a[0]), u[1].min(a[1]), u[2].max(a[2]), u[3].max(a[3])])
            } else {
                let r = [u[0].max(a[0]), u[1].max(a[1]), u[2].min(a[2]), u[3].min(a[3])];
                if r[2] - r[0] >= 0.0 && r[3] - r[1] >= 0.0 { Some(r) } else { None }
            }
        });
    }
    if rng.chance(2, 3) {
        let (m, vals) = margin(rng, kind == "surround");
        c.push("margin", &m);
        acc = acc.map(|u| {
            let (w, h) = (u[2] - u[0], u[3] - u[1]);
            if kind == "surround" {
                let t = trbl(&vals, w.max(h));
                [u[0] - t[3], u[1] - t[0], u[2] + t[1], u[3] + t[2]]
            } else {
                let t = trbl(&vals, w.min(h));
                [u[0] + t[3], u[1] + t[0], u[2] - t[1], u[3] - t[2]]
            }
        });
    }
    let mut all: Vec<String> = nodes.iter().map(|n| format!("  {}", n.el.xml())).collect();
    all.push(format!("  {}", c.xml()));
    Case { doc: format!("<svg>\n{}\n</svg>", all.join("\n")), nodes, container: c, kind, refs, areas, grown: acc }
}

fn attrs_close(a: &El, b: &El) -> bool {
    if a.name != b.name || a.attrs.len() != b.attrs.len() {
        return false;
    }
    a.attrs.iter().zip(&b.attrs).all(|((k1, v1), (k2, v2))| {
        k1 == k2 && (v1 == v2 || matches!((v1.parse::<f64>(), v2.parse::<f64>()), (Ok(x), Ok(y)) if (x - y).abs() <= 0.0011))
    })
}

/// the property on the implementation's output for one case; None = holds
fn oracle(case: &Case, outs: &[OutEl]) -> Option<String> {
    let c = outs.iter().find(|o| o.el.get("id") == Some("c"))?;
    for k in ["surround", "inside", "margin"] {
        if c.el.get(k).is_some() {
            return Some(format!("attribute {k} left in the output: {}", c.el.xml()));
        }
    }
    let Some(g) = case.grown else {
        // the listed areas have no point in common: nothing can lie within all of them, so the element
        // must not be given a place (the code leaves it without geometry)
        if case.kind == "inside" {
            if let Some(ob) = out_box(&c.el) {
                if c.el.get("width").is_some() || c.el.get("r").is_some() || c.el.get("rx").is_some() {
                    return Some(format!("the listed areas do not intersect, yet the element was placed at {:?}: {}", ob, c.el.xml()));
                }
            }
        }
        return None;
    };
    let tol = 0.0021;
    let Some(ob) = out_box(&c.el) else { return Some(format!("container has no geometry: {}", c.el.xml())) };
    let shape = c.el.name.as_str();
    if case.kind == "surround" {
        match shape {
            "rect" => {
                if !ob.iter().zip(&g).all(|(x, y)| (x - y).abs() <= 0.0011) {
                    return Some(format!("surrounding rect is {:?}, union grown by margin is {:?}", ob, g));
                }
            }
            _ => {
                let (cx, cy) = ((ob[0] + ob[2]) / 2.0, (ob[1] + ob[3]) / 2.0);
                let (rx, ry) = ((ob[2] - ob[0]) / 2.0, (ob[3] - ob[1]) / 2.0);
                if ((cx - (g[0] + g[2]) / 2.0).abs() > tol) || ((cy - (g[1] + g[3]) / 2.0).abs() > tol) {
                    return Some(format!("surrounding {shape} is not centred on the grown box {:?}: {}", g, c.el.xml()));
                }
                for (px, py) in [(g[0], g[1]), (g[2], g[1]), (g[0], g[3]), (g[2], g[3])] {
                    let d = ((px - cx) / rx).powi(2) + ((py - cy) / ry).powi(2);
                    if d > 1.0 + 1e-3 && (rx > 0.01 && ry > 0.01) {
                        return Some(format!("corner ({px},{py}) of the grown box {:?} lies outside the surrounding {shape} {}", g, c.el.xml()));
                    }
                }
            }
        }
    } else {
        // inside: the element lies within the shrunk intersection
        match shape {
            "rect" => {
                if !ob.iter().zip(&g).all(|(x, y)| (x - y).abs() <= 0.0011) {
                    return Some(format!("inside rect is {:?}, intersection shrunk by margin is {:?}", ob, g));
                }
            }
            _ => {
                if ob[0] < g[0] - tol || ob[1] < g[1] - tol || ob[2] > g[2] + tol || ob[3] > g[3] + tol {
                    return Some(format!("inside {shape} {:?} sticks out of the shrunk intersection {:?}", ob, g));
                }
            }
        }
    }
    None
}

fn stream(rep: &mut Report, drv: &mut Driver, rng: &mut Rng, n: usize) -> Result<(), String> {
    let mut corr = Stream::new(
        "doc/containment",
        "correspondence",
        "1-4 referenced rect/circle/ellipse shapes, then a rect/circle/ellipse container with surround= or inside= over a random non-empty sublist, margin of 1-4 values (absolute, negative for surround, percent), separators space/comma; transform_str output vs the Lean model, attribute for attribute (numeric values within 0.0011 where the irrational constants enter); non-trivial = every case",
    );
    let mut orc = Stream::new(
        "oracle/containment",
        "oracle",
        "same documents; rect container = union grown / intersection shrunk exactly; circle/ellipse container centred and enclosing the grown box's corners (surround) or within the shrunk intersection (inside); surround/inside/margin absent from the output",
    );
    let cfg = default_cfg();
    for _ in 0..n {
        let case = gen_case(rng);
        let doc = &case.doc;
        corr.case(doc, true, || json!({"document": doc}));
        orc.case(doc, true, || json!({"document": doc, "grown_box": case.grown.map(|b| b.to_vec())}));
        corr.tally(&format!("kind={}", case.kind));
        corr.tally(&format!("container={}", case.container.name));
        corr.tally(&format!("refs={}", case.refs.len()));
        if case.grown.is_none() {
            corr.tally("empty-intersection");
        }
        let mut els: Vec<String> = case.nodes.iter().map(|n| n.el.encode()).collect();
        els.push(case.container.encode());
        let elr: Vec<&str> = els.iter().map(|s| s.as_str()).collect();
        let m = drv.call("resolve_doc", &elr)?;
        match transform(doc, &cfg) {
            Err(p) => rep.violation(Violation { kind: "oracle", stream: orc.name.clone(), signature: "C12:panic".into(), what: format!("panic: {p}"), replay: json!({"input": doc}), confirmed_on_impl: true }),
            Ok(Err(e)) => {
                if m.iter().any(|f| f.starts_with("err:")) {
                    corr.errors_agreed += 1;
                } else {
                    rep.violation(Violation { kind: "correspondence", stream: corr.name.clone(), signature: "doc:impl-error".into(), what: format!("implementation fails ({e}) where the model succeeds"), replay: json!({"input": doc}), confirmed_on_impl: false });
                }
                rep.violation(Violation { kind: "oracle", stream: orc.name.clone(), signature: format!("C12:error:{}", err_kind(&e)), what: format!("transform failed on a valid containment document: {e}"), replay: json!({"input": doc}), confirmed_on_impl: true });
            }
            Ok(Ok(out)) => {
                let outs = match parse_elements(&out) { Ok(o) => o, Err(e) => { rep.violation(Violation { kind: "oracle", stream: orc.name.clone(), signature: "C12:unparseable".into(), what: e, replay: json!({"input": doc}), confirmed_on_impl: true }); continue; } };
                let shapes: Vec<&OutEl> = outs.iter().filter(|o| ["rect", "circle", "ellipse", "line"].contains(&o.el.name.as_str())).collect();
                let imp: Vec<El> = shapes.iter().map(|o| o.el.clone()).collect();
                let mdl: Vec<El> = m.iter().map(|f| El::decode(f)).collect();
                if imp == mdl {
                    corr.exact += 1;
                } else if imp.len() == mdl.len() && imp.iter().zip(&mdl).all(|(a, b)| attrs_close(a, b)) {
                    corr.tolerance += 1;
                } else {
                    rep.violation(Violation { kind: "correspondence", stream: corr.name.clone(), signature: format!("doc:{}:{}", case.kind, case.container.name),
                        what: format!("impl {:?} vs model {:?}", imp.last().map(|e| e.xml()), mdl.last().map(|e| e.xml())), replay: json!({"input": doc, "model": m}), confirmed_on_impl: false });
                }
                if let Some(what) = oracle(&case, &outs) {
                    rep.violation(Violation { kind: "oracle", stream: orc.name.clone(), signature: format!("C12:{}:{}", case.kind, case.container.name), what, replay: json!({"input": doc, "grown_box": case.grown.map(|b| b.to_vec()), "areas": case.areas.iter().map(|b| b.to_vec()).collect::<Vec<_>>()}), confirmed_on_impl: true });
                } else {
                    orc.exact += 1;
                }
            }
        }
    }
    rep.streams.push(corr);
    rep.streams.push(orc);
    Ok(())
}

pub fn run(rep: &mut Report, tier: &str, seed: u64) -> Result<(), String> {
    let mut rng = Rng::new(seed);
    let mut drv = Driver::start()?;
    let n = if tier == "thorough" { 60_000 } else { 2_000 };
    stream(rep, &mut drv, &mut rng.fork(), n)?;
    Ok(())
}
