//! C18 — reuse instantiates templates as if written out by hand.
//!
//!  * doc/reuse (correspondence): documents with templates (single shapes, groups, symbols, nested reuse;
//!    in <specs>, in <defs> or inline; before or after their use) and sequences of <reuse> elements with
//!    different bindings, ids, classes, styles, offsets and attribute overrides: transform_str (events +
//!    end-of-run probe) vs the Lean control-skeleton model (`genReuse`);
//!  * oracle/inlined: the same document with every <reuse> replaced by the template written out by hand
//!    (values substituted textually, reuse id / style / classes + template id as a class, placed at x/y):
//!    both documents must render the same elements (attributes and class tokens compared as sets);
//!    content of <specs> must not appear in the output.
use crate::ctl::*;
use crate::driver::Driver;
use crate::report::*;
use crate::rng::Rng;
use crate::util::*;
use serde_json::json;

#[derive(Clone, Debug)]
enum Body {
    Shape(X),
    Group(Vec<X>),
    Symbol(Vec<X>),
}

#[derive(Clone, Debug)]
struct Tpl {
    id: String,
    body: Body,
    classes: Vec<String>,
    params: Vec<&'static str>,
    /// 0 = specs, 1 = defs, 2 = inline (literal defaults, rendered where it stands)
    place: u8,
    after: bool,
    /// an attribute of the template a reuse may override
    overridable: Option<(&'static str, String)>,
}

#[derive(Clone, Debug)]
struct Inst {
    tpl: usize,
    binds: Vec<(String, String)>,
    id: Option<String>,
    classes: Vec<String>,
    style: Option<String>,
    xy: Option<(f64, f64)>,
    over: Option<(String, String)>,
    /// relative placement (rect templates only): replaces x / y
    rel: Option<String>,
}

fn num(rng: &mut Rng, lo: i64, hi: i64) -> f64 {
    rng.range(lo, hi) as f64 / 2.0
}

fn subst(s: &str, binds: &[(String, String)]) -> String {
    // `${name}` first, then `$name` (longest names first so `$w` does not eat `$wide`)
    let mut out = s.to_string();
    let mut names: Vec<&(String, String)> = binds.iter().collect();
    names.sort_by_key(|(k, _)| std::cmp::Reverse(k.len()));
    for (k, v) in &names {
        out = out.replace(&format!("${{{k}}}"), v);
    }
    for (k, v) in &names {
        out = out.replace(&format!("${k}"), v);
    }
    out
}

fn subst_x(x: &X, binds: &[(String, String)]) -> X {
    match x {
        X::El { name, attrs, kids } => X::El {
            name: name.clone(),
            attrs: attrs.iter().map(|(k, v)| (k.clone(), subst(v, binds))).collect(),
            kids: kids.as_ref().map(|ks| ks.iter().map(|k| subst_x(k, binds)).collect()),
        },
        X::Text(t) => X::Text(subst(t, binds)),
        other => other.clone(),
    }
}

fn gen_tpl(rng: &mut Rng, i: usize, earlier: &[Tpl], defaults: bool) -> Tpl {
    let id = format!("t{i}");
    let place = rng.below(3) as u8;
    // inline templates are rendered themselves, so they only use literal values - unless the document
    // defines defaults for every parameter (then the template can be resolved where it stands, and an
    // instance must still start from the unevaluated original)
    let lit = place == 2 && !defaults;
    let v = |rng: &mut Rng, name: &str, lit_val: &str| -> String {
        // numeric parameters are sometimes used through an expression: evaluating the copy then fails
        // (instead of leaving a literal "$w") when the reuse element does not bind them
        if lit { lit_val.to_string() }
        else if name != "label" && name != "kind" && rng.chance(1, 4) { format!("{{{{${name}}}}}") }
        else if rng.chance(1, 4) { format!("${{{name}}}") } else { format!("${name}") }
    };
    let mut params: Vec<&'static str> = vec![];
    let mut classes = vec![];
    if rng.chance(1, 2) { classes.push(format!("k{i}")); }
    let mut overridable = None;
    let mut shape = |rng: &mut Rng, params: &mut Vec<&'static str>, with_id: bool| -> X {
        let mut attrs: Vec<(String, String)> = vec![];
        if with_id { attrs.push(("id".into(), id.clone())); }
        let kind = rng.below(4);
        let name = match kind {
            0 if !lit && rng.chance(1, 5) => {
                // the width comes from an element the reuse element names: `ref="#anchor"`
                attrs.push(("width".into(), "{{$ref~w}}".into()));
                attrs.push(("height".into(), v(rng, "h", "4")));
                params.push("ref"); params.push("h");
                "rect"
            }
            0 => {
                if rng.chance(1, 2) { attrs.push(("wh".into(), format!("{} {}", v(rng, "w", "6"), v(rng, "h", "4")))); }
                else { attrs.push(("width".into(), v(rng, "w", "6"))); attrs.push(("height".into(), v(rng, "h", "4"))); }
                params.push("w"); params.push("h");
                if rng.chance(1, 2) { attrs.push(("text".into(), v(rng, "label", "name"))); params.push("label"); }
                "rect"
            }
            1 => { attrs.push(("r".into(), v(rng, "r", "3"))); params.push("r"); "circle" }
            2 => { attrs.push(("rx".into(), v(rng, "a", "5"))); attrs.push(("ry".into(), v(rng, "b", "2"))); params.push("a"); params.push("b"); "ellipse" }
            _ => { attrs.push(("xy1".into(), "0 0".into())); attrs.push(("xy2".into(), format!("{} {}", v(rng, "w", "6"), v(rng, "h", "4")))); params.push("w"); params.push("h"); "line" }
        };
        if with_id && rng.chance(1, 3) {
            let (k, val) = *rng.pick(&[("stroke-width", "2"), ("opacity", "0.5"), ("data-role", "cell")]);
            attrs.push((k.into(), val.into()));
            overridable = Some((k, val.to_string()));
        }
        // a style of the template's own: the reuse element's style, when it has one, replaces it
        if with_id && rng.chance(1, 4) { attrs.push(("style".into(), "stroke: blue".into())); }
        if with_id && !classes.is_empty() { attrs.push(("class".into(), classes.join(" "))); }
        if with_id && !lit && rng.chance(1, 3) { attrs.push(("class".into(), format!("{} c-$kind", classes.join(" ")).trim().to_string())); params.push("kind"); attrs.retain(|(k, vv)| !(k == "class" && !vv.contains("c-$kind"))); }
        X::El { name: name.into(), attrs, kids: None }
    };
    let body = match rng.below(if earlier.iter().any(|t| matches!(t.body, Body::Shape(_)) && t.place != 2 && !t.after) { 5 } else { 4 }) {
        0 | 1 => Body::Shape(shape(rng, &mut params, true)),
        2 => {
            let k = 1 + rng.below(3);
            let mut kids = vec![];
            for j in 0..k {
                let mut s = shape(rng, &mut params, false);
                // spread the content a little (content is relative to the group's origin)
                if let X::El { name, attrs, .. } = &mut s {
                    if name == "rect" { attrs.push(("xy".into(), format!("{} {}", j * 3, j * 2))); }
                }
                kids.push(s);
            }
            Body::Group(kids)
        }
        3 => {
            let mut kids = vec![shape(rng, &mut params, false)];
            if rng.chance(1, 2) { kids.push(shape(rng, &mut params, false)); }
            Body::Symbol(kids)
        }
        _ => {
            // a group that itself reuses an earlier shape template
            let cands: Vec<&Tpl> = earlier.iter().filter(|t| matches!(t.body, Body::Shape(_)) && t.place != 2 && !t.after).collect();
            let t = cands[rng.below(cands.len())];
            let mut attrs: Vec<(String, String)> = vec![("href".into(), format!("#{}", t.id))];
            for p in &t.params {
                let val = match *p { "label" => "inner".to_string(), "kind" => "n".to_string(), "ref" => "#anchor".to_string(), _ => fstr_ref(2.0 + rng.below(6) as f64) };
                attrs.push((p.to_string(), val));
            }
            attrs.push(("x".into(), v(rng, "off", "2")));
            attrs.push(("y".into(), "1".into()));
            params.push("off");
            Body::Group(vec![X::El { name: "reuse".into(), attrs, kids: None }, shape(rng, &mut params, false)])
        }
    };
    params.sort();
    params.dedup();
    let classes = match &body { Body::Shape(X::El { attrs, .. }) => attrs.iter().find(|(k, _)| k == "class").map(|(_, v)| v.split_whitespace().map(|s| s.to_string()).collect()).unwrap_or_default(), _ => classes };
    Tpl { id, body, classes, params, place, after: rng.chance(1, 4), overridable }
}

fn tpl_x(t: &Tpl) -> X {
    let mut gattrs: Vec<(String, String)> = vec![("id".into(), t.id.clone())];
    if !t.classes.is_empty() { gattrs.push(("class".into(), t.classes.join(" "))); }
    let inner = match &t.body {
        Body::Shape(x) => x.clone(),
        Body::Group(kids) => X::El { name: "g".into(), attrs: gattrs, kids: Some(kids.clone()) },
        Body::Symbol(kids) => X::El { name: "symbol".into(), attrs: gattrs, kids: Some(kids.clone()) },
    };
    match t.place {
        0 => X::node("specs", &[], vec![inner]),
        1 => X::node("defs", &[], vec![inner]),
        _ => inner,
    }
}

fn gen_inst(rng: &mut Rng, tpls: &[Tpl], n: usize, defaults: bool) -> Inst {
    let ti = rng.below(tpls.len());
    let t = &tpls[ti];
    let mut binds = vec![];
    for p in &t.params {
        let val = match *p {
            "label" => rng.pick(&["alpha", "b c", "x1"]).to_string(),
            "kind" => rng.pick(&["a", "b", "zz"]).to_string(),
            "ref" => "#anchor".to_string(),
            _ => fstr_ref(2.0 * (1 + rng.below(8)) as f64),
        };
        binds.push((p.to_string(), val));
    }
    // now and then a binding is forgotten: the instantiation (and the hand-written form, which then
    // still mentions the variable) must fail cleanly, leaving no scope behind
    if !defaults && binds.len() > 1 && rng.chance(1, 12) {
        let k = rng.below(binds.len());
        if binds[k].0 != "label" && binds[k].0 != "kind" { binds.remove(k); }
    }
    let mut classes = if rng.chance(1, 2) { vec![format!("u{}", rng.below(3))] } else { vec![] };
    // a class of the reuse element written in terms of a variable that this very element binds: it belongs
    // to the reuse element, so it is evaluated where that stands (document-level value "d"), not inside its bindings
    if defaults && rng.chance(1, 2) {
        classes.push((*rng.pick(&["v-$kind", "v-${kind}"])).to_string());
        if !binds.iter().any(|(k, _)| k == "kind") { binds.push(("kind".to_string(), "q9".to_string())); }
    }
    Inst {
        tpl: ti,
        binds,
        id: if rng.chance(1, 2) { Some(format!("i{n}")) } else { None },
        classes,
        style: if rng.chance(1, 4) { Some("fill: red".into()) } else { None },
        xy: if rng.chance(5, 6) { Some((num(rng, -40, 40), num(rng, -40, 40))) } else { None },
        over: match &t.overridable { Some((k, _)) if rng.chance(1, 2) => Some((k.to_string(), rng.pick(&["3", "0.25", "head"]).to_string())), _ => None },
        rel: match &t.body {
            // a direction form needs the size of the reuse element itself, which the code takes from the
            // registered (unparameterised) target: only literal templates get those (with a parameterised
            // size the transform fails with an error - a limitation, reported loudly, not judged here)
            Body::Shape(X::El { name, .. }) if name == "rect" && !defaults && rng.chance(1, 4) =>
                Some(format!("#anchor{}", if t.place == 2 { *rng.pick(&["|h 2", "|V 1", "@br 1 1", "|v", "@tl -3 2"]) } else { *rng.pick(&["@br 1 1", "@tl -3 2", "@c", "@r:25%"]) })),
            _ => None,
        },
    }
}

fn reuse_x(t: &Tpl, i: &Inst) -> X {
    let mut attrs: Vec<(String, String)> = vec![];
    if let Some(id) = &i.id { attrs.push(("id".into(), id.clone())); }
    attrs.push(("href".into(), format!("#{}", t.id)));
    if let Some(r) = &i.rel { attrs.push(("xy".into(), r.clone())); }
    else if let Some((x, y)) = i.xy { attrs.push(("x".into(), fstr_ref(x))); attrs.push(("y".into(), fstr_ref(y))); }
    for (k, v) in &i.binds { attrs.push((k.clone(), v.clone())); }
    if let Some((k, v)) = &i.over { attrs.push((k.clone(), v.clone())); }
    if !i.classes.is_empty() { attrs.push(("class".into(), i.classes.join(" "))); }
    if let Some(s) = &i.style { attrs.push(("style".into(), s.clone())); }
    X::El { name: "reuse".into(), attrs, kids: None }
}

/// the template written out by hand for one instantiation
fn inline_x(tpls: &[Tpl], t: &Tpl, i: &Inst) -> X {
    let mut classes: Vec<String> = t.classes.iter().map(|c| subst(c, &i.binds)).collect();
    classes.extend(i.classes.iter().map(|c| c.replace("${kind}", "d").replace("$kind", "d")));
    classes.push(t.id.clone());
    let dress = |attrs: &mut Vec<(String, String)>| {
        attrs.retain(|(k, _)| k != "id" && k != "class");
        if let Some(id) = &i.id { attrs.insert(0, ("id".into(), id.clone())); }
        attrs.push(("class".into(), classes.join(" ")));
        if let Some(s) = &i.style { attrs.retain(|(k, _)| k != "style"); attrs.push(("style".into(), s.clone())); }
        if let Some((k, v)) = &i.over { for a in attrs.iter_mut() { if a.0 == *k { a.1 = v.clone(); } } }
    };
    // nested reuse inside a group template is written out as well
    let expand = |k: &X| -> X {
        let k = subst_x(k, &i.binds);
        if let X::El { name, attrs, .. } = &k {
            if name == "reuse" {
                let href = attrs.iter().find(|(a, _)| a == "href").map(|(_, v)| v.trim_start_matches('#').to_string()).unwrap_or_default();
                if let Some(t2) = tpls.iter().find(|t| t.id == href) {
                    let g = |n: &str| attrs.iter().find(|(a, _)| a == n).and_then(|(_, v)| v.replace("{{", "").replace("}}", "").trim().parse::<f64>().ok());
                    let inner = Inst {
                        tpl: 0,
                        binds: attrs.iter().filter(|(a, _)| !["href", "x", "y"].contains(&a.as_str())).cloned().collect(),
                        id: None, classes: vec![], style: None,
                        xy: match (g("x"), g("y")) { (Some(x), Some(y)) => Some((x, y)), _ => None },
                        over: None,
                        rel: None,
                    };
                    return inline_x(tpls, t2, &inner);
                }
            }
        }
        k
    };
    match &t.body {
        Body::Shape(x) => {
            let X::El { name, attrs, .. } = subst_x(x, &i.binds) else { unreachable!() };
            let mut attrs = attrs;
            let unbrace = |v: &str| -> String { v.replace("{{", "").replace("}}", "") };
            let val = |attrs: &Vec<(String, String)>, k: &str| -> f64 { attrs.iter().find(|(a, _)| a == k).and_then(|(_, v)| unbrace(v).trim().parse::<f64>().ok()).unwrap_or(0.0) };
            if let Some(r) = &i.rel {
                attrs.push(("xy".into(), r.clone()));
            } else if let Some((x, y)) = i.xy {
                match name.as_str() {
                    "rect" => { attrs.push(("x".into(), fstr_ref(x))); attrs.push(("y".into(), fstr_ref(y))); }
                    "circle" => { let r = val(&attrs, "r"); attrs.push(("cx".into(), fstr_ref(x + r))); attrs.push(("cy".into(), fstr_ref(y + r))); }
                    "ellipse" => { let (a, b) = (val(&attrs, "rx"), val(&attrs, "ry")); attrs.push(("cx".into(), fstr_ref(x + a))); attrs.push(("cy".into(), fstr_ref(y + b))); }
                    _ => {
                        let p2 = attrs.iter().find(|(a, _)| a == "xy2").map(|(_, v)| v.clone()).unwrap_or_default();
                        let ws: Vec<f64> = unbrace(&p2).split_whitespace().filter_map(|v| v.parse().ok()).collect();
                        attrs.retain(|(a, _)| a != "xy1" && a != "xy2");
                        attrs.push(("xy1".into(), format!("{} {}", fstr_ref(x), fstr_ref(y))));
                        attrs.push(("xy2".into(), format!("{} {}", fstr_ref(x + ws.first().copied().unwrap_or(0.0)), fstr_ref(y + ws.get(1).copied().unwrap_or(0.0)))));
                    }
                }
            }
            dress(&mut attrs);
            X::El { name, attrs, kids: None }
        }
        Body::Group(kids) | Body::Symbol(kids) => {
            let mut attrs: Vec<(String, String)> = vec![];
            if let Some((x, y)) = i.xy {
                if x != 0.0 || y != 0.0 { attrs.push(("transform".into(), format!("translate({}, {})", x as f32, y as f32))); }
            }
            dress(&mut attrs);
            X::El { name: "g".into(), attrs, kids: Some(kids.iter().map(expand).collect()) }
        }
    }
}

/// canonical form of the rendered elements: sorted attributes, sorted class tokens
fn canon(events: &[String]) -> Vec<String> {
    events.iter().map(|e| {
        if e.len() > 2 && (e.starts_with("L ") || e.starts_with("S ")) {
            let mut el = El::decode(&e[2..]);
            for a in el.attrs.iter_mut() {
                if a.0 == "class" { let mut t: Vec<&str> = a.1.split_whitespace().collect(); t.sort(); t.dedup(); a.1 = t.join(" "); }
            }
            format!("{}{}", &e[..2], el.sorted().encode())
        } else { e.clone() }
    }).collect()
}

/// (signature suffix, description) of every way the two documents differ; a reused `<line>` that is not
/// placed at x/y is classified separately (known finding) and the comparison goes on past it
pub fn judge(p_xml: &str, u_xml: &str, hidden_ids: &[String]) -> Vec<(String, String)> {
    let lim = Limits::default();
    let rp = run_impl(p_xml, lim);
    let ru = run_impl(u_xml, lim);
    let mut out = vec![];
    if rp.status != "ok" && (rp.scope_height > 1 || rp.elem_stack != 0 || rp.depth != 0) {
        out.push(("state-left-behind".into(), format!("the failed transform leaves {} variable scopes, {} elements and depth {} behind", rp.scope_height, rp.elem_stack, rp.depth)));
        return out;
    }
    if ru.status != "ok" && rp.status != "ok" { return out; }
    if ru.status != "ok" { out.push(("status".into(), format!("the document with reuse transforms while the hand-written one fails ({})", ru.status))); return out; }
    if rp.status != "ok" { out.push(("status".into(), format!("the document with reuse fails ({}) while the hand-written one transforms", rp.status))); return out; }
    if rp.scope_height > 1 || rp.elem_stack != 0 || rp.depth != 0 {
        out.push(("state-left-behind".into(), format!("after the transform {} variable scopes, {} elements and depth {} remain: an instance's bindings outlived it", rp.scope_height, rp.elem_stack, rp.depth)));
        return out;
    }
    let (cp, cu) = (canon(&rp.events), canon(&ru.events));
    if cp.len() != cu.len() {
        out.push(("count".into(), format!("{} elements with reuse, {} written out by hand", cp.len(), cu.len())));
        return out;
    }
    for (idx, (a, b)) in cp.iter().zip(cu.iter()).enumerate() {
        if a == b { continue; }
        let is_line = a.starts_with("L line\u{1f}") && b.starts_with("L line\u{1f}");
        if is_line {
            // same element apart from the coordinates?
            let strip = |e: &str| -> Vec<(String, String)> { El::decode(&e[2..]).attrs.into_iter().filter(|(k, _)| !["x1", "y1", "x2", "y2"].contains(&k.as_str())).collect() };
            if strip(a) == strip(b) {
                if !out.iter().any(|(s, _)| s == "line-template-placement") {
                    out.push(("line-template-placement".into(), format!("a reused <line> is not placed at the reuse element's x/y: with reuse {:?} vs written out by hand {:?}", a, b)));
                }
                continue;
            }
        }
        out.push(("instance".into(), format!("output element {idx}: with reuse {:?} vs written out by hand {:?}", a, b)));
        return out;
    }
    for e in &rp.events {
        if e.len() > 2 && (e.starts_with("L ") || e.starts_with("S ")) {
            let el = El::decode(&e[2..]);
            if let Some(id) = el.get("id") { if hidden_ids.iter().any(|h| h == id) { out.push(("specs-rendered".into(), format!("content of <specs> is rendered: #{id}"))); } }
        }
    }
    out
}

fn corpus(rep: &mut Report) {
    let mut st = Stream::new("corpus", "oracle", "files of /verif/corpus/C18 (past failures): the document with reuse and the hand-written one must render the same");
    let dir = std::path::Path::new("/verif/corpus/C18");
    let mut files: Vec<_> = std::fs::read_dir(dir).map(|d| d.filter_map(|e| e.ok()).map(|e| e.path()).collect()).unwrap_or_default();
    files.sort();
    for f in files {
        let Ok(txt) = std::fs::read_to_string(&f) else { continue };
        let Ok(v) = serde_json::from_str::<serde_json::Value>(&txt) else { continue };
        let name = f.file_name().map(|s| s.to_string_lossy().to_string()).unwrap_or_default();
        st.case(&name, true, || json!({"file": name}));
        let sig = v.get("signature").and_then(|s| s.as_str()).unwrap_or("C18:corpus").to_string();
        let js = judge_value(&v);
        if js.is_empty() { st.exact += 1; }
        for (_, what) in js { rep.violation(Violation { kind: "oracle", stream: "corpus".into(), signature: sig.clone(), what, replay: v.clone(), confirmed_on_impl: true }); }
    }
    rep.streams.push(st);
}

fn judge_value(v: &serde_json::Value) -> Vec<(String, String)> {
    let p = v.get("input").and_then(|s| s.as_str()).unwrap_or("");
    let u = v.get("written_out").and_then(|s| s.as_str()).unwrap_or("");
    let hidden: Vec<String> = v.get("specs_ids").and_then(|a| a.as_array()).map(|a| a.iter().filter_map(|x| x.as_str().map(|s| s.to_string())).collect()).unwrap_or_default();
    judge(p, u, &hidden)
}

pub fn replay(rep: &mut Report, v: &serde_json::Value) {
    let mut st = Stream::new("replay", "oracle", "one replay file judged against the implementation");
    st.case("replay", true, || v.clone());
    let js = judge_value(v);
    if js.is_empty() { st.exact += 1; }
    for (sig, what) in js { rep.violation(Violation { kind: "oracle", stream: "replay".into(), signature: format!("C18:{sig}"), what, replay: v.clone(), confirmed_on_impl: true }); }
    rep.streams.push(st);
}

pub fn run(rep: &mut Report, tier: &str, seed: u64) -> Result<(), String> {
    let mut rng = Rng::new(seed);
    let mut drv = Driver::start()?;
    let n = if tier == "thorough" { 30_000 } else { 1_500 };
    corpus(rep);
    let mut corr = Stream::new(
        "doc/reuse",
        "correspondence",
        "1-3 templates (rect / circle / ellipse / line, groups of them, symbols, groups containing a reuse of an earlier template; parameterised by variables in sizes, text and classes; inside <specs>, inside <defs> or inline; before or after their use; one document in three with document-level defaults for every parameter, so that a template can be resolved where it stands) and 1-5 <reuse> elements with different bindings, ids, classes, styles, x/y offsets (or none) and attribute overrides: transform_str (events + end-of-run probe) vs the Lean control-skeleton model; non-trivial = every case",
    );
    let mut orc = Stream::new(
        "oracle/inlined",
        "oracle",
        "the same documents with every <reuse> replaced by the template written out by hand (values substituted textually, reuse id / style / classes + template id as a class, shapes placed with the top-left of their box at x/y, groups translated): both documents render the same elements (attributes and class tokens compared as sets); nothing inside <specs> is rendered",
    );
    let lim = Limits::default();
    for _ in 0..n {
        let nt = 1 + rng.below(3);
        let mut tpls: Vec<Tpl> = vec![];
        // one document in three defines a default for every parameter name at the top
        let defaults = rng.chance(1, 3);
        for i in 0..nt { let t = gen_tpl(&mut rng, i, &tpls, defaults); tpls.push(t); }
        // a template used by another one must come first and not be deferred
        let ni = 1 + rng.below(5);
        let insts: Vec<Inst> = (0..ni).map(|k| gen_inst(&mut rng, &tpls, k, defaults)).collect();
        let mut p: Vec<X> = vec![];
        let mut u: Vec<X> = vec![];
        if defaults {
            let d = X::leaf("var", &[("w", "7"), ("h", "3"), ("r", "2.5"), ("a", "4"), ("b", "1.5"), ("label", "dflt"), ("kind", "d"), ("off", "1"), ("ref", "#anchor")]);
            p.push(d.clone());
            u.push(d);
            corr.tally("document-defaults");
        }
        let anchor = X::leaf("rect", &[("id", "anchor"), ("xy", "30 40"), ("wh", "10 4")]);
        let anchor_first = rng.chance(1, 2);
        if anchor_first { p.push(anchor.clone()); u.push(anchor.clone()); }
        for t in tpls.iter().filter(|t| !t.after) { p.push(tpl_x(t)); u.push(tpl_x(t)); }
        for i in &insts {
            let t = &tpls[i.tpl];
            p.push(reuse_x(t, i));
            u.push(inline_x(&tpls, t, i));
            // an element that refers to the instance by its id
            if let (Some(id), true) = (&i.id, rng.chance(1, 3)) {
                let f = X::leaf("circle", &[("cxy", &format!("#{id}@{}", rng.pick(&["c", "tr", "b"]))), ("r", "1")]);
                p.push(f.clone());
                u.push(f);
                corr.tally("follower-refers-to-instance");
            }
            if i.rel.is_some() { corr.tally(if anchor_first { "relative-placement" } else { "relative-placement-forward" }); }
        }
        if !anchor_first { p.push(anchor.clone()); u.push(anchor.clone()); }
        for t in tpls.iter().filter(|t| t.after) { p.push(tpl_x(t)); u.push(tpl_x(t)); }
        let p_xml = doc_xml(&p);
        let u_xml = doc_xml(&u);
        corr.case(&p_xml, true, || json!({"document": p_xml}));
        for t in &tpls {
            corr.tally(match &t.body { Body::Shape(_) => "tpl=shape", Body::Group(k) if k.iter().any(|x| matches!(x, X::El { name, .. } if name == "reuse")) => "tpl=nested-reuse", Body::Group(_) => "tpl=group", Body::Symbol(_) => "tpl=symbol" });
            corr.tally(match t.place { 0 => "place=specs", 1 => "place=defs", _ => "place=inline" });
            if t.after { corr.tally("template-after-use"); }
        }
        let imp = run_impl(&p_xml, lim);
        let mdl = run_model(&mut drv, &p, lim)?;
        corr.tally(&format!("impl={}", imp.status));
        if mdl.outside {
            corr.skipped += 1;
        } else {
            match agree(&imp, &mdl) {
                Ok(()) => corr.exact += 1,
                Err(what) => rep.violation(Violation { kind: "correspondence", stream: corr.name.clone(), signature: "reuse".into(), what, replay: json!({"input": p_xml}), confirmed_on_impl: false }),
            }
        }
        let hidden: Vec<String> = tpls.iter().filter(|t| t.place == 0).map(|t| t.id.clone()).collect();
        if insts.iter().any(|i| i.binds.len() < tpls[i.tpl].params.len()) {
            // a forgotten binding: only the correspondence (clean failure, nothing left behind) is judged
            corr.tally("missing-binding");
            let js = judge(&p_xml, &p_xml, &hidden);
            for (sig, what) in js.into_iter().filter(|(s, _)| s == "state-left-behind") {
                rep.violation(Violation { kind: "oracle", stream: orc.name.clone(), signature: format!("C18:{sig}"), what, replay: json!({"input": p_xml, "written_out": p_xml, "specs_ids": hidden}), confirmed_on_impl: true });
            }
            continue;
        }
        orc.case(&p_xml, true, || json!({"document": p_xml, "written_out": u_xml}));
        let js = judge(&p_xml, &u_xml, &hidden);
        if js.iter().all(|(s, _)| s == "line-template-placement") { orc.exact += 1; }
        for (sig, what) in js {
            rep.violation(Violation { kind: "oracle", stream: orc.name.clone(), signature: format!("C18:{sig}"), what, replay: json!({"input": p_xml, "written_out": u_xml, "specs_ids": hidden}), confirmed_on_impl: true });
        }
    }
    rep.streams.push(corr);
    rep.streams.push(orc);
    Ok(())
}
