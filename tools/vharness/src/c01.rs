//! C01 — totality: every input gives a result or an error, never a crash or a hang.
//!
//! Every case runs in a child process (frontends::run_isolated), so a stack overflow or an endless loop
//! of the code under test is an observation, not an accident of the harness.
//!  * fuzz/mutated, fuzz/bytes, fuzz/attr-grammar: hostile inputs through the library (transform on bytes);
//!  * scale/work: constructs of growing size and depth under a time limit;
//!  * path/scanner (correspondence): path data, well- and ill-formed, implementation vs the Lean scanner
//!    whose progress theorem is Props/C01;
//!  * frontends/robustness: a sample of the hostile inputs through the svgdx command and the server.
use crate::driver::Driver;
use crate::frontends::*;
use crate::report::*;
use crate::rng::Rng;
use crate::xmlgen;
use serde_json::json;
use std::time::Duration;

fn hex(b: &[u8]) -> String {
    b.iter().map(|x| format!("{x:02x}")).collect()
}

fn unhex(s: &str) -> Vec<u8> {
    (0..s.len() / 2).filter_map(|i| u8::from_str_radix(&s[2 * i..2 * i + 2], 16).ok()).collect()
}

fn shown(b: &[u8]) -> String {
    String::from_utf8_lossy(&b[..b.len().min(600)]).to_string()
}

const TOKENS: &[&str] = &[
    "{{", "}}", "$", "${", "}", "#", "^", "|h", "|V 1e9", "@tl", "@t:200%", "~w", "<", ">", "</g>", "<g>", "&", "&amp;", "&#0;", "&#xD800;", "\"", "'", "<!--", "-->", "--",
    "<![CDATA[", "]]>", "<?xml", "?>", "<!DOCTYPE x [", "Z 5 5", "M 0 0 Z", "1e999", "-1e-999", "nan", "inf", "-", ".", "..", "1.2.3", "%", "0/0", "1/0", "((((", "))))", ",,", "\\n", "\\",
    "rotate(", "translate(1e99)", "scale(0)", "url(#", "url(#c)", "href=\"#x\"", "xy=\"^|h\"", "count=\"1001\"", "while=\"1\"", "id=\"a\"", "xy=\"#a|h\"", "surround=\"#a\"", "\u{0}", "\u{feff}", "\u{2028}",
    "abs(abs(abs(", "random()", "randint(1,0)", "clamp(1,2,0)", "select(9,1)", "split('', '')", "{{$a}}", "$$a", "text=\"", "text-loc=\"zz\"", "wh=\"-1 -1\"", "wh=\"1e30 1e30\"", "r=\"-1\"",
];

fn base_docs(rng: &mut Rng) -> Vec<u8> {
    match rng.below(8) {
        0 => { let root = rng.chance(1, 2); xmlgen::svgdx_doc(rng, root).into_bytes() }
        1 => xmlgen::real_svg_doc(rng).into_bytes(),
        2 => b"<svg><rect id=\"a\" xy=\"0 0\" wh=\"10 5\" text=\"hi\"/><rect xy=\"#a|h 2\" wh=\"#a\"/><line start=\"#a\" end=\"^\"/></svg>".to_vec(),
        3 => b"<svg><var n=\"3\"/><loop count=\"$n\" loop-var=\"i\"><circle cxy=\"{{$i * 5}} 0\" r=\"2\"/></loop><if test=\"{{$n gt 2}}\"><text xy=\"0 9\">t</text></if></svg>".to_vec(),
        4 => b"<svg><specs><g id=\"t\"><rect wh=\"$w 2\"/></g></specs><reuse href=\"#t\" w=\"4\" x=\"3\" y=\"4\"/><use href=\"#t\" x=\"1\"/></svg>".to_vec(),
        5 => b"<svg><path d=\"M 0 0 L 5 5 h 3 v -2 C 1 1 2 2 3 3 Z\"/><polyline points=\"0 0, 3 4, 6 0\"/><g transform=\"translate(3 4) rotate(30) scale(2)\"><rect wh=\"2\"/></g></svg>".to_vec(),
        6 => b"<svg><defs><clipPath id=\"c\"><rect wh=\"5\"/></clipPath></defs><rect wh=\"9\" clip-path=\"url(#c)\"/><rect surround=\"^\" margin=\"2\"/><for data=\"1, 2\" var=\"v\"><rect wh=\"$v\"/></for></svg>".to_vec(),
        _ => b"<svg><config loop-limit=\"10\"/><rect wh=\"20 10\" text=\"a\\nb\" text-loc=\"tl\" class=\"d-fill-red d-text-bold\"/><point id=\"p\" xy=\"1 1\"/><line xy1=\"#p\" xy2=\"#p@c 3 3\"/></svg>".to_vec(),
    }
}

fn mutate(rng: &mut Rng, mut b: Vec<u8>) -> Vec<u8> {
    let k = 1 + rng.below(4);
    for _ in 0..k {
        if b.is_empty() { b = b"<svg/>".to_vec(); }
        let i = rng.below(b.len());
        match rng.below(8) {
            0 => { b[i] ^= 1 << rng.below(8); }
            1 => { let j = (i + 1 + rng.below(20)).min(b.len()); b.drain(i..j); }
            2 => { let j = (i + 1 + rng.below(40)).min(b.len()); let seg = b[i..j].to_vec(); let at = rng.below(b.len()); for (n, x) in seg.into_iter().enumerate() { b.insert((at + n).min(b.len()), x); } }
            3 | 4 | 5 => { let t = rng.pick(TOKENS).as_bytes().to_vec(); for (n, x) in t.into_iter().enumerate() { b.insert(i + n, x); } }
            6 => { b.truncate(i); }
            _ => { b.insert(i, *rng.pick(&[0xffu8, 0xfe, 0xc0, 0x80, 0x00, 0xed, 0xa0])); }
        }
    }
    b
}

fn attr_soup(rng: &mut Rng) -> Vec<u8> {
    let pieces = ["#a", "#b", "^", "|h", "|v", "|H", "|V", "@tl", "@c", "@t:25%", "@r:-3", "~w", "~h", "~x2", " ", " ", "1", "-2.5", "50%", "1e9", "nan", ",", "$v", "{{$v + 1}}", "{{", "}}", ":", "@", "|", "~", "#", "%"];
    let val = |rng: &mut Rng| -> String { (0..1 + rng.below(5)).map(|_| *rng.pick(&pieces)).collect::<Vec<_>>().join("") };
    let attrs = ["xy", "cxy", "xy1", "xy2", "wh", "x", "y", "cx", "cy", "width", "height", "r", "rxy", "dxy", "dwh", "dx", "dw", "xy-loc", "start", "end", "corner-offset", "edge-type", "surround", "inside", "margin", "text-loc", "text-offset", "text-dxy", "text-lsp", "points", "d", "transform", "href", "count", "while", "until", "start", "step", "loop-var", "data", "var", "idx-var", "test", "clip-path", "id", "class", "style", "text", "_", "__"];
    let el = *rng.pick(&["rect", "circle", "ellipse", "line", "polyline", "polygon", "path", "text", "g", "use", "reuse", "loop", "for", "if", "var", "point", "box", "image", "config", "specs", "defaults"]);
    let n = 1 + rng.below(4);
    let mut s = String::from("<svg><var v=\"3\"/><rect id=\"a\" xy=\"1 2\" wh=\"10 4\"/><circle id=\"b\" cxy=\"20 5\" r=\"3\"/>");
    s.push_str(&format!("<{el}"));
    for _ in 0..n {
        let a = *rng.pick(&attrs);
        let v = if rng.chance(1, 3) { rng.pick(TOKENS).replace('"', "").replace('<', "") } else { val(rng) };
        s.push_str(&format!(" {a}=\"{v}\""));
    }
    if rng.chance(1, 2) { s.push_str("/>"); } else { s.push_str(&format!("><rect wh=\"2\"/></{el}>")); }
    s.push_str("</svg>");
    s.into_bytes()
}

fn random_bytes(rng: &mut Rng) -> Vec<u8> {
    let n = rng.below(200);
    if rng.chance(1, 2) {
        (0..n).map(|_| rng.below(256) as u8).collect()
    } else {
        let al = b"<>/=\"' svgrectxywh01-.{}$#^|@&;![]?:\n";
        (0..n).map(|_| al[rng.below(al.len())]).collect()
    }
}

/// constructs of a given size: (name, document)
fn scaled(kind: &str, n: usize) -> Vec<u8> {
    let mut s = String::from("<svg>");
    match kind {
        "siblings" => { for i in 0..n { s.push_str(&format!("<rect xy=\"{} {}\" wh=\"2\"/>", i % 100, i / 100)); } }
        "nesting" => { for _ in 0..n { s.push_str("<g>"); } s.push_str("<rect wh=\"1\"/>"); for _ in 0..n { s.push_str("</g>"); } }
        "chain-forward" => { for i in 0..n { s.push_str(&format!("<rect id=\"e{i}\" xy=\"#e{}|h 1\" wh=\"2\"/>", i + 1)); } s.push_str(&format!("<rect id=\"e{n}\" xy=\"0 0\" wh=\"2\"/>")); }
        "chain-prev" => { s.push_str("<rect wh=\"2\"/>"); for _ in 0..n { s.push_str("<rect xy=\"^|h 1\" wh=\"2\"/>"); } }
        "loop" => { s.push_str(&format!("<loop count=\"{n}\" loop-var=\"i\"><rect xy=\"$i 0\" wh=\"1\"/></loop>")); }
        "path" => { s.push_str("<path d=\"M 0 0"); for i in 0..n { s.push_str(&format!(" L {} {}", i % 50, i % 37)); } s.push_str("\"/>"); }
        "points" => { s.push_str("<polyline points=\""); for i in 0..n { s.push_str(&format!("{} {} ", i % 50, i % 37)); } s.push_str("\"/>"); }
        "expr-sum" => { s.push_str("<rect wh=\"{{1"); for _ in 0..n { s.push_str(" + 1"); } s.push_str("}} 2\"/>"); }
        "expr-parens" => { s.push_str("<rect wh=\"{{"); for _ in 0..n { s.push('('); } s.push('1'); for _ in 0..n { s.push(')'); } s.push_str("}} 2\"/>"); }
        "var-chain" => { s.push_str("<var v0=\"1\"/>"); for i in 1..n { s.push_str(&format!("<var v{i}=\"{{{{$v{} + 1}}}}\"/>", i - 1)); } s.push_str(&format!("<rect wh=\"$v{} 2\"/>", n - 1)); }
        "scope-lookup" => { s.push_str("<g v0=\"1\""); for i in 1..n { s.push_str(&format!(" v{i}=\"$v{} + $v{}\"", i - 1, i - 1)); } s.push_str(&format!("><rect wh=\"{{{{$v{}}}}} 2\"/></g>", n - 1)); }
        "expr-minus" => { s.push_str("<rect wh=\"{{"); for _ in 0..n { s.push('-'); } s.push_str("1}} 2\"/>"); }
        "expr-calls" => { s.push_str("<rect wh=\"{{"); for _ in 0..n { s.push_str("abs("); } s.push('1'); for _ in 0..n { s.push(')'); } s.push_str("}} 2\"/>"); }
        // attributes of one scope, each the previous one: evaluated lazily, one level of recursion per link
        "scope-chain" => { s.push_str("<g v0=\"1\""); for i in 1..n { s.push_str(&format!(" v{i}=\"$v{}\"", i - 1)); } s.push_str(&format!("><rect wh=\"{{{{$v{}}}}} 2\"/></g>", n - 1)); }
        // a chain of k lazily evaluated attributes, each value wrapped in p pairs of parentheses (n = 1000 k + p):
        // the nesting the guard has to bound is the SUM over the chain, about k * p levels of real recursion
        "scope-chain-parens" => {
            let (k, p) = (n / 1000, n % 1000);
            s.push_str("<g v0=\"1\"");
            for i in 1..k { s.push_str(&format!(" v{i}=\"{}$v{}{}\"", "(".repeat(p), i - 1, ")".repeat(p))); }
            s.push_str(&format!("><text xy=\"0 0\" text=\"{{{{$v{}}}}}\"/></g>", k.max(1) - 1));
        }
        // n nested groups, each holding one resolvable sibling before the next group, a dangling reference
        // innermost: every level retries its failing child once more after its sibling resolved
        "nested-fail" => { for i in 0..n { s.push_str(&format!("<g><rect id=\"r{i}\" wh=\"1\"/>")); } s.push_str("<rect xy=\"#missing|h\" wh=\"1\"/>"); for _ in 0..n { s.push_str("</g>"); } }
        // the same with the sibling AFTER the nested group (it completes after the group has failed, so the
        // group is rightly attempted once more - but the attempts inside that attempt change nothing)
        "nested-fail-after" => { for _ in 0..n { s.push_str("<g>"); } s.push_str("<rect xy=\"#missing|h\" wh=\"1\"/>"); for i in 0..n { s.push_str(&format!("</g><rect id=\"r{i}\" wh=\"1\"/>")); } }
        // ... and a satisfiable one: the reference is resolved by an element after the outermost group
        "nested-late" => { for _ in 0..n { s.push_str("<g>"); } s.push_str("<rect xy=\"#z|h\" wh=\"1\"/>"); for i in 0..n { s.push_str(&format!("</g><rect id=\"r{i}\" wh=\"1\"/>")); } s.push_str("<rect id=\"z\" wh=\"2\"/>"); }
        "use-chain" => { s.push_str("<rect id=\"u0\" wh=\"2\"/>"); for i in 1..n { s.push_str(&format!("<use id=\"u{i}\" href=\"#u{}\" x=\"1\"/>", i - 1)); } s.push_str(&format!("<rect xy=\"#u{}|h\" wh=\"1\"/>", n - 1)); }
        "reuse-self" => { s.push_str("<specs><g id=\"t\"><rect wh=\"1\"/><reuse href=\"#t\"/></g></specs><reuse href=\"#t\"/>"); }
        // a container that fails on every attempt while registering a different id each time: the retry
        // loop sees "progress" in every pass and must still give up (idle passes are bounded)
        "idle-var-ids" => { s.push_str("<var n=\"0\"/>"); for _ in 0..n { s.push_str("<g>"); } s.push_str("<if test=\"1\"><var n=\"{{$n + 1}}\"/><rect id=\"r$n\" wh=\"1\"/><rect xy=\"#missing|h\" wh=\"1\"/></if>"); for _ in 0..n { s.push_str("</g>"); } }
        // the same three behind an element that fails first: then every pass ends with a change after its
        // first failure (the fresh id), so the pending elements are attempted again and again, and only the
        // budget for passes that complete nothing ends it
        "idle-var-ids-behind" => { s.push_str("<var n=\"0\"/><rect xy=\"#nowhere|h\" wh=\"1\"/>"); for _ in 0..n { s.push_str("<g>"); } s.push_str("<if test=\"1\"><var n=\"{{$n + 1}}\"/><rect id=\"r$n\" wh=\"1\"/><rect xy=\"#missing|h\" wh=\"1\"/></if>"); for _ in 0..n { s.push_str("</g>"); } }
        "idle-random-ids-behind" => { s.push_str("<rect xy=\"#nowhere|h\" wh=\"1\"/>"); for _ in 0..n { s.push_str("<g>"); } s.push_str("<rect id=\"r{{randint(0, 1000000000)}}\" wh=\"1\"/><rect xy=\"#missing|h\" wh=\"1\"/>"); for _ in 0..n { s.push_str("</g>"); } }
        // ... and with the failing element first INSIDE the container as well (the inner pass then goes on
        // after its first failure, completes the fresh registration and is followed by a second inner pass)
        "idle-var-ids-first" => { s.push_str("<var n=\"0\"/><rect xy=\"#nowhere|h\" wh=\"1\"/>"); for _ in 0..n { s.push_str("<g>"); } s.push_str("<if test=\"1\"><rect xy=\"#missing|h\" wh=\"1\"/><var n=\"{{$n + 1}}\"/><rect id=\"r$n\" wh=\"1\"/></if>"); for _ in 0..n { s.push_str("</g>"); } }
        "idle-random-ids-first" => { s.push_str("<rect xy=\"#nowhere|h\" wh=\"1\"/>"); for _ in 0..n { s.push_str("<g>"); } s.push_str("<rect xy=\"#missing|h\" wh=\"1\"/><rect id=\"r{{randint(0, 1000000000)}}\" wh=\"1\"/>"); for _ in 0..n { s.push_str("</g>"); } }
        "idle-random-ids" => { for _ in 0..n { s.push_str("<g>"); } s.push_str("<rect id=\"r{{randint(0, 1000000000)}}\" wh=\"1\"/><rect xy=\"#missing|h\" wh=\"1\"/>"); for _ in 0..n { s.push_str("</g>"); } }
        "idle-loop-ids" => { s.push_str(&format!("<loop count=\"{n}\" loop-var=\"i\"><g><rect id=\"q{{{{randint(0, 1000000000)}}}}\" wh=\"1\"/><rect xy=\"#nowhere$i|h\" wh=\"1\"/></g></loop>")); }
        "text-lines" => { s.push_str("<rect wh=\"20\" text=\""); for _ in 0..n { s.push_str("line\\n"); } s.push_str("\"/>"); }
        "classes" => { s.push_str("<rect wh=\"2\" class=\""); for i in 0..n { s.push_str(&format!("d-grid-{} ", i % 101)); } s.push_str("\"/>"); }
        _ => {}
    }
    s.push_str("</svg>");
    s.into_bytes()
}

/// every small combination of `use` / `reuse` hrefs (`^`, an id, itself, each other), with and without an id
/// on the referring element, followed by elements that refer to them by `^` or by id: the chains that
/// `get_target_element` follows, including the cyclic ones - each must end with a result or an error
fn ref_chain_docs() -> Vec<Vec<u8>> {
    let mut out = vec![];
    for first in ["<rect id=\"a\" wh=\"4\"/>", "<rect wh=\"4\"/>"] {
        for kind in ["use", "reuse"] {
            for h1 in ["^", "#a", "#u", "#v"] {
                for id1 in ["", " id=\"u\""] {
                    for second in ["", "<KIND id=\"v\" href=\"^\"/>", "<KIND id=\"v\" href=\"#u\"/>", "<KIND href=\"#v\"/>", "<KIND id=\"v\" href=\"#v\" x=\"1\"/>"] {
                        for last in ["<rect xy=\"^|h 5\" wh=\"5\"/>", "<rect xy=\"#u|h 5\" wh=\"5\"/>", "<line start=\"^\" end=\"#a\"/>", "<rect surround=\"^\"/>"] {
                            let d = format!("<svg>{first}<{kind}{id1} href=\"{h1}\" x=\"20\"/>{}{last}</svg>", second.replace("KIND", kind));
                            out.push(d.into_bytes());
                        }
                    }
                }
            }
        }
    }
    out
}

fn judge_isolated(rep: &mut Report, st: &mut Stream, cases: &[Vec<u8>], tags: &[String], per_case: Duration, loop_limit: u32) {
    let rs = run_isolated(cases, loop_limit, per_case);
    for ((c, r), tag) in cases.iter().zip(rs.iter()).zip(tags.iter()) {
        st.case(&hex(&c[..c.len().min(64)]), true, || json!({"input": shown(c)}));
        if let Ok(line) = r {
            // time taken, as reported by the child (evidence of the margin below the limit)
            if let Some(ms) = line.split_whitespace().last().and_then(|m| m.parse::<u64>().ok()) {
                st.tally(match ms { 0..=99 => "time<0.1s", 100..=999 => "time<1s", 1000..=9999 => "time<10s", _ => "time>=10s" });
            }
        }
        match r {
            Ok(line) if line.starts_with("ok") => { st.exact += 1; st.tally("result=ok"); }
            Ok(line) if line.starts_with("err:") => { st.exact += 1; st.errors_agreed += 1; st.tally(&format!("result={}", line.split_whitespace().next().unwrap_or(""))); }
            Ok(line) => {
                let msg = line.trim_start_matches("panic:");
                let sig = if msg.contains("byte index") || msg.contains("char boundary") { "C01:panic:char-boundary".to_string() } else { format!("C01:panic:{}", tag.split(':').next().unwrap_or("")) };
                rep.violation(Violation { kind: "oracle", stream: st.name.clone(), signature: sig, what: format!("the transform panics: {}", &msg[..msg.len().min(300)]), replay: json!({"input_hex": hex(c), "input_shown": shown(c), "generator": tag}), confirmed_on_impl: true });
            }
            Err(e) => {
                let kind = if e.starts_with("timeout") { "hang" } else { "abort" };
                let sig = match (kind, tag.as_str()) {
                    ("abort", t) if t.starts_with("scale:expr-parens") => "C01:deep-nesting:expr".to_string(),
                    ("hang", t) if t.starts_with("scale:scope-lookup") => "C01:exponential-lookup".to_string(),
                    ("hang", t) if t.starts_with("scale:nested-fail") => "C01:exponential-nested-retry".to_string(),
                    _ => format!("C01:{kind}:{}", tag.split(':').nth(1).unwrap_or(tag)),
                };
                rep.violation(Violation { kind: "oracle", stream: st.name.clone(), signature: sig, what: format!("the transform does not return: {e}"), replay: json!({"input_hex": hex(c), "input_shown": shown(c), "generator": tag}), confirmed_on_impl: true });
            }
        }
    }
}

fn path_stream(rep: &mut Report, drv: &mut Driver, rng: &mut Rng, n: usize) -> Result<(), String> {
    let mut st = Stream::new(
        "path/scanner",
        "correspondence",
        "path data strings (valid commands with implicit repetition, closepath followed by numbers, numbers with several dots and signs, missing operands, unknown letters, empty strings): hook path_bbox vs the Lean scanner Svgdx.Path.pathBBox (the function pathBBox_total is about); both must answer - box, no box or error - and agree; the model never reports exhausted fuel",
    );
    let cmds = ["M", "m", "L", "l", "H", "h", "V", "v", "Z", "z", "C", "c", "S", "s", "Q", "q", "T", "t", "A", "a", "X", "B"];
    for _ in 0..n {
        let k = rng.below(9);
        let mut d = String::new();
        for _ in 0..k {
            if rng.chance(3, 4) { d.push_str(*rng.pick(&cmds)); }
            for _ in 0..rng.below(8) {
                d.push_str(*rng.pick(&[" ", ",", " ", ""]));
                d.push_str(&match rng.below(8) { 0 => "-".to_string(), 1 => ".".to_string(), 2 => "1.2.3".to_string(), 3 => "--1".to_string(), _ => format!("{}", rng.range(-40, 40) as f64 / 2.0) });
            }
            if rng.chance(1, 5) { d.push(' '); }
        }
        st.case(&d, !d.is_empty(), || json!({"d": d}));
        let dd = d.clone();
        let imp = std::panic::catch_unwind(move || svgdx::verif_hooks::path_bbox(&dd));
        let m = drv.call("path_bbox", &[&d])?;
        let ms = m.first().map(|s| s.as_str()).unwrap_or("");
        if ms.starts_with("fuel") || ms.contains("outOfFuel") {
            rep.violation(Violation { kind: "correspondence", stream: st.name.clone(), signature: "path:model-out-of-fuel".into(), what: format!("the model ran out of fuel on {d:?}"), replay: json!({"d": d}), confirmed_on_impl: false });
            continue;
        }
        match imp {
            Err(_) => rep.violation(Violation { kind: "oracle", stream: st.name.clone(), signature: "C01:panic:path".into(), what: format!("path_bbox panics on {d:?}"), replay: json!({"input_hex": hex(format!("<svg><path d=\"{d}\"/></svg>").as_bytes()), "d": d}), confirmed_on_impl: true }),
            Ok(r) => {
                let is = match &r { Ok(Some(_)) => "box", Ok(None) => "none", Err(_) => "err" };
                let mk = match ms { "some" => "box", "none" => "none", _ => "err" };
                st.tally(&format!("impl={is}"));
                if is == mk { st.exact += 1; if is == "err" { st.errors_agreed += 1; } } else {
                    rep.violation(Violation { kind: "correspondence", stream: st.name.clone(), signature: "path:outcome".into(), what: format!("d={d:?}: impl {is} vs model {m:?}"), replay: json!({"d": d}), confirmed_on_impl: false });
                }
            }
        }
    }
    rep.streams.push(st);
    Ok(())
}

fn frontends_stream(rep: &mut Report, rng: &mut Rng, n: usize) {
    let mut st = Stream::new(
        "frontends/robustness",
        "oracle",
        "a sample of the hostile inputs through the svgdx command (file and stdin input, stdout and file output) and POST /api/transform of the svgdx-server binary: the command exits with status 0 or an error status with a message (never a panic exit or a signal), the server answers 200 or 4xx and stays alive",
    );
    let Some(bin) = svgdx_bin() else { rep.notes.push("frontends/robustness: svgdx binary not built".into()); rep.streams.push(st); return; };
    let dir = std::path::PathBuf::from("/verif/.build/tmp");
    let _ = std::fs::create_dir_all(&dir);
    let mut server = Server::start().ok();
    if server.is_none() { rep.notes.push("frontends/robustness: server could not be started".into()); }
    let cfg = FCfg::default();
    // the constructs that recurse, at and around their limits, through the command and the server (whose
    // worker threads have 2 MiB stacks): first, before the random sample
    let deep: Vec<Vec<u8>> = [("expr-parens", 100usize), ("expr-parens", 101), ("expr-minus", 100), ("expr-calls", 100), ("scope-chain", 99), ("scope-chain", 101),
        ("scope-chain-parens", 40055), ("scope-chain-parens", 50050), ("scope-chain-parens", 70029), ("scope-chain-parens", 30069), ("nesting", 99), ("nesting", 101), ("use-chain", 300), ("reuse-self", 1)]
        .iter().map(|(k, m)| scaled(k, *m)).collect();
    for i in 0..n + deep.len() {
        let c = if i < deep.len() { deep[i].clone() } else { match rng.below(3) { 0 => { let b = base_docs(rng); mutate(rng, b) } 1 => attr_soup(rng), _ => random_bytes(rng) } };
        st.case(&hex(&c[..c.len().min(64)]), true, || json!({"input": shown(&c)}));
        if i < deep.len() { st.tally("recursion-shape"); }
        let mode = *rng.pick(&[CliMode::FileToStdout, CliMode::StdinToStdout, CliMode::FileToFile, CliMode::StdinToFile]);
        let r = via_cli(&bin, &dir, &format!("c01-{}-{i}", std::process::id()), &c, &cfg, mode, None, Duration::from_secs(20));
        let mut good = true;
        if let Res::Crash(e) = &r.res {
            good = false;
            rep.violation(Violation { kind: "oracle", stream: st.name.clone(), signature: "C01:cli-crash".into(), what: format!("svgdx ({mode:?}) does not end with a result or an error: {e}"), replay: json!({"input_hex": hex(&c), "input_shown": shown(&c), "front_end": format!("cli {mode:?}")}), confirmed_on_impl: true });
        }
        st.tally(&format!("cli={}", r.res.kind()));
        if let Some(sv) = server.as_mut() {
            if std::str::from_utf8(&c).is_ok() {
                let rs = sv.transform(&c, false, Duration::from_secs(20));
                st.tally(&format!("server={}", rs.kind()));
                let alive = sv.alive();
                if matches!(rs, Res::Crash(_)) || !alive {
                    good = false;
                    rep.violation(Violation { kind: "oracle", stream: st.name.clone(), signature: "C01:server-crash".into(), what: format!("POST /api/transform: {:?}; server alive: {alive}", rs), replay: json!({"input_hex": hex(&c), "input_shown": shown(&c), "front_end": "server"}), confirmed_on_impl: true });
                    if !alive { server = Server::start().ok(); }
                }
            }
        }
        if good { st.exact += 1; }
    }
    rep.streams.push(st);
}

fn corpus(rep: &mut Report) {
    let mut st = Stream::new("corpus", "oracle", "files of /verif/corpus/C01 (past failures and known findings): each input must end with a result or an error within 20 s");
    let dir = std::path::Path::new("/verif/corpus/C01");
    let mut files: Vec<_> = std::fs::read_dir(dir).map(|d| d.filter_map(|e| e.ok()).map(|e| e.path()).collect()).unwrap_or_default();
    files.sort();
    let mut cases = vec![];
    let mut tags = vec![];
    for f in &files {
        let Ok(txt) = std::fs::read_to_string(f) else { continue };
        let Ok(v) = serde_json::from_str::<serde_json::Value>(&txt) else { continue };
        let input = match (v.get("input_hex").and_then(|s| s.as_str()), v.get("input").and_then(|s| s.as_str()), v.get("generator").and_then(|s| s.as_str())) {
            (Some(h), _, _) => unhex(h),
            (_, Some(s), _) => s.as_bytes().to_vec(),
            (_, _, Some(g)) if g.starts_with("scale:") => { let mut it = g[6..].split(':'); let k = it.next().unwrap_or(""); let n: usize = it.next().and_then(|x| x.parse().ok()).unwrap_or(10); scaled(k, n) }
            _ => continue,
        };
        cases.push(input);
        tags.push(v.get("generator").and_then(|s| s.as_str()).unwrap_or("corpus").to_string());
    }
    judge_isolated(rep, &mut st, &cases, &tags, Duration::from_secs(20), 1000);
    rep.streams.push(st);
}

pub fn replay(rep: &mut Report, v: &serde_json::Value) {
    let mut st = Stream::new("replay", "oracle", "one replay file run in a child process");
    let input = match (v.get("input_hex").and_then(|s| s.as_str()), v.get("input").and_then(|s| s.as_str())) {
        (Some(h), _) => unhex(h),
        (_, Some(s)) => s.as_bytes().to_vec(),
        _ => vec![],
    };
    let tag = v.get("generator").and_then(|s| s.as_str()).unwrap_or("replay").to_string();
    judge_isolated(rep, &mut st, &[input], &[tag], Duration::from_secs(20), 1000);
    rep.streams.push(st);
}

/// The bearing commands (`B` / `b`) of path data are rewritten by bearing.rs before anything else looks
/// at the path: same scanner, its own loop. Hook path_bearing vs the Lean model Svgdx.Bearing (the
/// function bearing_scanner_total is about), on Float32 with libm sin / cos: the rewritten string, or the
/// error kind, must be the same.
fn bearing_stream(rep: &mut Report, drv: &mut Driver, rng: &mut Rng, n: usize) -> Result<(), String> {
    let mut st = Stream::new(
        "path/bearing",
        "correspondence",
        "path data with bearing commands: grammar-directed strings (M / m / l / h / v / L / H / V / C / q / a / z with implicit repetition, B and b with angles on and off the quadrants, huge and tiny, numbers in every SVG spelling, every comma-whitespace form, commands written without separators) and damaged ones (missing operands, unknown letters, stray signs and dots): hook path_bearing vs Svgdx.Bearing.processPathBearing on Float32, output string or error kind; the model never reports exhausted fuel",
    );
    let angles = ["0", "90", "-90", "180", "270", "45", "30", "-0", "360", "36", "72", "1e39", "0.5", "-135", "1e-9", "12345.678"];
    let nums = |rng: &mut Rng| -> String { match rng.below(10) { 0 => "0".into(), 1 => "-0".into(), 2 => ".5".into(), 3 => "1e2".into(), 4 => "-3.25".into(), 5 => "+7".into(), 6 => "2147483648".into(), 7 => "1e-5".into(), _ => format!("{}", rng.range(-400, 400) as f64 / 4.0) } };
    let sep = |rng: &mut Rng| -> &'static str { *rng.pick(&[" ", ",", " , ", "", "  ", "\n", "\t"]) };
    for i in 0..n {
        let mut d = String::new();
        if rng.chance(1, 6) { d.push_str(*rng.pick(&[" ", "\n  ", ","])); }
        if rng.chance(5, 6) { d.push_str(&format!("M{}{}{}{}", sep(rng), nums(rng), *rng.pick(&[" ", ","]), nums(rng))); }
        for _ in 0..rng.below(9) {
            d.push_str(sep(rng));
            match rng.below(12) {
                0 | 1 => { d.push_str(*rng.pick(&["B", "b"])); d.push_str(sep(rng)); d.push_str(*rng.pick(&angles)); }
                2 | 3 => { d.push_str(*rng.pick(&["h", "v"])); d.push_str(sep(rng)); d.push_str(&nums(rng)); if rng.chance(1, 3) { d.push(' '); d.push_str(&nums(rng)); } }
                4 | 5 => { d.push_str(*rng.pick(&["l", "m"])); for _ in 0..1 + rng.below(3) { d.push_str(sep(rng)); d.push_str(&nums(rng)); d.push_str(*rng.pick(&[" ", ",", "-"])); d.push_str(&nums(rng)); } }
                6 => { d.push_str(*rng.pick(&["L", "H", "V", "T", "t"])); d.push_str(sep(rng)); d.push_str(&nums(rng)); d.push(' '); d.push_str(&nums(rng)); }
                7 => { d.push_str(*rng.pick(&["C", "c", "q", "S"])); for _ in 0..4 { d.push(' '); d.push_str(&nums(rng)); } }
                8 => { d.push_str("a 5 5 0 0 1 "); d.push_str(&nums(rng)); d.push(' '); d.push_str(&nums(rng)); }
                9 => d.push_str(*rng.pick(&["z", "Z", "z z"])),
                // damage
                10 => d.push_str(*rng.pick(&["B", "b ", "l 1", "h", "x 1 2", "-", ".", "e5", "B 1 2 3", "bb", "Bh1"])),
                _ => { d.push_str(&nums(rng)); d.push(' '); d.push_str(&nums(rng)); }
            }
        }
        if i % 50 == 0 { d = format!("{d}{}", "l1 1".repeat(200)); }
        st.case(&d, !d.is_empty(), || json!({"d": d}));
        let dd = d.clone();
        let imp = std::panic::catch_unwind(move || svgdx::verif_hooks::path_bearing(&dd));
        let m = drv.call("path_bearing", &[&d])?;
        let ms = m.first().map(|s| s.as_str()).unwrap_or("");
        if ms == "fuel" {
            rep.violation(Violation { kind: "correspondence", stream: st.name.clone(), signature: "bearing:model-out-of-fuel".into(), what: format!("the model ran out of fuel on {d:?}"), replay: json!({"d": d}), confirmed_on_impl: false });
            continue;
        }
        match imp {
            Err(_) => rep.violation(Violation { kind: "oracle", stream: st.name.clone(), signature: "C01:panic:bearing".into(), what: format!("process_path_bearing panics on {d:?}"), replay: json!({"input_hex": hex(format!("<svg><path d=\"{d}\"/></svg>").as_bytes()), "d": d}), confirmed_on_impl: true }),
            Ok(r) => {
                let (is, iv) = match &r { Ok(out) => ("ok".to_string(), out.clone()), Err(e) => ("err".to_string(), crate::util::err_kind(e)) };
                let mv = m.get(1).cloned().unwrap_or_default();
                st.tally(&format!("impl={is}{}", if is == "err" { format!(":{iv}") } else { String::new() }));
                if is == ms && iv == mv { st.exact += 1; if is == "err" { st.errors_agreed += 1; } } else {
                    rep.violation(Violation { kind: "correspondence", stream: st.name.clone(), signature: "bearing:outcome".into(), what: format!("d={d:?}: impl {is} {iv:?} vs model {m:?}"), replay: json!({"d": d}), confirmed_on_impl: false });
                }
            }
        }
    }
    rep.streams.push(st);
    Ok(())
}

/// The structured generators of the other properties (relative placement, shorthand spellings,
/// containment, connectors, scoping, loops, limits, reuse, text, extents) reach corners of the code that
/// byte-level fuzzing does not: degenerate but valid geometry, long well-formed programs. Each of their
/// harnesses already converts a panic into a violation of its own; here their quick runs are repeated
/// with this run's seed and every panic they meet is a violation of C01.
fn sweep_other_generators(rep: &mut Report, tier: &str, seed: u64) {
    let mut st = Stream::new("sweep/structured-generators", "oracle", "the document generators of C02 (hostile strings, byte-level input) C03 C04 C08 C09 C10 C11 C12 C13 C15 C16 C17 C18 C19 (their quick streams, seeded from this run) re-run in process: any panic met while transforming their documents is a C01 violation (other findings of those harnesses are theirs to report)");
    type Run = fn(&mut Report, &str, u64) -> Result<(), String>;
    let runs: [(&str, Run); 14] = [
        ("C02", crate::c02::run_c02), ("C03", crate::c03::run), ("C04", crate::c04::run),
        ("C08", crate::c08::run), ("C09", crate::c09::run), ("C10", crate::c10::run), ("C11", crate::c11::run), ("C12", crate::c12::run), ("C13", crate::c13::run),
        ("C15", crate::c15::run), ("C16", crate::c16::run), ("C17", crate::c17::run), ("C18", crate::c18::run), ("C19", crate::c19::run),
    ];
    // thorough: three seeds per generator; quick: one
    let rounds = if tier == "thorough" { 3 } else { 1 };
    // the generators are independent (each has its own model process): one thread each
    let subs: Vec<(&str, Report, Result<(), String>)> = std::thread::scope(|sc| {
        let mut hs = vec![];
        for (name, run) in runs {
            for r in 0..rounds {
                hs.push(sc.spawn(move || {
                    let sd = seed.wrapping_mul(31).wrapping_add(7 + r);
                    let mut sub = Report::new(name, "quick", sd);
                    let res = run(&mut sub, "quick", sd);
                    (name, sub, res)
                }));
            }
        }
        hs.into_iter().filter_map(|h| h.join().ok()).collect()
    });
    for (name, sub, res) in subs {
        let cases: u64 = sub.streams.iter().map(|s| s.cases).sum();
        st.cases += cases;
        for s in &sub.streams { st.nontrivial.extend(s.nontrivial.iter().copied()); }
        st.tally(&format!("generator={name}"));
        if let Err(e) = res { rep.notes.push(format!("sweep {name}: {e}")); }
        let mut clean = true;
        for v in sub.violations {
            let text = format!("{} {}", v.signature, v.what);
            if text.contains("panic") {
                clean = false;
                rep.violation(Violation { kind: "oracle", stream: st.name.clone(), signature: format!("C01:panic:{name}"), what: format!("panic while transforming a document of the {name} generator: {}", v.what), replay: v.replay, confirmed_on_impl: true });
            }
        }
        if clean { st.exact += cases; }
    }
    rep.streams.push(st);
}

/// growth of the running time with the size of a construct whose work is linear in its size: t(4n) against
/// t(n), each the minimum of three in-process runs. Linear work gives a factor of about 4, quadratic work 16;
/// a violation needs both a factor above 11 and more than 0.6 s at 4n, measured twice, so that noise on tiny times cannot raise it.
fn growth_stream(rep: &mut Report) {
    let mut st = Stream::new("scale/growth", "oracle", "constructs whose work is linear in n - path data, point lists, siblings, a sum of n terms, a loop of n passes, n text lines, a `^` chain, n variables, one long comment / text / attribute value in real SVG - transformed at n and at 4n (minimum of three runs each): the time may grow by the factor 4 of the work, not by its square (violation: factor above 11 with more than 0.6 s at 4n, the two sizes timed alternately and a suspicious factor measured twice)");
    let kinds: &[(&str, usize)] = &[("path", 20000), ("points", 30000), ("siblings", 1500), ("expr-sum", 5000), ("loop", 250), ("chain-prev", 1000), ("var-chain", 1000), ("text-lines", 1000), ("bulk-real", 200000)];
    let once = |text: &str| -> Option<f64> {
        let t0 = std::time::Instant::now();
        let r = crate::util::transform(text, &crate::util::default_cfg());
        let dt = t0.elapsed().as_secs_f64();
        if r.is_err() { None } else { Some(dt) }
    };
    // the two sizes are timed alternately (so that a busy machine slows both alike), minimum of three rounds;
    // a suspicious factor is measured a second time before it counts
    let measure = |small: &[u8], big: &[u8]| -> Option<(f64, f64)> {
        let (a, b) = (String::from_utf8_lossy(small).to_string(), String::from_utf8_lossy(big).to_string());
        let (mut t1, mut t4) = (f64::MAX, f64::MAX);
        for _ in 0..3 {
            t1 = t1.min(once(&a)?);
            let d = once(&b)?;
            t4 = t4.min(d);
            if d > 30.0 { break; }
        }
        Some((t1, t4))
    };
    for (k, n) in kinds {
        let mk = |n: usize| -> Vec<u8> {
            match *k {
                "text-lines" => { let mut s = String::from("<svg><rect wh=\"50 20\" text=\""); for i in 0..n { s.push_str(&format!("line {i}\\n")); } s.push_str("end\"/></svg>"); s.into_bytes() }
                "bulk-real" => format!("<svg xmlns=\"http://www.w3.org/2000/svg\"><!-- {} --><desc>{}</desc><rect width=\"1\" height=\"1\" data-x=\"{}\"/></svg>", "c ".repeat(n), "lorem ".repeat(n), "v ".repeat(n)).into_bytes(),
                other => scaled(other, n),
            }
        };
        let (small, big) = (mk(*n), mk(4 * *n));
        st.case(&format!("{k}:{n}"), true, || json!({"kind": k, "n": n}));
        let suspicious = |t: (f64, f64)| t.1 / t.0.max(1e-4) > 11.0 && t.1 > 0.6;
        let mut m = measure(&small, &big);
        if let Some(t) = m { if suspicious(t) && t.1 < 30.0 { let m2 = measure(&small, &big); if let Some(t2) = m2 { if !suspicious(t2) { m = m2; } } } }
        let Some((t1, t4)) = m else {
            rep.violation(Violation { kind: "oracle", stream: st.name.clone(), signature: "C01:panic".into(), what: format!("panic while timing {k}"), replay: json!({"input_hex": hex(&small)}), confirmed_on_impl: true });
            continue;
        };
        let factor = t4 / t1.max(1e-4);
        st.tally(&format!("{k}: {:.0} ms -> {:.0} ms", t1 * 1000.0, t4 * 1000.0));
        if factor > 11.0 && t4 > 0.6 {
            rep.violation(Violation { kind: "oracle", stream: st.name.clone(), signature: format!("C01:superlinear:{k}"), what: format!("{k}: {:.3} s at n = {n}, {:.3} s at n = {} - four times the work takes {:.1} times as long", t1, t4, 4 * n, factor), replay: json!({"input_hex": hex(&big), "kind": k, "n": 4 * n, "limit_s": (t1 * 8.0).max(0.4)}), confirmed_on_impl: true });
        } else {
            st.exact += 1;
        }
    }
    rep.streams.push(st);
}

pub fn run(rep: &mut Report, tier: &str, seed: u64) -> Result<(), String> {
    let mut rng = Rng::new(seed);
    let thorough = tier == "thorough";
    let (n_mut, n_bytes, n_attr, n_path, n_front) = if thorough { (60_000, 20_000, 60_000, 40_000, 1500) } else { (2500, 800, 2500, 3000, 90) };
    corpus(rep);
    let mut r1 = rng.fork();
    let mut st = Stream::new("fuzz/mutated", "oracle", "svgdx and plain-SVG documents (generated and hand-written seeds covering shapes, references, connectors, loops, conditionals, reuse, paths, transforms, clip paths, containment, text, config) with 1-4 mutations each: bit flips, deleted / duplicated ranges, truncation, invalid UTF-8 bytes, inserted hostile tokens (expression, reference, XML, path, number and function fragments); each transformed on its bytes in a child process: the outcome must be a document or an error value");
    let cases: Vec<Vec<u8>> = (0..n_mut).map(|_| { let b = base_docs(&mut r1); mutate(&mut r1, b) }).collect();
    let tags: Vec<String> = cases.iter().map(|_| "fuzz:mutated".to_string()).collect();
    judge_isolated(rep, &mut st, &cases, &tags, Duration::from_secs(5), 1000);
    rep.streams.push(st);

    let mut st = Stream::new("fuzz/bytes", "oracle", "random byte strings and random strings over an XML-ish alphabet (0-200 bytes)");
    let cases: Vec<Vec<u8>> = (0..n_bytes).map(|_| random_bytes(&mut r1)).collect();
    let tags: Vec<String> = cases.iter().map(|_| "fuzz:bytes".to_string()).collect();
    judge_isolated(rep, &mut st, &cases, &tags, Duration::from_secs(5), 1000);
    rep.streams.push(st);

    let mut st = Stream::new("fuzz/attr-grammar", "oracle", "one element of every svgdx kind with 1-4 attributes drawn from all attribute names svgdx interprets, each value a random concatenation of the pieces of the small spec languages (references, directions, locations, scalars, lengths, percentages, variables, expressions, separators) or a hostile token, next to two referencable shapes");
    let cases: Vec<Vec<u8>> = (0..n_attr).map(|_| attr_soup(&mut r1)).collect();
    let tags: Vec<String> = cases.iter().map(|_| "fuzz:attr".to_string()).collect();
    judge_isolated(rep, &mut st, &cases, &tags, Duration::from_secs(5), 1000);
    rep.streams.push(st);

    let mut st = Stream::new("scale/work", "oracle", "constructs of growing size, each with a 20 s limit in a child process: n siblings, n nested groups (below, at and far above the depth limit), forward and `^` reference chains, a loop of n passes, path data and point lists of n items, a sum of n terms, n nested parentheses / unary minus signs / function calls (below, at and far above the expression nesting limit), a chain of n variables, a chain of n attributes of one scope each defined as the previous one, n attributes of one scope referring to each other (the sizes that are known findings live in the corpus), a chain of n <use> elements, a template that reuses itself, failing containers (nested n deep) that register a fresh id on every attempt, n text lines, n pattern classes");
    let mut cases = vec![];
    let mut tags = vec![];
    let sizes: &[(&str, &[usize])] = &[
        ("siblings", &[100, 1000, 4000]), ("nesting", &[50, 99, 100, 101, 1000, 20000]), ("chain-forward", &[20, 80, 200]), ("chain-prev", &[100, 1000]),
        ("loop", &[10, 999, 1000, 1001]), ("path", &[100, 10000, 100000]), ("points", &[100, 10000]), ("expr-sum", &[10, 1000, 20000]), ("expr-parens", &[10, 100, 101, 3000, 20000, 100000]), ("expr-minus", &[10, 100, 101, 3000, 20000, 100000]), ("expr-calls", &[10, 101, 3000, 20000]), ("scope-chain", &[10, 100, 102, 2000]), ("nested-fail", &[2, 6, 10, 24, 90]), ("nested-fail-after", &[2, 6, 10, 24, 90]), ("nested-late", &[2, 6, 10, 24, 90]),
        ("var-chain", &[10, 300]), ("scope-chain-parens", &[3002, 40055, 50050, 70029, 9090, 90009]), ("scope-lookup", &[5, 12]), ("use-chain", &[10, 300]), ("reuse-self", &[1]), ("idle-var-ids", &[0, 1, 3]), ("idle-var-ids-behind", &[0, 1, 3]), ("idle-random-ids-behind", &[1, 2, 4]), ("idle-var-ids-first", &[0, 1, 3]), ("idle-random-ids-first", &[1, 2, 4]), ("idle-random-ids", &[1, 2, 4]), ("idle-loop-ids", &[1, 3]), ("text-lines", &[10, 2000]), ("classes", &[10, 2000]),
    ];
    for (k, ns) in sizes {
        for n in ns.iter() {
            if !thorough && *n > 20000 { continue; }
            cases.push(scaled(k, *n));
            tags.push(format!("scale:{k}:{n}"));
        }
    }
    judge_isolated(rep, &mut st, &cases, &tags, Duration::from_secs(80), 1000);
    rep.streams.push(st);

    // "time proportional to the work the document explicitly asks for": the limits above only catch what
    // exceeds a budget at the sizes tried; a quadratic scan of long data stays far below it in an optimised
    // build. So the GROWTH is measured as well: the same construct at n and at 4n.
    growth_stream(rep);

    let mut st = Stream::new("chains/href", "oracle", "all 640 small documents combining a use / reuse whose href is `^`, an id, itself or a second use / reuse (with and without ids, cycles included) with a later element that refers to it by `^` or by id (position, connector, surround): each in a child process with a 10 s limit, result or error required");
    let cases = ref_chain_docs();
    let tags: Vec<String> = cases.iter().map(|_| "chains:href".to_string()).collect();
    judge_isolated(rep, &mut st, &cases, &tags, Duration::from_secs(10), 1000);
    rep.streams.push(st);

    let mut drv = Driver::start()?;
    path_stream(rep, &mut drv, &mut rng.fork(), n_path)?;
    bearing_stream(rep, &mut drv, &mut rng.fork(), n_path)?;
    frontends_stream(rep, &mut rng.fork(), n_front);
    sweep_other_generators(rep, tier, seed);
    Ok(())
}
