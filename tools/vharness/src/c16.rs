//! C16 — loops and conditionals render exactly what their unrolling renders.
//!
//! A program P is generated as a small AST (shapes that use the loop variables, `<var>` counters,
//! count / while / until loops, `<for>`, `<if>`, groups, nesting). The harness unrolls it by hand into
//! a loop-free program U(P) — `<var i="value"/>` before each copy of a body — and
//!  * oracle/unrolling: transform(P) must equal transform(U(P)) event for event (and the number of
//!    rendered shapes must equal the count the unroller predicts);
//!  * doc/loops (correspondence): transform(P) vs the Lean control-skeleton model with the real
//!    expression evaluator (events + end-of-run probe).
use crate::ctl::*;
use crate::driver::Driver;
use crate::report::*;
use crate::rng::Rng;
use serde_json::json;
use std::collections::HashMap;

#[derive(Clone, Debug)]
enum S {
    /// a shape; the same element in P and in U
    Leaf(X),
    /// `<var name="value"/>` with a constant
    Init(String, f32),
    /// `<var name="{{$name + step}}"/>`
    Incr(String, f32),
    Count { n: usize, spell: u8, var: Option<(String, f32, f32)>, body: Vec<S> },
    While { ctr: String, bound: f32, body: Vec<S> },
    Until { ctr: String, bound: f32, body: Vec<S> },
    For { var: String, idx: Option<String>, items: Vec<String>, spell: u8, body: Vec<S> },
    If { var: String, op: &'static str, c: f32, body: Vec<S> },
    Group(Vec<S>),
}

fn fs(v: f32) -> String {
    format!("{}", v)
}

struct Gen<'a> {
    rng: &'a mut Rng,
    n_shape: usize,
}

const VARS: [&str; 4] = ["i", "j", "k", "m"];

impl<'a> Gen<'a> {
    fn half(&mut self, lo: i64, hi: i64) -> f32 {
        self.rng.range(lo, hi) as f32 / 2.0
    }

    /// a shape that may use the numeric variables in scope
    fn leaf(&mut self, scope: &[String]) -> S {
        self.n_shape += 1;
        let tag = format!("s{}", self.n_shape);
        let v = if scope.is_empty() { None } else { Some(scope[self.rng.below(scope.len())].clone()) };
        let coord = |g: &mut Gen, v: &Option<String>| -> String {
            match v {
                Some(name) if g.rng.chance(2, 3) => {
                    let m = g.rng.range(2, 12);
                    let c = g.rng.range(-10, 10);
                    match g.rng.below(3) {
                        0 => format!("{{{{${name} * {m} + {c}}}}}"),
                        1 => format!("{{{{{c} - ${name} * {m}}}}}"),
                        _ => format!("{{{{${{{name}}} * {m}}}}}"),
                    }
                }
                _ => g.rng.range(-30, 30).to_string(),
            }
        };
        let x = match self.rng.below(6) {
            0 => X::leaf("rect", &[("data-t", &tag), ("xy", &format!("{} {}", coord(self, &v), coord(self, &v))), ("wh", &format!("{} {}", self.rng.range(1, 9), self.rng.range(1, 9)))]),
            1 => X::leaf("circle", &[("data-t", &tag), ("cxy", &format!("{} {}", coord(self, &v), coord(self, &v))), ("r", &self.rng.range(1, 6).to_string())]),
            2 => {
                // placed relative to the previous element
                let d = *self.rng.pick(&["h", "v", "H", "V"]);
                X::leaf("rect", &[("data-t", &tag), ("xy", &format!("^|{d} {}", self.rng.range(0, 4))), ("wh", &format!("{} {}", self.rng.range(1, 9), self.rng.range(1, 9)))])
            }
            3 => {
                // text and class from the variables
                let txt = match &v { Some(n) => format!("cell ${n}"), None => "cell".into() };
                let cls = match &v { Some(n) if self.rng.chance(1, 2) => format!("c${n} row"), _ => "row".into() };
                X::leaf("rect", &[("data-t", &tag), ("xy", &format!("{} {}", coord(self, &v), coord(self, &v))), ("wh", "8 4"), ("text", &txt), ("class", &cls)])
            }
            4 => X::leaf("line", &[("data-t", &tag), ("xy1", &format!("{} {}", coord(self, &v), coord(self, &v))), ("xy2", &format!("{} {}", coord(self, &v), coord(self, &v)))]),
            _ => X::leaf("ellipse", &[("data-t", &tag), ("cxy", &format!("{} {}", coord(self, &v), coord(self, &v))), ("rxy", &format!("{} {}", self.rng.range(1, 6), self.rng.range(1, 6)))]),
        };
        S::Leaf(x)
    }

    /// a block of statements; `scope` = numeric variables defined here; `depth` = loop nesting so far
    fn block(&mut self, scope: &mut Vec<String>, depth: usize, budget: &mut i64) -> Vec<S> {
        let mut out = vec![];
        let k = 1 + self.rng.below(3);
        for _ in 0..k {
            if *budget <= 0 {
                break;
            }
            let pick = if depth >= 3 { self.rng.below(3) } else { self.rng.below(11) };
            match pick {
                0 | 1 | 2 => { *budget -= 1; let l = self.leaf(scope); out.push(l); }
                3 | 4 => {
                    // count loop, optionally with a loop variable
                    let n = *self.rng.pick(&[0usize, 1, 2, 3, 3, 4, 5]);
                    let name = VARS[depth.min(3)].to_string();
                    let var = if self.rng.chance(3, 4) {
                        // among them values that are exact in binary but have more than three decimals: the loop
                        // variable carries the value itself, not its 3-decimal output form
                        let start = *self.rng.pick(&[0.0f32, 0.0, 1.0, -1.5, 2.5, -3.0, 10.0, 0.0625, -0.4375]);
                        let step = *self.rng.pick(&[1.0f32, 1.0, 2.0, -1.0, 0.5, -0.5, 1.5, 0.25, 0.0, 0.0625, 0.03125, -0.1875]);
                        Some((name.clone(), start, step))
                    } else {
                        None
                    };
                    // the body sees the loop variable; what it defines itself may not exist afterwards
                    // (zero passes), but the loop variable keeps its last value once a pass was made
                    let mut inner = scope.clone();
                    if var.is_some() && !inner.contains(&name) { inner.push(name.clone()); }
                    *budget -= 2 * n as i64;
                    let body = self.block(&mut inner, depth + 1, budget);
                    if var.is_some() && n >= 1 && !scope.contains(&name) { scope.push(name.clone()); }
                    if self.rng.chance(1, 4) {
                        // the count is read from a variable that the body itself changes: the count is
                        // evaluated once, on entry, so the loop still makes exactly n passes
                        let ctr = format!("k{depth}");
                        out.push(S::Init(ctr.clone(), n as f32));
                        if !scope.contains(&ctr) { scope.push(ctr.clone()); }
                        let mut body = body;
                        body.push(S::Incr(ctr.clone(), *self.rng.pick(&[-1.0f32, 1.0, 2.0])));
                        out.push(S::Count { n, spell: if self.rng.chance(1, 2) { 3 } else { 4 }, var, body });
                    } else {
                        out.push(S::Count { n, spell: self.rng.below(3) as u8, var, body });
                    }
                }
                5 => {
                    // while over a counter
                    let ctr = format!("w{depth}");
                    let bound = self.rng.range(0, 4) as f32;
                    out.push(S::Init(ctr.clone(), *self.rng.pick(&[0.0f32, 0.0, 1.0, 5.0])));
                    if !scope.contains(&ctr) { scope.push(ctr.clone()); }
                    *budget -= 6;
                    let mut inner = scope.clone();
                    let mut body = self.block(&mut inner, depth + 1, budget);
                    body.push(S::Incr(ctr.clone(), 1.0));
                    out.push(S::While { ctr, bound, body });
                }
                6 => {
                    let ctr = format!("u{depth}");
                    let bound = self.rng.range(0, 4) as f32;
                    out.push(S::Init(ctr.clone(), *self.rng.pick(&[0.0f32, 0.0, 1.0, 5.0])));
                    if !scope.contains(&ctr) { scope.push(ctr.clone()); }
                    *budget -= 6;
                    let mut inner = scope.clone();
                    let mut body = self.block(&mut inner, depth + 1, budget);
                    body.push(S::Incr(ctr.clone(), *self.rng.pick(&[1.0f32, 1.0, 2.0, 0.5])));
                    out.push(S::Until { ctr, bound, body });
                }
                7 => {
                    let var = format!("f{depth}");
                    let n = self.rng.below(5);
                    let items: Vec<String> = (0..n).map(|_| { let v = self.half(-12, 12); fs(v) }).collect();
                    if items.is_empty() {
                        let l = self.leaf(scope);
                        out.push(l);
                        continue;
                    }
                    let idx = if self.rng.chance(1, 2) { Some(format!("x{depth}")) } else { None };
                    let mut inner = scope.clone();
                    inner.push(var.clone());
                    if let Some(ix) = &idx { inner.push(ix.clone()); }
                    *budget -= 2 * n as i64;
                    let body = self.block(&mut inner, depth + 1, budget);
                    // items is non-empty: the variables keep the values of the last pass
                    if !scope.contains(&var) { scope.push(var.clone()); }
                    if let Some(ix) = &idx { if !scope.contains(ix) { scope.push(ix.clone()); } }
                    out.push(S::For { var, idx, items, spell: self.rng.below(3) as u8, body });
                }
                8 | 9 => {
                    if scope.is_empty() {
                        let l = self.leaf(scope);
                        out.push(l);
                        continue;
                    }
                    let var = scope[self.rng.below(scope.len())].clone();
                    let op = *self.rng.pick(&["lt", "le", "gt", "ge", "eq", "ne", "mod2", "truthy"]);
                    let c = self.rng.range(-2, 4) as f32;
                    let mut inner = scope.clone();
                    let body = self.block(&mut inner, depth + 1, budget);
                    out.push(S::If { var, op, c, body });
                }
                _ => {
                    let mut inner = scope.clone();
                    let body = self.block(&mut inner, depth + 1, budget);
                    out.push(S::Group(body));
                }
            }
        }
        out
    }
}

fn var_el(pairs: &[(&str, &str)]) -> X {
    X::leaf("var", pairs)
}

/// P: the program as written
fn to_p(ss: &[S]) -> Vec<X> {
    let mut out = vec![];
    for s in ss {
        match s {
            S::Leaf(x) => out.push(x.clone()),
            S::Init(n, v) => out.push(var_el(&[(n, &fs(*v))])),
            S::Incr(n, st) => out.push(var_el(&[(n, &format!("{{{{${n} + {}}}}}", fs(*st)))])),
            S::Count { n, spell, var, body } => {
                // spellings 3 / 4: the counter variable initialised just before the loop (named by the last
                // statement of the body, which updates it)
                let ctr = match body.last() { Some(S::Incr(c, _)) => c.clone(), _ => String::new() };
                let cnt = match spell { 0 => n.to_string(), 1 => format!("{{{{{} + {}}}}}", n / 2, n - n / 2), 3 => format!("${ctr}"), 4 => format!("{{{{${ctr}}}}}"), _ => format!("{{{{{n}}}}}") };
                let mut attrs: Vec<(String, String)> = vec![("count".into(), cnt)];
                if let Some((name, start, step)) = var {
                    attrs.push(("loop-var".into(), name.clone()));
                    if *start != 0.0 || *spell == 1 { attrs.push(("start".into(), fs(*start))); }
                    if *step != 1.0 || *spell == 2 { attrs.push(("step".into(), fs(*step))); }
                }
                out.push(X::El { name: "loop".into(), attrs, kids: Some(to_p(body)) });
            }
            S::While { ctr, bound, body } => out.push(X::node("loop", &[("while", &format!("{{{{${ctr} lt {}}}}}", fs(*bound)))], to_p(body))),
            S::Until { ctr, bound, body } => out.push(X::node("loop", &[("until", &format!("{{{{${ctr} ge {}}}}}", fs(*bound)))], to_p(body))),
            S::For { var, idx, items, spell, body } => {
                let data = match spell { 0 => items.join(", "), 1 => items.join(","), _ => format!("{{{{{}}}}}", items.join(", ")) };
                let mut attrs: Vec<(String, String)> = vec![("data".into(), data), ("var".into(), var.clone())];
                if let Some(ix) = idx { attrs.push(("idx-var".into(), ix.clone())); }
                out.push(X::El { name: "for".into(), attrs, kids: Some(to_p(body)) });
            }
            S::If { var, op, c, body } => {
                let test = match *op {
                    "mod2" => format!("{{{{${var} % 2}}}}"),
                    "truthy" => format!("${var}"),
                    o => format!("{{{{${var} {o} {}}}}}", fs(*c)),
                };
                out.push(X::node("if", &[("test", &test)], to_p(body)));
            }
            S::Group(body) => out.push(X::node("g", &[], to_p(body))),
        }
    }
    out
}

struct Unroll {
    env: HashMap<String, f32>,
    shapes: usize,
    steps: usize,
    overflow: bool,
}

/// what `fstr` prints (3 decimals, trailing zeros removed): the value a `{{…}}` result has as text
fn fstr32(v: f32) -> String {
    crate::util::fstr_ref(v as f64)
}

impl Unroll {
    fn cond(&self, var: &str, op: &str, c: f32) -> bool {
        let v = *self.env.get(var).unwrap_or(&0.0);
        match op {
            "lt" => v < c,
            "le" => v <= c,
            "gt" => v > c,
            "ge" => v >= c,
            "eq" => v == c,
            "ne" => v != c,
            "mod2" => v.rem_euclid(2.0) != 0.0,
            _ => v != 0.0,
        }
    }

    /// U: the loop-free program
    fn go(&mut self, ss: &[S], out: &mut Vec<X>) {
        for s in ss {
            self.steps += 1;
            if self.steps > 4000 {
                self.overflow = true;
                return;
            }
            match s {
                S::Leaf(x) => { self.shapes += 1; out.push(x.clone()) }
                S::Init(n, v) => { self.env.insert(n.clone(), *v); out.push(var_el(&[(n, &fs(*v))])) }
                S::Incr(n, st) => {
                    // the element stays as written (it is not a loop); the unroller tracks the value: the
                    // expression result is stored as its 3-decimal text
                    let cur = *self.env.get(n).unwrap_or(&0.0);
                    let nv: f32 = fstr32(cur + *st).parse().unwrap_or(cur + *st);
                    self.env.insert(n.clone(), nv);
                    out.push(var_el(&[(n, &format!("{{{{${n} + {}}}}}", fs(*st)))]));
                }
                S::Count { n, var, body, .. } => {
                    let mut v = var.as_ref().map(|x| x.1).unwrap_or(0.0);
                    for _ in 0..*n {
                        if let Some((name, _, step)) = var {
                            out.push(var_el(&[(name, &fs(v))]));
                            self.env.insert(name.clone(), v);
                            self.go(body, out);
                            v += *step;
                        } else {
                            self.go(body, out);
                        }
                    }
                }
                S::While { ctr, bound, body } => {
                    while *self.env.get(ctr).unwrap_or(&0.0) < *bound && !self.overflow {
                        self.go(body, out);
                    }
                }
                S::Until { ctr, bound, body } => loop {
                    self.go(body, out);
                    if *self.env.get(ctr).unwrap_or(&0.0) >= *bound || self.overflow { break; }
                },
                S::For { var, idx, items, body, .. } => {
                    for (i, it) in items.iter().enumerate() {
                        out.push(var_el(&[(var, it)]));
                        if let Some(ix) = idx { out.push(var_el(&[(ix, &i.to_string())])); self.env.insert(ix.clone(), i as f32); }
                        self.env.insert(var.clone(), it.parse().unwrap_or(0.0));
                        self.go(body, out);
                    }
                }
                S::If { var, op, c, body } => {
                    if self.cond(var, op, *c) { self.go(body, out); }
                }
                S::Group(body) => {
                    // a group is a scope: assignments made inside are discarded when it closes
                    let saved = self.env.clone();
                    let mut inner = vec![];
                    self.go(body, &mut inner);
                    self.env = saved;
                    out.push(X::node("g", &[], inner));
                }
            }
        }
    }
}

fn count_shapes(events: &[String]) -> usize {
    events.iter().filter(|e| e.contains("\u{1f}data-t\u{1f}")).count()
}

fn forms(ss: &[S], acc: &mut Vec<&'static str>) {
    for s in ss {
        match s {
            S::Count { body, var, .. } => { acc.push(if var.is_some() { "count+var" } else { "count" }); forms(body, acc) }
            S::While { body, .. } => { acc.push("while"); forms(body, acc) }
            S::Until { body, .. } => { acc.push("until"); forms(body, acc) }
            S::For { body, .. } => { acc.push("for"); forms(body, acc) }
            S::If { body, .. } => { acc.push("if"); forms(body, acc) }
            S::Group(body) => { acc.push("group"); forms(body, acc) }
            _ => {}
        }
    }
}

pub fn judge(p_xml: &str, u_xml: &str, shapes: Option<usize>) -> Option<String> {
    let lim = Limits::default();
    let rp = run_impl(p_xml, lim);
    let ru = run_impl(u_xml, lim);
    if ru.status != "ok" && rp.status != "ok" {
        // neither renders anything (e.g. `^` with nothing before it): consistent
        return None;
    }
    if ru.status != "ok" {
        return Some(format!("the program transforms while its unrolling fails ({})", ru.status));
    }
    if rp.status != "ok" {
        return Some(format!("the program fails ({}) while its unrolling transforms", rp.status));
    }
    if rp.events != ru.events {
        let idx = rp.events.iter().zip(ru.events.iter()).position(|(a, b)| a != b).unwrap_or(rp.events.len().min(ru.events.len()));
        return Some(format!("output event {idx}: program {:?} vs unrolling {:?} (lengths {} / {})", rp.events.get(idx), ru.events.get(idx), rp.events.len(), ru.events.len()));
    }
    if let Some(n) = shapes {
        let got = count_shapes(&rp.events);
        if got != n {
            return Some(format!("{got} shapes rendered, the loop semantics give {n}"));
        }
    }
    None
}

fn corpus(rep: &mut Report) {
    let mut st = Stream::new("corpus", "oracle", "files of /verif/corpus/C16 (past failures): program and unrolling must render the same");
    let dir = std::path::Path::new("/verif/corpus/C16");
    let mut files: Vec<_> = std::fs::read_dir(dir).map(|d| d.filter_map(|e| e.ok()).map(|e| e.path()).collect()).unwrap_or_default();
    files.sort();
    for f in files {
        let Ok(txt) = std::fs::read_to_string(&f) else { continue };
        let Ok(v) = serde_json::from_str::<serde_json::Value>(&txt) else { continue };
        let name = f.file_name().map(|s| s.to_string_lossy().to_string()).unwrap_or_default();
        st.case(&name, true, || json!({"file": name}));
        let sig = v.get("signature").and_then(|s| s.as_str()).unwrap_or("C16:corpus").to_string();
        let p = v.get("input").and_then(|s| s.as_str()).unwrap_or("");
        let u = v.get("unrolled").and_then(|s| s.as_str()).unwrap_or("");
        match judge(p, u, v.get("shapes").and_then(|s| s.as_u64()).map(|n| n as usize)) {
            None => st.exact += 1,
            Some(what) => rep.violation(Violation { kind: "oracle", stream: "corpus".into(), signature: sig, what, replay: v.clone(), confirmed_on_impl: true }),
        }
    }
    rep.streams.push(st);
}

pub fn replay(rep: &mut Report, v: &serde_json::Value) {
    let mut st = Stream::new("replay", "oracle", "one replay file judged against the implementation");
    st.case("replay", true, || v.clone());
    let p = v.get("input").and_then(|s| s.as_str()).unwrap_or("");
    let u = v.get("unrolled").and_then(|s| s.as_str()).unwrap_or("");
    match judge(p, u, v.get("shapes").and_then(|s| s.as_u64()).map(|n| n as usize)) {
        None => st.exact += 1,
        Some(what) => rep.violation(Violation { kind: "oracle", stream: "replay".into(), signature: "C16:replay".into(), what, replay: v.clone(), confirmed_on_impl: true }),
    }
    rep.streams.push(st);
}

pub fn run(rep: &mut Report, tier: &str, seed: u64) -> Result<(), String> {
    let mut rng = Rng::new(seed);
    let mut drv = Driver::start()?;
    let n = if tier == "thorough" { 30_000 } else { 1_500 };
    corpus(rep);
    let mut corr = Stream::new(
        "doc/loops",
        "correspondence",
        "programs of shapes (coordinates, text and classes computed from the variables in scope, `^`-relative placement), counter variables, count loops (literal / expression counts 0-5, loop-var with fractional / negative / zero start and step), while and until loops over counters, <for> over lists (with idx-var), <if> over the variables (six comparisons, remainder, truthiness), groups, nested to depth 4: transform_str (events + end-of-run probe) vs the Lean control-skeleton model running the Lean expression evaluator; non-trivial = at least one loop / for / if",
    );
    let mut orc = Stream::new(
        "oracle/unrolling",
        "oracle",
        "the same programs against their manual unrolling (loop-free: <var v=\"value\"/> before each copy of a body, conditionals resolved, groups kept): transform(P) and transform(U(P)) must have identical element events, and the number of rendered shapes must be the one the loop semantics give",
    );
    let lim = Limits::default();
    let mut grng = rng.fork();
    for _ in 0..n {
        let mut g = Gen { rng: &mut grng, n_shape: 0 };
        let mut scope = vec![];
        let mut budget = 60i64;
        let mut prog = vec![S::Leaf(X::leaf("rect", &[("data-t", "s0"), ("xy", "0 0"), ("wh", "2")]))];
        prog.extend(g.block(&mut scope, 0, &mut budget));
        let p = to_p(&prog);
        let mut un = Unroll { env: HashMap::new(), shapes: 0, steps: 0, overflow: false };
        let mut u = vec![];
        un.go(&prog, &mut u);
        if un.overflow {
            continue;
        }
        let p_xml = doc_xml(&p);
        let u_xml = doc_xml(&u);
        let mut fm = vec![];
        forms(&prog, &mut fm);
        let nontrivial = !fm.is_empty();
        corr.case(&p_xml, nontrivial, || json!({"document": p_xml}));
        for f in &fm { corr.tally(f); }
        corr.tally(&format!("shapes={}", un.shapes.min(20)));
        let imp = run_impl(&p_xml, lim);
        let mdl = run_model(&mut drv, &p, lim)?;
        corr.tally(&format!("impl={}", imp.status));
        if mdl.outside {
            corr.skipped += 1;
        } else {
            match agree(&imp, &mdl) {
                Ok(()) => corr.exact += 1,
                Err(what) => rep.violation(Violation { kind: "correspondence", stream: corr.name.clone(), signature: "loops".into(), what, replay: json!({"input": p_xml}), confirmed_on_impl: false }),
            }
        }
        orc.case(&p_xml, nontrivial, || json!({"document": p_xml, "unrolled": u_xml, "shapes": un.shapes}));
        match judge(&p_xml, &u_xml, Some(un.shapes)) {
            None => orc.exact += 1,
            Some(what) => {
                let sig = fm.first().copied().unwrap_or("plain");
                rep.violation(Violation { kind: "oracle", stream: orc.name.clone(), signature: format!("C16:{sig}"), what, replay: json!({"input": p_xml, "unrolled": u_xml, "shapes": un.shapes}), confirmed_on_impl: true })
            }
        }
    }
    rep.streams.push(corr);
    rep.streams.push(orc);
    Ok(())
}
