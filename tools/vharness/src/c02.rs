//! C02 — successful output is always well-formed XML with a proper SVG root.
//! C05 — output is a fixed point (same documents, second pass).
use crate::driver::Driver;
use crate::expat::Expat;
use crate::report::*;
use crate::rng::Rng;
use crate::util::*;
use crate::xmlgen::*;
use serde_json::json;
use svgdx::verif_hooks as hooks;

fn short(s: &str) -> String {
    if s.len() > 1200 { format!("{}… ({} bytes)", s.chars().take(1200).collect::<String>(), s.len()) } else { s.to_string() }
}

/// writer correspondence: random event lists through the hook `write_events` and the Lean writer model
fn stream_writer(rep: &mut Report, drv: &mut Driver, rng: &mut Rng, n: usize) -> Result<(), String> {
    let mut st = Stream::new(
        "writer/events",
        "correspondence",
        "random output-event lists (start / empty / end with hostile attribute values and classes, text runs with blank-line patterns, comments with dashes, CDATA with ]]>) serialised by OutputList::write_to (hook write_events) vs the Lean writer model, byte for byte; non-trivial = every case",
    );
    for _ in 0..n {
        let k = 1 + rng.below(7);
        let mut evs: Vec<(String, hooks::RawElement, String)> = vec![];
        let mut toks: Vec<String> = vec![];
        for _ in 0..k {
            match rng.below(7) {
                0 | 1 => {
                    let mut el = El::new(*rng.pick(&["rect", "g", "text", "svg"]));
                    let mut used: Vec<&str> = vec![];
                    for _ in 0..rng.below(4) {
                        let key = *rng.pick(&["id", "x", "width", "data-x", "style", "href", "zz"]);
                        if used.contains(&key) { continue; }
                        used.push(key);
                        el.push(key, &hostile(rng, 4));
                    }
                    if rng.chance(1, 2) { el.push("class", &format!("{} {}", rng.pick(&["a", "d-red"]), rng.pick(&["b", "c<", "x&y"]))); }
                    let kind = if rng.chance(1, 2) { "start" } else { "empty" };
                    // the hook builds the element through SvgElement::new, as the model does
                    toks.push(format!("{} {}", if kind == "start" { "S" } else { "L" }, el.encode()));
                    evs.push((kind.to_string(), el.raw(), String::new()));
                }
                2 => {
                    let name = rng.pick(&["rect", "g", "svg"]).to_string();
                    toks.push(format!("E {name}"));
                    evs.push(("end".into(), ("".into(), vec![]), name));
                }
                3 | 4 => {
                    let mut t = hostile(rng, 5);
                    // characters XML cannot contain at all: the writer must refuse, not write them
                    if rng.chance(1, 10) { t.push_str(*rng.pick(&["\u{1}", "\u{2}", "\u{8}", "\u{b}", "\u{c}", "\u{e}", "\u{1f}", "\u{0}", "\u{fffe}", "\u{ffff}"])); }
                    if rng.chance(1, 2) { t = format!("{}  \n  {} \t\n", t, hostile(rng, 2)); }
                    toks.push(format!("T {t}"));
                    evs.push(("text".into(), ("".into(), vec![]), t));
                }
                5 => {
                    let c = format!(" {} ", hostile(rng, 4));
                    toks.push(format!("C {c}"));
                    evs.push(("comment".into(), ("".into(), vec![]), c));
                }
                _ => {
                    let c = hostile(rng, 4);
                    toks.push(format!("D {c}"));
                    evs.push(("cdata".into(), ("".into(), vec![]), c));
                }
            }
        }
        let imp = hooks::write_events(&evs).map(|b| String::from_utf8_lossy(&b).to_string());
        let tr: Vec<&str> = toks.iter().map(|s| s.as_str()).collect();
        let m = drv.call("xml_write2", &tr)?;
        let key = toks.join("|");
        st.case(&key, true, || json!({"events": toks, "impl": imp, "model": m}));
        match &imp {
            Ok(s) if Some(s) == m.first() => st.exact += 1,
            Err(_) if m.first().map(|x| x.as_str()) == Some("err") => { st.exact += 1; st.tally("refused-unwritable"); }
            other => rep.violation(Violation { kind: "correspondence", stream: st.name.clone(), signature: "writer".into(), what: format!("impl {:?} vs model {:?}", other, m.first()), replay: json!({"events": toks}), confirmed_on_impl: false }),
        }
    }
    rep.streams.push(st);
    Ok(())
}

pub struct DocCase {
    pub doc: String,
    pub has_root: bool,
}

pub fn gen_case(rng: &mut Rng, i: usize) -> DocCase {
    let has_root = i % 5 != 4;
    DocCase { doc: svgdx_doc(rng, has_root), has_root }
}

/// the C02 predicate on one output
pub fn check_wellformed(ex: &mut Expat, out: &str, has_root: bool) -> Option<(String, String)> {
    if has_root {
        match ex.parse(out.as_bytes()) {
            Err(e) => Some(("not-wellformed".into(), format!("independent parser rejects the output: {e}"))),
            Ok(info) => {
                if info.get("root").and_then(|r| r.as_str()) != Some("svg") {
                    return Some(("root".into(), format!("root element is {:?}, not svg", info.get("root"))));
                }
                let first = info["infoset"].as_array().and_then(|a| a.iter().find(|it| it[0] == "start").cloned());
                let attrs = first.as_ref().and_then(|f| f[2].as_array().cloned()).unwrap_or_default();
                let get = |k: &str| attrs.iter().find(|kv| kv[0] == k).and_then(|kv| kv[1].as_str().map(|s| s.to_string()));
                if get("xmlns").as_deref() != Some("http://www.w3.org/2000/svg") {
                    return Some(("xmlns".into(), format!("root does not declare the SVG namespace: {:?}", get("xmlns"))));
                }
                if get("version").is_none() {
                    return Some(("version".into(), "root has no version attribute".into()));
                }
                None
            }
        }
    } else {
        match ex.parse_fragment(out.as_bytes()) {
            Err(e) => Some(("not-wellformed".into(), format!("independent parser rejects the output fragment: {e}"))),
            Ok(_) => None,
        }
    }
}

/// byte-level input through `transform_stream`: documents (real SVG, and svgdx documents holding a namespaced
/// <svg> subtree) with bytes that are not UTF-8 placed inside a comment, a processing instruction, the DOCTYPE,
/// character data, an attribute value or a CDATA section. Whatever succeeds must be well-formed UTF-8 XML.
fn stream_bytes(rep: &mut Report, ex: &mut Expat, rng: &mut Rng, n: usize) {
    let mut st = Stream::new(
        "oracle/wellformed-bytes",
        "oracle",
        "byte input (transform_stream): real SVG documents and svgdx documents with an embedded namespaced <svg>, with one run of non-UTF-8 bytes (Latin-1 letters, 0xFF 0xFE, a truncated multi-byte sequence) inside a comment / PI / DOCTYPE / text / attribute value / CDATA section, in the prolog, in the pass-through region or in the processed part; a successful transform must write valid UTF-8 that the independent parser accepts; non-trivial = every case",
    );
    for _ in 0..n {
        let bad: &[u8] = *rng.pick(&[&b"caf\xe9"[..], &b"\xff\xfe"[..], &b"\xf4"[..], &b"na\xefve \xe2\x82"[..]]);
        let slot = rng.below(6);
        let piece = |k: usize| -> Vec<u8> {
            let mut v: Vec<u8> = vec![];
            match k {
                0 => { v.extend_from_slice(b"<!-- "); v.extend_from_slice(bad); v.extend_from_slice(b" -->"); }
                1 => { v.extend_from_slice(b"<?pi "); v.extend_from_slice(bad); v.extend_from_slice(b"?>"); }
                2 => { v.extend_from_slice(b"<desc>"); v.extend_from_slice(bad); v.extend_from_slice(b"</desc>"); }
                3 => { v.extend_from_slice(b"<rect width=\"2\" height=\"2\" data-n=\""); v.extend_from_slice(bad); v.extend_from_slice(b"\"/>"); }
                4 => { v.extend_from_slice(b"<style><![CDATA[ /* "); v.extend_from_slice(bad); v.extend_from_slice(b" */ ]]></style>"); }
                _ => { v.extend_from_slice(b"<!DOCTYPE svg [ <!-- "); v.extend_from_slice(bad); v.extend_from_slice(b" --> ]>"); }
            }
            v
        };
        let mut doc: Vec<u8> = vec![];
        let place = rng.below(4);
        let p = piece(if place == 0 { *rng.pick(&[0usize, 1, 5]) } else { slot.min(4) });
        match place {
            // prolog of a real SVG document
            0 => { doc.extend_from_slice(&p); doc.extend_from_slice(b"\n<svg xmlns=\"http://www.w3.org/2000/svg\"><rect width=\"3\" height=\"3\"/></svg>"); }
            // inside a real SVG document
            1 => { doc.extend_from_slice(b"<svg xmlns=\"http://www.w3.org/2000/svg\"><g>"); doc.extend_from_slice(&p); doc.extend_from_slice(b"</g></svg>"); }
            // inside a namespaced <svg> embedded in an svgdx document
            2 => { doc.extend_from_slice(b"<svg><rect wh=\"4\"/><svg xmlns=\"http://www.w3.org/2000/svg\" viewBox=\"0 0 3 3\">"); doc.extend_from_slice(&p); doc.extend_from_slice(b"</svg><circle r=\"2\"/></svg>"); }
            // in the processed part of an svgdx document
            _ => { doc.extend_from_slice(b"<svg><rect wh=\"4\"/>"); doc.extend_from_slice(&p); doc.extend_from_slice(b"<circle r=\"2\"/></svg>"); }
        }
        let shown = String::from_utf8_lossy(&doc).to_string();
        st.case(&shown, true, || json!({"document_lossy": shown}));
        st.tally(&format!("place={place}"));
        let d2 = doc.clone();
        let r = std::panic::catch_unwind(move || {
            let mut out: Vec<u8> = vec![];
            let mut inp = std::io::Cursor::new(d2);
            svgdx::transform_stream(&mut inp, &mut out, &svgdx::TransformConfig::default()).map(|_| out).map_err(|e| format!("{e:?}"))
        });
        let hexin: String = doc.iter().map(|b| format!("{b:02x}")).collect();
        match r {
            Err(_) => rep.violation(Violation { kind: "oracle", stream: st.name.clone(), signature: "C02:panic".into(), what: "panic on byte input".into(), replay: json!({"input_hex": hexin}), confirmed_on_impl: true }),
            Ok(Err(_)) => { st.tally("transform-error"); st.skipped += 1; }
            Ok(Ok(out)) => {
                let bad_out = match String::from_utf8(out.clone()) {
                    Err(_) => Some("the output is not valid UTF-8".to_string()),
                    Ok(_) => match ex.parse(&out) { Err(e) => Some(format!("independent parser rejects the output: {e}")), Ok(_) => None },
                };
                match bad_out {
                    None => st.exact += 1,
                    Some(what) => rep.violation(Violation { kind: "oracle", stream: st.name.clone(), signature: "C02:bytes".into(), what, replay: json!({"input_hex": hexin, "input_lossy": shown}), confirmed_on_impl: true }),
                }
            }
        }
    }
    rep.streams.push(st);
}


/// references, well-formed and not, in content that is copied to the output as written and in content that is
/// processed: whatever succeeds must be accepted by the independent parser (a bare `&`, a reference without its
/// semicolon, a signed or empty number, an entity no DOCTYPE declares are not well-formed XML).
fn stream_references(rep: &mut Report, ex: &mut Expat, rng: &mut Rng, n: usize) {
    let mut st = Stream::new(
        "oracle/references",
        "oracle",
        "one or two reference-like pieces (the five predefined entities, decimal / hexadecimal character references with leading zeros, upper-case digits, astral and boundary code points; a bare &, a missing semicolon, &#+65; &#x+41; &#-1; &#x; &#; &# 65; &#X41; &#65 ; surrogates, 0xFFFE, 0x110000, a number too long for 32 bits, undeclared and DOCTYPE-declared entities, && &;) in character data or an attribute value of a real SVG document, of a namespaced <svg> embedded in an svgdx document, of a text-only element, of a shape's text content or text attribute and of a tail after an element; with and without a DOCTYPE that declares the entity used; a successful transform must be accepted by the independent parser; non-trivial = every case",
    );
    const GOOD: &[&str] = &["&amp;", "&lt;", "&gt;", "&apos;", "&quot;", "&#65;", "&#0065;", "&#x41;", "&#x0041;", "&#xe9;", "&#xE9;", "&#9;", "&#10;", "&#x20;", "&#xD7FF;", "&#xE000;", "&#xFFFD;", "&#x10000;", "&#x10FFFF;", "&#128512;", "&amp;amp;", "&amp;#2;"];
    const BAD: &[&str] = &["&", "& ", "a & b", "&amp", "&lt", "&#65", "&#x41", "&#+65;", "&#x+41;", "&#-1;", "&#x;", "&#;", "&# 65;", "&#X41;", "&#65 ;", "&#xD800;", "&#xDFFF;", "&#xFFFE;", "&#xFFFF;", "&#x110000;", "&#0;", "&#2;", "&#11;", "&#4294967361;", "&#x100000041;", "&foo;", "&nbsp;", "&Amp;", "&&amp;", "&;", "&1a;", "&a b;", "&#65;&#", "&amp;&", "&#x4G;", "&#6 5;", "&#65;;&", "&-a;", "&.a;"];
    for _ in 0..n {
        let k = 1 + rng.below(2);
        let mut piece = String::new();
        let mut any_bad = false;
        for j in 0..k {
            if j > 0 { piece.push_str(*rng.pick(&["", " ", "x"])); }
            if rng.below(5) < 2 { piece.push_str(*rng.pick(GOOD)); } else { piece.push_str(*rng.pick(BAD)); any_bad = true; }
        }
        // a DOCTYPE that declares `foo` and `nbsp` (so &foo; / &nbsp; alone are well-formed there); never a DOCTYPE
        // together with an entity it does not declare (open finding C02:undeclared-entity-with-doctype)
        let declared_only = !piece.contains("&Amp;");
        let doctype = declared_only && rng.below(4) == 0;
        let pre = if doctype { "<!DOCTYPE svg [<!ENTITY foo \"bar\"><!ENTITY nbsp \"&#160;\">]>\n" } else { "" };
        let in_attr = rng.below(3) == 0;
        // the two other things a parser refuses in copied content: "]]>" in character data, '<' in an attribute value
        if rng.below(8) == 0 { piece.push_str(if in_attr { *rng.pick(&["a<b", "<"]) } else { *rng.pick(&["a ]]> b", "]]>", "]]]>>"]) }); any_bad = true; }
        let place = rng.below(7);
        let carrier = if in_attr { format!("<rect width=\"2\" height=\"2\" data-n=\"{piece}\"/>") } else { format!("<desc>{piece}</desc>") };
        let doc = match place {
            0 => format!("{pre}<svg xmlns=\"http://www.w3.org/2000/svg\"><g>{carrier}</g></svg>"),
            1 => format!("{pre}<svg xmlns=\"http://www.w3.org/2000/svg\"><text x=\"1\" y=\"2\">{piece}<tspan>t</tspan> {piece}</text></svg>"),
            2 => format!("{pre}<svg><rect wh=\"4\"/><svg xmlns=\"http://www.w3.org/2000/svg\" viewBox=\"0 0 3 3\">{carrier}</svg><circle r=\"2\"/></svg>"),
            3 => format!("{pre}<svg><rect wh=\"4\"/><text xy=\"1\">{piece}<tspan>a</tspan></text>{carrier}</svg>"),
            4 => format!("{pre}<svg><rect wh=\"20 10\">{piece}</rect><text xy=\"1 2\">{piece}</text></svg>"),
            5 => format!("{pre}<svg><rect wh=\"20 10\" text=\"{piece}\"/></svg>"),
            _ => format!("{pre}<svg><g><rect wh=\"4\"/>{piece}</g><style>{piece}</style></svg>"),
        };
        st.case(&doc, true, || json!({"document": short(&doc)}));
        st.tally(&format!("place={place}"));
        st.tally(if any_bad { "malformed-piece" } else { "wellformed-pieces" });
        if doctype { st.tally("doctype"); }
        match transform(&doc, &default_cfg()) {
            Err(p) => rep.violation(Violation { kind: "oracle", stream: st.name.clone(), signature: "C02:panic".into(), what: format!("panic: {p}"), replay: json!({"input": doc}), confirmed_on_impl: true }),
            Ok(Err(e)) => {
                st.tally(&format!("transform-error:{}", err_kind(&e)));
                st.skipped += 1;
                // C04-side sanity: nothing but well-formed references in real SVG must not be rejected
                if !any_bad && place <= 2 && !(doctype && in_attr) {
                    rep.violation(Violation { kind: "oracle", stream: st.name.clone(), signature: "C02:wellformed-reference-rejected".into(), what: format!("a document whose references are all well-formed was rejected: {e:?}"), replay: json!({"input": doc, "has_root": true}), confirmed_on_impl: true });
                }
            }
            Ok(Ok(out)) => match ex.parse(out.as_bytes()) {
                Ok(_) => { st.exact += 1; st.tally(if any_bad { "accepted-with-malformed-piece" } else { "accepted" }); }
                Err(e) => rep.violation(Violation { kind: "oracle", stream: st.name.clone(), signature: "C02:reference".into(), what: format!("independent parser rejects the output: {e}"), replay: json!({"input": doc, "has_root": true, "output": short(&out)}), confirmed_on_impl: true }),
            },
        }
    }
    rep.streams.push(st);
}


/// the reader's reference check (events.rs invalid_reference, through the hook) against its Lean model
/// (Svgdx.Xml.RefCheck), answer for answer including the offending text
fn stream_refcheck(rep: &mut Report, drv: &mut Driver, rng: &mut Rng, n: usize) -> Result<(), String> {
    let mut st = Stream::new(
        "reader/reference-check",
        "correspondence",
        "strings assembled from reference fragments (&, #, x, X, ;, signs, decimal / hexadecimal digits, blanks, the predefined names, other names with non-ASCII name characters, boundary code points 0x8 0x9 0x1F 0x20 0xD7FF 0xD800 0xDFFF 0xE000 0xFFFD 0xFFFE 0x10000 0x10FFFF 0x110000, 2^32 and beyond) and plain text, with and without a DOCTYPE seen: invalid_reference of events.rs vs Svgdx.Xml.invalidReference, the same verdict and the same offending text; non-trivial = the string holds an ampersand",
    );
    const FR: &[&str] = &["&", "&", "&#", "&#x", ";", ";", "#", "x", "X", "+", "-", " ", "amp", "lt", "gt", "apos", "quot", "foo", "a.b-c", "_n", ":p", "é", "·", "1a", "0", "65", "0065", "41", "4G", "D7FF", "D800", "DFFF", "E000", "FFFD", "FFFE", "FFFF", "10000", "10FFFF", "110000", "8", "9", "31", "32", "55295", "55296", "57344", "65533", "65534", "1114111", "1114112", "4294967295", "4294967296", "4294967361", "100000041", "text", "<", ">", "\"", "a b", "\u{1F600}", "long-name-without-semicolon-0123456789"];
    for _ in 0..n {
        let k = 1 + rng.below(9);
        let mut t = String::new();
        for _ in 0..k { t.push_str(*rng.pick(FR)); }
        let dt = rng.chance(1, 3);
        let imp = hooks::invalid_reference(&t, dt);
        st.case(&t, t.contains('&'), || json!({"string": t, "doctype": dt}));
        st.tally(match &imp { None => "accepted", Some(_) => "rejected" });
        let r = drv.call("ref_check", &[if dt { "1" } else { "0" }, &t])?;
        let model: Option<String> = match r.first().map(|x| x.as_str()) { Some("none") => None, Some("some") => Some(r.get(1).cloned().unwrap_or_default()), _ => Some(format!("?{}", r.join("|"))) };
        let mut ok = imp == model;
        if !ok {
            rep.violation(Violation { kind: "correspondence", stream: st.name.clone(), signature: "C02:refcheck-model".into(), what: format!("invalid_reference({t:?}, {dt}) = {imp:?} in the code, {model:?} in the model"), replay: json!({"string": t, "doctype": dt}), confirmed_on_impl: false });
        }
        // the whole per-event check of InputList::from_reader (reference check, then "]]>" in character data /
        // '<' in a start tag), through a real-SVG document that copies the string as written: the transform
        // succeeds exactly when the model's readerAccepts says so
        if !t.contains('<') {
            let with_cdend = if rng.chance(1, 5) { format!("{t}{}", rng.pick(&["]]>", " ]]> ", "]] >", "]>"])) } else { t.clone() };
            let pre = if dt { "<!DOCTYPE svg>" } else { "" };
            let doc = format!("{pre}<svg xmlns=\"http://www.w3.org/2000/svg\"><desc>{with_cdend}</desc></svg>");
            let r = drv.call("reader_accepts", &["1", if dt { "1" } else { "0" }, &with_cdend])?;
            let m_ok = r.first().map(|x| x.as_str()) == Some("ok");
            let i_ok = matches!(transform(&doc, &default_cfg()), Ok(Ok(_)));
            st.tally(if i_ok { "document-accepted" } else { "document-refused" });
            if m_ok != i_ok {
                ok = false;
                rep.violation(Violation { kind: "correspondence", stream: st.name.clone(), signature: "C02:reader-model".into(), what: format!("character data {with_cdend:?} (doctype {dt}): the transform {} it, the model's readerAccepts {} it", if i_ok { "accepts" } else { "refuses" }, if m_ok { "accepts" } else { "refuses" }), replay: json!({"input": doc, "has_root": true}), confirmed_on_impl: false });
            }
        }
        // ... and the start-tag side: the string as an attribute value of a real-SVG element
        if !t.contains('"') && !t.contains('>') {
            let pre = if dt { "<!DOCTYPE svg>" } else { "" };
            let doc = format!("{pre}<svg xmlns=\"http://www.w3.org/2000/svg\"><rect data-x=\"{t}\"/></svg>");
            let tag = format!("rect data-x=\"{t}\"");
            let r = drv.call("reader_accepts", &["0", if dt { "1" } else { "0" }, &tag])?;
            let m_ok = r.first().map(|x| x.as_str()) == Some("ok");
            let i_ok = matches!(transform(&doc, &default_cfg()), Ok(Ok(_)));
            st.tally(if i_ok { "tag-accepted" } else { "tag-refused" });
            if m_ok != i_ok {
                ok = false;
                rep.violation(Violation { kind: "correspondence", stream: st.name.clone(), signature: "C02:reader-model".into(), what: format!("attribute value {t:?} (doctype {dt}): the transform {} it, the model's readerAccepts {} it", if i_ok { "accepts" } else { "refuses" }, if m_ok { "accepts" } else { "refuses" }), replay: json!({"input": doc, "has_root": true}), confirmed_on_impl: false });
            }
        }
        if ok { st.exact += 1; }
    }
    rep.streams.push(st);
    Ok(())
}

pub fn run_c02(rep: &mut Report, tier: &str, seed: u64) -> Result<(), String> {
    let mut rng = Rng::new(seed);
    let mut drv = Driver::start()?;
    let mut ex = Expat::start()?;
    let (nw, nd) = if tier == "thorough" { (60_000, 60_000) } else { (2_000, 2_000) };
    stream_writer(rep, &mut drv, &mut rng.fork(), nw)?;
    let mut st = Stream::new(
        "oracle/wellformed",
        "oracle",
        "svgdx-mode documents (4 of 5 with a root <svg>) routing strings over an XML-hostile alphabet (& < > quotes, --, ]]>, U+0085, U+2028, astral characters, literal reference text) into every sink: attribute values, class, text attribute, element content, CDATA content, _ and __ comments, author <style>/<title>, mixed-content tails, config background / font-family / svg-style, under random debug / metadata / theme / auto-style configurations; the output must be accepted by the independent expat parser (no duplicate attributes) and, with a root <svg>, be single-rooted at <svg> declaring the SVG namespace and a version; non-trivial = every case",
    );
    for i in 0..nd {
        let mut case = gen_case(&mut rng, i);
        let cfg = random_cfg(&mut rng);
        // one document in twelve holds a raw control character XML cannot contain (the form feed counts as white
        // space for Rust, not for XML), in character data or in an attribute value: it must be refused, never written
        if case.has_root && rng.chance(1, 12) {
            let c = *rng.pick(&["\u{c}", "\u{c}", "\u{1}", "\u{b}", "\u{1f}", "\u{8}"]);
            let extra = match rng.below(3) { 0 => format!("<text xy=\"1 1\">x{c}y</text>"), 1 => format!("<rect wh=\"2\" data-c=\"p{c}q\"/>"), _ => format!("<desc>{c}</desc><!-- {c} -->") };
            if let Some(i) = case.doc.rfind("</svg>") { case.doc.insert_str(i, &extra); st.tally("raw-control-character"); }
        }
        let doc = &case.doc;
        st.case(doc, true, || json!({"document": short(doc), "config": cfg_desc(&cfg)}));
        st.tally(if case.has_root { "root=svg" } else { "fragment" });
        match transform(doc, &cfg) {
            Err(p) => rep.violation(Violation { kind: "oracle", stream: st.name.clone(), signature: "C02:panic".into(), what: format!("panic: {p}"), replay: json!({"input": doc, "config": cfg_desc(&cfg)}), confirmed_on_impl: true }),
            Ok(Err(e)) => { st.tally(&format!("transform-error:{}", err_kind(&e))); st.skipped += 1; }
            Ok(Ok(out)) => match check_wellformed(&mut ex, &out, case.has_root) {
                None => st.exact += 1,
                Some((sig, what)) => rep.violation(Violation { kind: "oracle", stream: st.name.clone(), signature: format!("C02:{sig}"), what, replay: json!({"input": doc, "config": cfg_desc(&cfg), "output": short(&out)}), confirmed_on_impl: true }),
            },
        }
    }
    rep.streams.push(st);
    stream_bytes(rep, &mut ex, &mut rng.fork(), nd / 4);
    stream_references(rep, &mut ex, &mut rng.fork(), nd / 2);
    stream_refcheck(rep, &mut drv, &mut rng.fork(), nd * 2)?;
    corpus(rep, &mut ex, "C02");
    Ok(())
}

/// corpus entries: {input, has_root, signature}; the output must be well-formed
fn corpus(rep: &mut Report, ex: &mut Expat, prop: &str) {
    let mut st = Stream::new("corpus", "oracle", "files of /verif/corpus/<id>: past failures and known findings");
    if let Ok(rd) = std::fs::read_dir(format!("/verif/corpus/{prop}")) {
        let mut files: Vec<_> = rd.filter_map(|e| e.ok()).map(|e| e.path()).collect();
        files.sort();
        for f in files {
            let Ok(text) = std::fs::read_to_string(&f) else { continue };
            let Ok(v) = serde_json::from_str::<serde_json::Value>(&text) else { continue };
            let Some(doc) = v.get("input").and_then(|x| x.as_str()) else { continue };
            let has_root = v.get("has_root").and_then(|x| x.as_bool()).unwrap_or(true);
            st.case(doc, true, || json!({"file": f.display().to_string()}));
            let sig = v.get("signature").and_then(|x| x.as_str()).unwrap_or("corpus").to_string();
            match transform(doc, &default_cfg()) {
                Ok(Ok(out)) => match check_wellformed(ex, &out, has_root) {
                    None => st.exact += 1,
                    Some((_, what)) => rep.violation(Violation { kind: "oracle", stream: "corpus".into(), signature: sig, what, replay: v.clone(), confirmed_on_impl: true }),
                },
                Ok(Err(_)) => st.exact += 1, // rejecting the input is fine for C02
                Err(p) => rep.violation(Violation { kind: "oracle", stream: "corpus".into(), signature: sig, what: format!("panic: {p}"), replay: v.clone(), confirmed_on_impl: true }),
            }
        }
    }
    rep.streams.push(st);
}

pub fn run_c05(rep: &mut Report, tier: &str, seed: u64) -> Result<(), String> {
    let mut rng = Rng::new(seed);
    let mut drv = Driver::start()?;
    let n = if tier == "thorough" { 50_000 } else { 1_500 };
    let mut st = Stream::new(
        "oracle/fixed-point",
        "oracle",
        "svgdx documents with a root <svg> covering every output-producing feature (generated text with special characters, tspans, comments, CDATA styles, defs, metadata attributes, debug comments, author styles, mixed content) plus relative-positioning, containment and connector documents; y = T_c1(x) under a random configuration, then T_c2(y) under another: must succeed and reproduce y byte for byte; non-trivial = every case whose first transform succeeds",
    );
    let mut corr = Stream::new(
        "writer/second-pass",
        "correspondence",
        "the second pass T_c2(y) vs the Lean model of read-then-write applied to y; non-trivial = every case",
    );
    for i in 0..n {
        let mut doc = match i % 4 {
            0 => crate::c09::doc_xml(&crate::c09::gen_doc(&mut rng, 4)),
            _ => svgdx_doc(&mut rng, true),
        };
        // past failures first, then (1 in 8) a root that declares a namespace: SVG's, a foreign one, none
        const PAST: [&str; 3] = [
            "<svg xmlns=\"http://example.com/x\"><rect wh=\"5\" text=\"hi\"/></svg>",
            "<svg>\n<svg xmlns=\"http://www.w3.org/2000/svg\"><rect width=\"3\" height=\"3\"/></svg>\n<rect wh=\"5\"/>\n</svg>",
            "<svg xmlns=\"\"><rect wh=\"5\"/></svg>",
        ];
        if i < PAST.len() { doc = PAST[i].to_string(); st.tally("past-failure"); }
        else if i % 16 == 7 {
            // references in content that is copied as written (an embedded namespaced <svg>, a text-only element):
            // predefined and character references, and - which the first pass must refuse, because an svgdx
            // document loses its DOCTYPE - entities that only a DOCTYPE declares, in character data AND in
            // attribute values; whatever the first pass lets through, the second must take
            let r = *rng.pick(&["&amp;", "&#65;", "&#x10FFFF;", "&lt;", "&foo;", "&foo;", "&nbsp;"]);
            let pre = if r == "&foo;" || r == "&nbsp;" || rng.chance(1, 3) { "<!DOCTYPE svg [<!ENTITY foo \"bar\"><!ENTITY nbsp \"&#160;\">]>\n" } else { "" };
            // in an attribute value only, in character data only, or in both; inside the embedded subtree and / or after it
            let inner = match rng.below(4) { 0 => format!("<rect width=\"2\" height=\"2\" fill=\"{r}\"/>"), 1 => format!("<desc>{r}</desc>"), 2 => format!("<g data-a=\"x{r}\"><title>t</title></g>"), _ => format!("<g data-a=\"x{r}\"><title>{r} t</title></g>") };
            let after = match rng.below(3) { 0 => format!("\n  <desc>{r}</desc>"), 1 => format!("\n  <desc data-b=\"{r}\">d</desc>"), _ => String::new() };
            doc = format!("{pre}<svg>\n  <rect wh=\"5\" text=\"hi\"/>\n  <svg xmlns=\"http://www.w3.org/2000/svg\" viewBox=\"0 0 3 3\">{inner}</svg>{after}\n</svg>");
            st.tally("references-in-copied-content");
        }
        else if i % 8 == 3 {
            let ns = *rng.pick(&["http://www.w3.org/2000/svg", "http://example.com/x", ""]);
            doc = doc.replacen("<svg", &format!("<svg xmlns=\"{ns}\""), 1);
            st.tally(&format!("root-xmlns={}", if ns.is_empty() { "empty" } else if ns.contains("w3") { "svg" } else { "foreign" }));
        }
        let mut c1 = random_cfg(&mut rng);
        let mut c2 = random_cfg(&mut rng);
        if i < PAST.len() { c1.debug = true; c2.debug = true; }
        let Ok(Ok(y)) = transform(&doc, &c1) else { st.skipped += 1; continue };
        st.case(&doc, true, || json!({"document": short(&doc), "c1": cfg_desc(&c1), "c2": cfg_desc(&c2)}));
        match transform(&y, &c2) {
            Err(p) => rep.violation(Violation { kind: "oracle", stream: st.name.clone(), signature: "C05:panic".into(), what: format!("panic on second pass: {p}"), replay: json!({"input": doc, "c1": cfg_desc(&c1), "c2": cfg_desc(&c2)}), confirmed_on_impl: true }),
            Ok(Err(e)) => rep.violation(Violation { kind: "oracle", stream: st.name.clone(), signature: format!("C05:error:{}", err_kind(&e)), what: format!("second pass fails: {e}"), replay: json!({"input": doc, "first_output": short(&y), "c1": cfg_desc(&c1), "c2": cfg_desc(&c2)}), confirmed_on_impl: true }),
            Ok(Ok(z)) => {
                if z == y { st.exact += 1; } else {
                    let idx = z.bytes().zip(y.bytes()).position(|(a, b)| a != b).unwrap_or(z.len().min(y.len()));
                    let lo = idx.saturating_sub(40);
                    rep.violation(Violation { kind: "oracle", stream: st.name.clone(), signature: "C05:not-fixed-point".into(), what: format!("second pass differs at byte {idx}: first …{:?}… second …{:?}…", String::from_utf8_lossy(&y.as_bytes()[lo..(idx + 40).min(y.len())]), String::from_utf8_lossy(&z.as_bytes()[lo..(idx + 40).min(z.len())])), replay: json!({"input": doc, "c1": cfg_desc(&c1), "c2": cfg_desc(&c2)}), confirmed_on_impl: true });
                }
                corr.case(&y, true, || json!({"first_output": short(&y)}));
                let m = drv.call("xml_passthrough", &[&y])?;
                if m[0] == "ok" && m.get(1).map(|s| s.as_str()) == Some(z.as_str()) { corr.exact += 1; } else {
                    rep.violation(Violation { kind: "correspondence", stream: corr.name.clone(), signature: "second-pass".into(), what: "second pass differs from the model's read-then-write".into(), replay: json!({"input": y}), confirmed_on_impl: false });
                }
            }
        }
    }
    rep.streams.push(st);
    rep.streams.push(corr);
    Ok(())
}

/// replay of one file for C02 / C03 / C05: {"input": document, "has_root"?: bool}
pub fn replay(rep: &mut Report, prop: &str, v: &serde_json::Value) {
    let mut st = Stream::new("replay", "oracle", "one replay file judged against the implementation (default configuration)");
    st.case("replay", true, || v.clone());
    // byte-level replays (oracle/wellformed-bytes): the input as hex, through transform_stream
    if let Some(hx) = v.get("input_hex").and_then(|x| x.as_str()) {
        let bytes: Vec<u8> = (0..hx.len() / 2).filter_map(|i| u8::from_str_radix(&hx[2 * i..2 * i + 2], 16).ok()).collect();
        let mut ex = match Expat::start() { Ok(e) => e, Err(e) => { rep.notes.push(format!("HARNESS-ERROR: {e}")); rep.streams.push(st); return; } };
        let mut out: Vec<u8> = vec![];
        let mut inp = std::io::Cursor::new(bytes);
        match svgdx::transform_stream(&mut inp, &mut out, &default_cfg()) {
            Err(_) => st.exact += 1,
            Ok(()) => {
                if String::from_utf8(out.clone()).is_err() || ex.parse(&out).is_err() {
                    rep.violation(Violation { kind: "oracle", stream: "replay".into(), signature: format!("{prop}:replay"), what: "the transform succeeds and the output is not well-formed UTF-8 XML".into(), replay: v.clone(), confirmed_on_impl: true });
                } else { st.exact += 1; }
            }
        }
        rep.streams.push(st);
        return;
    }
    let doc = v.get("input").and_then(|x| x.as_str()).unwrap_or("");
    let has_root = v.get("has_root").and_then(|x| x.as_bool()).unwrap_or(doc.trim_start().starts_with("<svg") || doc.trim_start().starts_with("<?xml"));
    let mut ex = match Expat::start() { Ok(e) => e, Err(e) => { rep.notes.push(format!("HARNESS-ERROR: {e}")); rep.streams.push(st); return; } };
    let fail = |rep: &mut Report, what: String| rep.violation(Violation { kind: "oracle", stream: "replay".into(), signature: format!("{prop}:replay"), what, replay: v.clone(), confirmed_on_impl: true });
    match transform(doc, &default_cfg()) {
        Err(p) => fail(rep, format!("panic: {p}")),
        Ok(Err(e)) => { if prop == "C03" { fail(rep, format!("the transform fails: {e}")) } else { st.exact += 1 } }
        Ok(Ok(out)) => match prop {
            "C02" => match check_wellformed(&mut ex, &out, has_root) { None => st.exact += 1, Some((_, what)) => fail(rep, what) },
            "C03" => {
                // pass-through: same infoset as the input
                match (ex.parse(doc.as_bytes()), ex.parse(out.as_bytes())) {
                    (Ok(a), Ok(b)) => if a["infoset"] == b["infoset"] { st.exact += 1 } else { fail(rep, "the output's infoset differs from the input's".into()) },
                    (Err(_), _) => st.exact += 1, // not a well-formed real-SVG input: outside the property
                    (_, Err(e)) => fail(rep, format!("independent parser rejects the output: {e}")),
                }
            }
            _ => match transform(&out, &default_cfg()) {
                Ok(Ok(again)) if again == out => st.exact += 1,
                Ok(Ok(_)) => fail(rep, "processing the output again changes it".into()),
                Ok(Err(e)) => fail(rep, format!("processing the output again fails: {e}")),
                Err(p) => fail(rep, format!("panic on the second pass: {p}")),
            },
        },
    }
    rep.streams.push(st);
}
