//! What a harness run covered, found and could not decide; written as JSON for ./check.
use serde_json::{json, Value};
use std::collections::{BTreeMap, HashSet};
use std::hash::{Hash, Hasher};

pub fn h64(s: &str) -> u64 {
    let mut h = std::collections::hash_map::DefaultHasher::new();
    s.hash(&mut h);
    h.finish()
}

pub struct Stream {
    pub name: String,
    pub kind: &'static str, // "correspondence" | "oracle" | "audit"
    pub cases: u64,
    pub nontrivial: HashSet<u64>,
    pub exact: u64,
    pub tolerance: u64,
    pub skipped: u64,
    pub errors_agreed: u64,
    pub samples: Vec<Value>,
    pub dist: BTreeMap<String, u64>,
    pub rule: String,
}

impl Stream {
    pub fn new(name: &str, kind: &'static str, rule: &str) -> Self {
        Stream {
            name: name.into(),
            kind,
            cases: 0,
            nontrivial: HashSet::new(),
            exact: 0,
            tolerance: 0,
            skipped: 0,
            errors_agreed: 0,
            samples: vec![],
            dist: BTreeMap::new(),
            rule: rule.into(),
        }
    }
    /// count one case; `key` identifies it for distinctness; `nontrivial` by the stream's rule
    pub fn case(&mut self, key: &str, nontrivial: bool, sample: impl FnOnce() -> Value) {
        self.cases += 1;
        if nontrivial && self.nontrivial.insert(h64(key)) && self.samples.len() < 4 {
            self.samples.push(sample());
        }
    }
    pub fn tally(&mut self, k: &str) {
        *self.dist.entry(k.to_string()).or_insert(0) += 1;
    }
    pub fn to_json(&self) -> Value {
        json!({
            "name": self.name, "kind": self.kind, "cases": self.cases,
            "distinct_nontrivial": self.nontrivial.len(), "exact": self.exact,
            "tolerance_compared": self.tolerance, "skipped_outside_model": self.skipped,
            "errors_agreed": self.errors_agreed,
            "rule": self.rule, "samples": self.samples, "distribution": self.dist,
        })
    }
}

#[derive(Clone)]
pub struct Violation {
    /// "oracle" (the property itself fails on the implementation), "correspondence"
    /// (model and implementation disagree), "audit", "harness"
    pub kind: &'static str,
    pub stream: String,
    /// stable identification of *what* fails (mechanism / call site / minimal input), for known findings
    pub signature: String,
    pub what: String,
    pub replay: Value,
    /// true when the property predicate itself was evaluated on the implementation and failed
    pub confirmed_on_impl: bool,
}

pub struct Report {
    pub property: String,
    pub tier: String,
    pub seed: u64,
    pub streams: Vec<Stream>,
    pub violations: Vec<Violation>,
    pub notes: Vec<String>,
}

impl Report {
    pub fn new(property: &str, tier: &str, seed: u64) -> Self {
        Report { property: property.into(), tier: tier.into(), seed, streams: vec![], violations: vec![], notes: vec![] }
    }
    pub fn violation(&mut self, v: Violation) {
        // keep at most 5 per (stream, signature) so a systematic break does not flood the report
        let same = self.violations.iter().filter(|x| x.stream == v.stream && x.signature == v.signature).count();
        // separate budgets: a flood of model disagreements must not crowd out a failing input found later
        let of_kind = self.violations.iter().filter(|x| x.confirmed_on_impl == v.confirmed_on_impl).count();
        if same < 3 && of_kind < 60 {
            self.violations.push(v);
        }
    }
    pub fn to_json(&self) -> Value {
        json!({
            "property": self.property, "tier": self.tier, "seed": self.seed,
            "streams": self.streams.iter().map(|s| s.to_json()).collect::<Vec<_>>(),
            "violations": self.violations.iter().map(|v| json!({
                "kind": v.kind, "stream": v.stream, "signature": v.signature, "what": v.what,
                "replay": v.replay, "confirmed_on_impl": v.confirmed_on_impl,
            })).collect::<Vec<_>>(),
            "notes": self.notes,
        })
    }
}
