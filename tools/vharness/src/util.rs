//! Shared helpers: exact rationals of f32, element encoding for the driver, output parsing.
use quick_xml::events::Event;
use quick_xml::Reader;

pub fn gcd(a: u128, b: u128) -> u128 {
    if b == 0 { a } else { gcd(b, a % b) }
}

/// exact value of a finite f32 as "n/d" in lowest terms (the driver prints the same form)
pub fn rat_of_f32(x: f32) -> Option<String> {
    if !x.is_finite() {
        return None;
    }
    if x == 0.0 {
        return Some("0/1".into());
    }
    let bits = x.to_bits();
    let neg = bits >> 31 == 1;
    let exp = ((bits >> 23) & 0xff) as i32;
    let frac = (bits & 0x7f_ffff) as u128;
    let (mant, e) = if exp == 0 { (frac, -149) } else { (frac | 0x80_0000, exp - 150) };
    let (mut n, mut d): (u128, u128) = if e >= 0 {
        if e > 100 { return None; }
        (mant << e, 1)
    } else {
        if -e > 120 { return None; }
        (mant, 1u128 << (-e))
    };
    let g = gcd(n, d);
    n /= g;
    d /= g;
    Some(format!("{}{}/{}", if neg { "-" } else { "" }, n, d))
}

/// exact value of a finite f32 as a decimal string (finite: the denominator is a power of two);
/// None outside the range u128 arithmetic covers (|x| < 2^-44 or >= 2^100)
pub fn dec_of_f32(x: f32) -> Option<String> {
    if !x.is_finite() { return None; }
    if x == 0.0 { return Some("0".into()); }
    let bits = x.to_bits();
    let neg = bits >> 31 == 1;
    let exp = ((bits >> 23) & 0xff) as i32;
    let frac = (bits & 0x7f_ffff) as u128;
    let (mant, e) = if exp == 0 { (frac, -149) } else { (frac | 0x80_0000, exp - 150) };
    let sign = if neg { "-" } else { "" };
    if e >= 0 {
        if e > 100 { return None; }
        return Some(format!("{sign}{}", mant << e));
    }
    let k = (-e) as u32;
    if k > 44 { return None; }
    let digits = format!("{}", mant * 5u128.pow(k));
    let digits = if digits.len() <= k as usize { format!("{}{}", "0".repeat(k as usize + 1 - digits.len()), digits) } else { digits };
    let (ip, fp) = digits.split_at(digits.len() - k as usize);
    Some(format!("{sign}{ip}.{fp}"))
}

pub fn rat_to_f64(s: &str) -> Option<f64> {
    let (n, d) = s.split_once('/')?;
    Some(n.parse::<f64>().ok()? / d.parse::<f64>().ok()?)
}

/// half-integers as decimal text: k/2
pub fn half(k: i64) -> String {
    if k % 2 == 0 { format!("{}", k / 2) } else { format!("{}{}.5", if k < 0 { "-" } else { "" }, (k.abs()) / 2) }
}

#[derive(Clone, Debug, PartialEq, Eq)]
pub struct El {
    pub name: String,
    pub attrs: Vec<(String, String)>,
}

impl El {
    pub fn new(name: &str) -> Self {
        El { name: name.into(), attrs: vec![] }
    }
    pub fn with(mut self, k: &str, v: &str) -> Self {
        self.attrs.push((k.into(), v.into()));
        self
    }
    pub fn push(&mut self, k: &str, v: &str) {
        self.attrs.push((k.into(), v.into()));
    }
    pub fn get(&self, k: &str) -> Option<&str> {
        self.attrs.iter().find(|(a, _)| a == k).map(|(_, v)| v.as_str())
    }
    pub fn raw(&self) -> (String, Vec<(String, String)>) {
        (self.name.clone(), self.attrs.clone())
    }
    pub fn from_raw(r: &(String, Vec<(String, String)>)) -> Self {
        El { name: r.0.clone(), attrs: r.1.clone() }
    }
    /// driver field: name US k US v …
    pub fn encode(&self) -> String {
        let mut s = self.name.clone();
        for (k, v) in &self.attrs {
            s.push('\u{1f}');
            s.push_str(k);
            s.push('\u{1f}');
            s.push_str(v);
        }
        s
    }
    pub fn decode(s: &str) -> Self {
        let mut it = s.split('\u{1f}');
        let name = it.next().unwrap_or("").to_string();
        let mut attrs = vec![];
        while let (Some(k), Some(v)) = (it.next(), it.next()) {
            attrs.push((k.to_string(), v.to_string()));
        }
        El { name, attrs }
    }
    pub fn xml(&self) -> String {
        let mut s = format!("<{}", self.name);
        for (k, v) in &self.attrs {
            s.push_str(&format!(" {}=\"{}\"", k, xml_escape_attr(v)));
        }
        s.push_str("/>");
        s
    }
    pub fn sorted(&self) -> El {
        let mut e = self.clone();
        e.attrs.sort();
        e
    }
}

pub fn xml_escape_attr(v: &str) -> String {
    v.replace('&', "&amp;").replace('<', "&lt;").replace('>', "&gt;").replace('"', "&quot;")
}

pub fn xml_escape_text(v: &str) -> String {
    v.replace('&', "&amp;").replace('<', "&lt;").replace('>', "&gt;")
}

#[derive(Clone, Debug)]
pub struct OutEl {
    pub el: El,
    pub depth: usize,
    pub text: String,
    pub path: Vec<String>,
}

/// elements of an output document in order (quick-xml; used by oracles on well-formed output)
pub fn parse_elements(xml: &str) -> Result<Vec<OutEl>, String> {
    let mut rd = Reader::from_str(xml);
    let mut out: Vec<OutEl> = vec![];
    let mut stack: Vec<usize> = vec![];
    loop {
        match rd.read_event() {
            Err(e) => return Err(format!("{e:?}")),
            Ok(Event::Eof) => break,
            Ok(Event::Start(s)) | Ok(Event::Empty(s)) if false => { let _ = s; }
            Ok(ev) => {
                let (bs, is_start) = match &ev {
                    Event::Start(s) => (Some(s), true),
                    Event::Empty(s) => (Some(s), false),
                    _ => (None, false),
                };
                if let Some(s) = bs {
                    let name = String::from_utf8_lossy(s.name().as_ref()).to_string();
                    let mut attrs = vec![];
                    for a in s.attributes() {
                        let a = a.map_err(|e| format!("{e:?}"))?;
                        let k = String::from_utf8_lossy(a.key.as_ref()).to_string();
                        let v = a.unescape_value().map_err(|e| format!("{e:?}"))?.to_string();
                        attrs.push((k, v));
                    }
                    let path: Vec<String> = stack.iter().map(|&i| out[i].el.name.clone()).collect();
                    out.push(OutEl { el: El { name, attrs }, depth: stack.len(), text: String::new(), path });
                    if is_start {
                        stack.push(out.len() - 1);
                    }
                } else {
                    match ev {
                        Event::End(_) => {
                            stack.pop();
                        }
                        Event::Text(t) => {
                            if let Some(&i) = stack.last() {
                                out[i].text.push_str(&t.unescape().map_err(|e| format!("{e:?}"))?);
                            }
                        }
                        Event::CData(c) => {
                            if let Some(&i) = stack.last() {
                                out[i].text.push_str(&String::from_utf8_lossy(&c.into_inner()));
                            }
                        }
                        _ => {}
                    }
                }
            }
        }
    }
    Ok(out)
}

/// reference implementation of the documented output number format (3 decimals, trimmed),
/// written independently of the crate, on f64 of exact grid values
pub fn fstr_ref(x: f64) -> String {
    if x.abs() < 0.0001 {
        return "0".into();
    }
    if x == x.trunc() {
        return format!("{}", x as i64);
    }
    let s = format!("{:.3}", x);
    s.trim_end_matches('0').trim_end_matches('.').to_string()
}

pub fn err_kind(debug: &str) -> String {
    debug.split(['(', ' ', '{']).next().unwrap_or("").to_string()
}

pub fn default_cfg() -> svgdx::TransformConfig {
    svgdx::TransformConfig::default()
}

/// run a transform in-process, catching panics
pub fn transform(input: &str, cfg: &svgdx::TransformConfig) -> Result<Result<String, String>, String> {
    let inp = input.to_string();
    let cfg = cfg.clone();
    let r = std::panic::catch_unwind(move || svgdx::transform_str(inp, &cfg).map_err(|e| format!("{e:?}")));
    match r {
        Ok(x) => Ok(x),
        Err(p) => {
            let msg = if let Some(s) = p.downcast_ref::<String>() {
                s.clone()
            } else if let Some(s) = p.downcast_ref::<&str>() {
                s.to_string()
            } else {
                "panic".into()
            };
            Err(msg)
        }
    }
}
