//! C19 — shape text reaches the output verbatim and at the requested anchor.
use crate::c09::{loc_point, native_el};
use crate::driver::Driver;
use crate::expat::Expat;
use crate::geom::*;
use crate::report::*;
use crate::rng::Rng;
use crate::util::*;
use crate::xmlgen::*;
use serde_json::json;
use svgdx::verif_hooks as hooks;

const TEXT_LOCS: [&str; 9] = ["tl", "t", "tr", "r", "br", "b", "bl", "l", "c"];

/// author's text: hostile pieces joined by line breaks in either spelling
fn author_text(rng: &mut Rng) -> (String, Vec<String>) {
    let n = 1 + rng.below(4);
    let mut lines: Vec<String> = vec![];
    for i in 0..n {
        // no backslashes in the pieces; leading/trailing/empty lines allowed (not a final empty line: str::lines drops it)
        let l = if rng.chance(1, 6) && i + 1 < n { String::new() } else { hostile(rng, 4).replace('\n', " ") };
        lines.push(l);
    }
    if lines.last().is_some_and(|l| l.is_empty()) { lines.pop(); }
    if lines.is_empty() { lines.push("x".into()); }
    (lines.join("\\n"), lines)
}

fn stream_hook(rep: &mut Report, drv: &mut Driver, rng: &mut Rng, n: usize) -> Result<(), String> {
    let mut st = Stream::new(
        "text/process_text_attr",
        "correspondence",
        "resolved shapes (rect / circle / ellipse / line / text / point) with a text attribute over an XML-hostile alphabet with 1-4 lines, all 9 text-loc values and 4 edge forms, d-text-inside / -outside / -vertical / -pre classes, text-offset, text-dx / -dy / -dxy, text-lsp, text-style, presentation attributes and pattern / shadow classes: hook process_text_attr (shape element, text element, tspans with content) vs the Lean model, attribute for attribute; non-trivial = every case",
    );
    for _ in 0..n {
        let shape = *rng.pick(&["rect", "rect", "circle", "ellipse", "line", "text", "point"]);
        let b = gen_box(rng, shape == "circle").f();
        let mut el = El::new(shape);
        match shape {
            "line" => { el.push("x1", &fstr_ref(b[0])); el.push("y1", &fstr_ref(b[1])); el.push("x2", &fstr_ref(b[2])); el.push("y2", &fstr_ref(b[3])); }
            "text" | "point" => { el.push("x", &fstr_ref(b[0])); el.push("y", &fstr_ref(b[1])); }
            _ => { for (k, v) in native_el(shape, &b) { el.push(&k, &v); } }
        }
        let (t, _) = author_text(rng);
        el.push("text", &t);
        if rng.chance(2, 3) {
            let loc = if rng.chance(3, 4) { rng.pick(&TEXT_LOCS).to_string() } else { format!("{}:{}", rng.pick(&["t", "r", "b", "l"]), rng.pick(&["25%", "2", "-1", "100%"])) };
            el.push("text-loc", &loc);
        }
        if rng.chance(1, 3) { el.push("text-offset", &half(rng.range(0, 8))); }
        if rng.chance(1, 4) { el.push("text-dxy", &format!("{} {}", half(rng.range(-6, 6)), half(rng.range(-6, 6)))); }
        if rng.chance(1, 5) { el.push("text-dx", &half(rng.range(-6, 6))); }
        if rng.chance(1, 5) { el.push("text-dy", &half(rng.range(-6, 6))); }
        if rng.chance(1, 4) { el.push("text-lsp", *rng.pick(&["1", "1.5", "2", "0.75"])); }
        if rng.chance(1, 4) { el.push("text-style", &hostile(rng, 3)); }
        if rng.chance(1, 4) { el.push("font-size", "4"); }
        if rng.chance(1, 5) { el.push("text-anchor", "start"); }
        let mut classes: Vec<&str> = vec![];
        for c in ["d-text-outside", "d-text-inside", "d-text-vertical", "d-text-pre", "d-text-bold", "d-red", "d-fill-blue", "d-softshadow", "d-grid-5", "d-dash", "d-flow-fast", "mine"] {
            if rng.chance(1, 6) { classes.push(c); }
        }
        if !classes.is_empty() { el.push("class", &classes.join(" ")); }
        let imp = hooks::text_attr(&el.raw());
        let imp_s: Vec<String> = match &imp {
            Ok((orig, tes)) => {
                let mut v = vec!["ok".to_string(), El::from_raw(orig).encode()];
                for (te, c) in tes { v.push(El::from_raw(te).encode()); v.push(c.clone().unwrap_or_default()); }
                v
            }
            Err(_) => vec!["err".into()],
        };
        let enc = el.encode();
        let m = drv.call("text_attr", &[&enc])?;
        st.case(&enc, true, || json!({"element": el.xml(), "impl": imp_s, "model": m}));
        st.tally(&format!("shape={shape}"));
        let same = if imp_s[0] == "err" { m[0] == "err" } else { imp_s == m };
        if same { st.exact += 1; if imp_s[0] == "err" { st.errors_agreed += 1; } } else {
            let idx = imp_s.iter().zip(m.iter()).position(|(a, b)| a != b).unwrap_or(imp_s.len().min(m.len()));
            rep.violation(Violation { kind: "correspondence", stream: st.name.clone(), signature: format!("text_attr:{shape}"), what: format!("field {idx}: impl {:?} vs model {:?}", imp_s.get(idx), m.get(idx)), replay: json!({"element": el.xml()}), confirmed_on_impl: false });
        }
    }
    rep.streams.push(st);
    Ok(())
}

/// document-level oracle: the character data of the generated text, unescaped by an independent
/// parser, equals the author's text line by line; the anchor is where text-loc says
fn oracle_docs(rep: &mut Report, ex: &mut Expat, rng: &mut Rng, n: usize) {
    let mut st = Stream::new(
        "oracle/text-verbatim",
        "oracle",
        "svgdx documents with one shape carrying text through one of four carriers (text attribute, element content, CDATA content, <text> element) over the XML-hostile alphabet, 1-4 lines (literal newline in content, backslash-n in attributes), all text-loc values, inside / outside, text-offset; the expat-parsed character data of the generated <text>/<tspan> elements must equal the author's lines (empty line = zero-width space) and the anchor must be locPoint(bbox, text-loc) moved by text-offset inward (outward for line / point / text and d-text-outside); the shape itself keeps its geometry; non-trivial = every case",
    );
    for _ in 0..n {
        let shape = *rng.pick(&["rect", "rect", "circle", "ellipse", "line"]);
        let b = gen_box(rng, shape == "circle").f();
        let (attr_text, lines) = author_text(rng);
        let carrier = *rng.pick(&["attr", "content", "cdata", "text-element"]);
        // nine named locations, or a position along an edge (percentage, length from the start, from the end)
        let edge_loc = if rng.chance(1, 4) { Some(format!("{}:{}", rng.pick(&["t", "b", "l", "r"]), rng.pick(&["25%", "75%", "10%", "1", "1.5", "-1", "-0.5", "0%", "100%"]))) } else { None };
        let loc: &str = match &edge_loc { Some(l) => l.as_str(), None => *rng.pick(&TEXT_LOCS) };
        let off = rng.range(0, 6) as f64 / 2.0;
        let outside_cls = rng.chance(1, 5);
        let mut attrs = String::new();
        let geo: Vec<(String, String)> = match shape {
            "line" => vec![("x1".into(), fstr_ref(b[0])), ("y1".into(), fstr_ref(b[1])), ("x2".into(), fstr_ref(b[2])), ("y2".into(), fstr_ref(b[3]))],
            _ => native_el(shape, &b),
        };
        let name = if carrier == "text-element" { "text" } else { shape };
        let mut bb: [f64; 4] = if carrier == "text-element" { [b[0], b[1], b[0], b[1]] } else { b };
        // a <text> element placed beside an (invisible) reference box: its anchor is the point the relspec
        // gives; an explicit text-loc still decides the alignment, and without one the side the text stands on does
        let mut prelude = String::new();
        let mut derived_loc: Option<&'static str> = None;
        if carrier == "text-element" && edge_loc.is_none() && rng.chance(1, 3) {
            let z = [b[0] - 20.0, b[1] - 30.0, b[0] - 20.0 + 10.0, b[1] - 30.0 + 8.0];
            prelude = format!("<box id=\"z\" xy=\"{} {}\" wh=\"10 8\"/>\n  ", fstr_ref(z[0]), fstr_ref(z[1]));
            let gap = rng.range(0, 8) as f64 / 2.0;
            let (d, px, py, side) = match rng.below(4) {
                0 => ("h", z[2] + gap, (z[1] + z[3]) / 2.0, "r"),
                1 => ("H", z[0] - gap, (z[1] + z[3]) / 2.0, "l"),
                2 => ("v", (z[0] + z[2]) / 2.0, z[3] + gap, "b"),
                _ => ("V", (z[0] + z[2]) / 2.0, z[1] - gap, "t"),
            };
            bb = [px, py, px, py];
            attrs.push_str(&format!(" {}", in_attr(rng, "xy", &format!("#z|{d} {}", fstr_ref(gap)))));
            if rng.chance(1, 4) { derived_loc = Some(side); }
            st.tally(if derived_loc.is_some() { "text-element=relative,derived-loc" } else { "text-element=relative,explicit-loc" });
        } else if carrier == "text-element" {
            attrs.push_str(&format!(" {} {}", in_attr(rng, "x", &fstr_ref(b[0])), in_attr(rng, "y", &fstr_ref(b[1]))));
        } else {
            for (k, v) in &geo { attrs.push(' '); attrs.push_str(&in_attr(rng, k, v)); }
        }
        let loc: &str = match derived_loc { Some(l) => l, None => loc };
        if derived_loc.is_none() { attrs.push_str(&format!(" {}", in_attr(rng, "text-loc", loc))); }
        attrs.push_str(&format!(" {}", in_attr(rng, "text-offset", &fstr_ref(off))));
        let vertical_cls = rng.chance(1, 4);
        match (outside_cls, vertical_cls) {
            (true, true) => attrs.push_str(if rng.chance(1, 2) { " class=\"d-text-outside d-text-vertical\"" } else { " class=\"d-text-vertical d-text-outside\"" }),
            (true, false) => attrs.push_str(" class=\"d-text-outside\""),
            (false, true) => attrs.push_str(" class=\"d-text-vertical\""),
            _ => {}
        }
        if vertical_cls { st.tally("vertical"); }
        // further text-specific attributes: all must move off the shape; text-dxy / -dx / -dy shift the anchor
        let (mut tdx, mut tdy) = (0.0f64, 0.0f64);
        if rng.chance(1, 3) { let v = *rng.pick(&["1", "1.5", "2", "0.75"]); attrs.push_str(&format!(" {}", in_attr(rng, "text-lsp", v))); st.tally("extra=text-lsp"); }
        if rng.chance(1, 4) {
            let (a, b2) = (rng.range(-6, 6) as f64 / 2.0, rng.range(-6, 6) as f64 / 2.0);
            attrs.push_str(&format!(" {}", in_attr(rng, "text-dxy", &format!("{} {}", fstr_ref(a), fstr_ref(b2)))));
            tdx = a; tdy = b2;
            st.tally("extra=text-dxy");
        }
        if rng.chance(1, 6) { let a = rng.range(-6, 6) as f64 / 2.0; attrs.push_str(&format!(" {}", in_attr(rng, "text-dx", &fstr_ref(a)))); tdx = a; st.tally("extra=text-dx"); }
        if rng.chance(1, 6) { let a = rng.range(-6, 6) as f64 / 2.0; attrs.push_str(&format!(" {}", in_attr(rng, "text-dy", &fstr_ref(a)))); tdy = a; st.tally("extra=text-dy"); }
        if rng.chance(1, 5) { attrs.push_str(&format!(" {}", in_attr(rng, "text-style", "font-style: italic"))); st.tally("extra=text-style"); }
        let content_text = lines.join("\n");
        let el = match carrier {
            "attr" => format!("<{name}{attrs} {}/>", in_attr(rng, "text", &attr_text)),
            "cdata" if !content_text.contains("]]>") => format!("<{name}{attrs}><![CDATA[{content_text}]]></{name}>"),
            _ => format!("<{name}{attrs}>{}</{name}>", in_text(rng, &content_text)),
        };
        let doc = format!("<svg>\n  {prelude}{el}\n</svg>");
        st.case(&doc, true, || json!({"document": doc, "author_lines": lines}));
        st.tally(&format!("carrier={carrier}"));
        st.tally(&format!("lines={}", lines.len()));
        let fail = |rep: &mut Report, sig: &str, what: String| {
            rep.violation(Violation { kind: "oracle", stream: "oracle/text-verbatim".into(), signature: format!("C19:{sig}:{carrier}"), what, replay: json!({"input": doc, "author_lines": lines}), confirmed_on_impl: true });
        };
        let out = match transform(&doc, &default_cfg()) {
            Err(p) => { fail(rep, "panic", format!("panic: {p}")); continue; }
            Ok(Err(e)) => { fail(rep, "error", format!("transform failed: {e}")); continue; }
            Ok(Ok(o)) => o,
        };
        let info = match ex.parse(out.as_bytes()) { Ok(i) => i, Err(e) => { fail(rep, "not-wellformed", e); continue; } };
        let items = info["infoset"].as_array().cloned().unwrap_or_default();
        // collect the generated text element: its attributes and the character data per tspan (or of the text itself)
        let mut in_text_el = false;
        let mut in_tspan = false;
        let mut text_attrs: Vec<(String, String)> = vec![];
        let mut direct = String::new();
        let mut spans: Vec<String> = vec![];
        let mut shape_attrs: Option<Vec<(String, String)>> = None;
        for it in &items {
            let kind = it[0].as_str().unwrap_or("");
            let nm = it.get(1).and_then(|x| x.as_str()).unwrap_or("");
            let attrs_of = |it: &serde_json::Value| -> Vec<(String, String)> { it[2].as_array().map(|a| a.iter().map(|kv| (kv[0].as_str().unwrap_or("").to_string(), kv[1].as_str().unwrap_or("").to_string())).collect()).unwrap_or_default() };
            match (kind, nm) {
                ("start", "text") => { in_text_el = true; text_attrs = attrs_of(it); }
                ("end", "text") => in_text_el = false,
                ("start", "tspan") if in_text_el => { in_tspan = true; spans.push(String::new()); }
                ("end", "tspan") => in_tspan = false,
                ("start", n2) if n2 == shape && carrier != "text-element" => shape_attrs = Some(attrs_of(it)),
                ("text", _) if in_tspan => { if let Some(l) = spans.last_mut() { l.push_str(it[1].as_str().unwrap_or("")); } }
                ("text", _) if in_text_el => direct.push_str(it[1].as_str().unwrap_or("")),
                _ => {}
            }
        }
        let got: Vec<String> = if lines.len() > 1 { spans.clone() } else { vec![direct.clone()] };
        let mut want: Vec<String> = if lines.len() > 1 { lines.iter().map(|l| if l.is_empty() { "\u{200B}".to_string() } else { l.clone() }).collect() } else { lines.clone() };
        // vertical text is written column by column from the right: the tspans come in reverse order
        if vertical_cls && lines.len() > 1 { want.reverse(); }
        if got != want {
            fail(rep, "content", format!("generated text is {:?}, the author wrote {:?}", got, want));
            continue;
        }
        // anchor
        let outside = outside_cls || matches!(name, "line" | "text");
        let (px, py) = loc_point(&bb, loc);
        let sgn = if outside { -1.0 } else { 1.0 };
        let mut ex_x = px;
        let mut ex_y = py;
        if let Some(l) = &edge_loc {
            // along the shape's own edge; the offset moves it perpendicular to that edge only
            match &l[..1] { "t" => ex_y += sgn * off, "b" => ex_y -= sgn * off, "l" => ex_x += sgn * off, _ => ex_x -= sgn * off }
            st.tally("text-loc=edge");
        } else {
            if loc.contains('t') { ex_y += sgn * off; }
            if loc.contains('b') && loc != "b" || loc == "b" { if loc.starts_with('b') { ex_y -= sgn * off; } }
            if loc.ends_with('l') && loc != "l" || loc == "l" { ex_x += sgn * off; }
            if loc.ends_with('r') && loc != "r" || loc == "r" { ex_x -= sgn * off; }
        }
        ex_x += tdx;
        ex_y += tdy;
        let gx = text_attrs.iter().find(|(k, _)| k == "x").and_then(|(_, v)| v.parse::<f64>().ok());
        let gy = text_attrs.iter().find(|(k, _)| k == "y").and_then(|(_, v)| v.parse::<f64>().ok());
        match (gx, gy) {
            (Some(x), Some(y)) if (x - ex_x).abs() <= 0.0011 && (y - ex_y).abs() <= 0.0011 => {}
            other => { fail(rep, "anchor", format!("text anchored at {:?}, text-loc={loc} offset={off} outside={outside} of {:?} is ({ex_x}, {ex_y})", other, bb)); continue; }
        }
        // alignment classes: the side of the box the text sits at, seen from the text (flipped when it is
        // outside), per axis, with the -vertical suffix for vertical text; nothing for the centre of an axis
        {
            let side = |inside_name: &str, outside_name: &str| -> String { format!("d-text-{}{}", if outside { outside_name } else { inside_name }, if vertical_cls { "-vertical" } else { "" }) };
            let l0 = edge_loc.as_deref().map(|l| &l[..1]).unwrap_or(loc);
            let mut want_cls: Vec<String> = vec![];
            if l0.starts_with('t') { want_cls.push(side("top", "bottom")); }
            if l0.starts_with('b') { want_cls.push(side("bottom", "top")); }
            if l0.ends_with('l') { want_cls.push(side("left", "right")); }
            if l0.ends_with('r') { want_cls.push(side("right", "left")); }
            want_cls.sort();
            let cls = text_attrs.iter().find(|(k, _)| k == "class").map(|(_, v)| v.clone()).unwrap_or_default();
            let fam = ["d-text-top", "d-text-bottom", "d-text-left", "d-text-right", "d-text-top-vertical", "d-text-bottom-vertical", "d-text-left-vertical", "d-text-right-vertical"];
            let mut got_cls: Vec<String> = cls.split_whitespace().filter(|c| fam.contains(c)).map(|c| c.to_string()).collect();
            got_cls.sort();
            if got_cls != want_cls || !cls.split_whitespace().any(|c| c == "d-text") {
                fail(rep, "alignment", format!("text element has classes {cls:?}; text-loc={loc} outside={outside} vertical={vertical_cls} asks for d-text and {want_cls:?}"));
                continue;
            }
        }
        // the shape keeps its geometry and loses the text-specific attributes
        if let Some(sa) = shape_attrs {
            let mut ok = true;
            for (k, v) in &geo { if sa.iter().find(|(a, _)| a == k).map(|(_, b)| b.as_str()) != Some(v.as_str()) { ok = false; } }
            if sa.iter().any(|(k, _)| k.starts_with("text")) { ok = false; }
            if !ok { fail(rep, "shape", format!("shape element changed: {:?} (expected geometry {:?}, no text-* attributes)", sa, geo)); continue; }
        } else if carrier != "text-element" {
            fail(rep, "shape-missing", "the shape itself is missing from the output".into());
            continue;
        }
        st.exact += 1;
    }
    rep.streams.push(st);
}

pub fn run(rep: &mut Report, tier: &str, seed: u64) -> Result<(), String> {
    let mut rng = Rng::new(seed);
    let mut drv = Driver::start()?;
    let mut ex = Expat::start()?;
    let (nh, nd) = if tier == "thorough" { (80_000, 60_000) } else { (3_000, 2_000) };
    stream_hook(rep, &mut drv, &mut rng.fork(), nh)?;
    oracle_docs(rep, &mut ex, &mut rng.fork(), nd);
    Ok(())
}
