//! C09 — relative positioning places elements exactly where the relspec says.
use crate::driver::Driver;
use crate::geom::*;
use crate::report::*;
use crate::rng::Rng;
use crate::util::*;
use serde_json::json;

pub type B = [f64; 4];

/// Reference semantics of a location on a box, written from docs/…/reference (not from the code).
pub fn loc_point(b: &B, loc: &str) -> (f64, f64) {
    let (x1, y1, x2, y2) = (b[0], b[1], b[2], b[3]);
    let (cx, cy) = ((x1 + x2) / 2.0, (y1 + y2) / 2.0);
    let off = |spec: &str, s: f64, e: f64| -> f64 {
        if let Some(p) = spec.strip_suffix('%') {
            s + (e - s) * p.parse::<f64>().unwrap() / 100.0
        } else {
            let a: f64 = spec.parse().unwrap();
            if a < 0.0 { e + a } else { s + a }
        }
    };
    match loc {
        "tl" => (x1, y1), "t" => (cx, y1), "tr" => (x2, y1), "r" => (x2, cy), "br" => (x2, y2),
        "b" => (cx, y2), "bl" => (x1, y2), "l" => (x1, cy), "c" => (cx, cy),
        other => {
            let (edge, spec) = other.split_once(':').unwrap();
            match edge {
                "t" => (off(spec, x1, x2), y1),
                "b" => (off(spec, x1, x2), y2),
                "l" => (x1, off(spec, y1, y2)),
                "r" => (x2, off(spec, y1, y2)),
                _ => unreachable!(),
            }
        }
    }
}

pub const LOCS: [&str; 9] = ["tl", "t", "tr", "r", "br", "b", "bl", "l", "c"];
const EDGE_SPECS: [&str; 10] = ["0", "2", "6", "-2", "-4", "0%", "25%", "50%", "100%", "150%"];

pub fn gen_loc(rng: &mut Rng) -> String {
    if rng.chance(2, 3) {
        rng.pick(&LOCS).to_string()
    } else {
        format!("{}:{}", rng.pick(&["t", "r", "b", "l"]), rng.pick(&EDGE_SPECS))
    }
}

/// fraction of the element's own size between its top-left and the anchor named by xy-loc
fn anchor_frac(k: &str) -> (f64, f64) {
    match k {
        "t" => (0.5, 0.0), "tr" => (1.0, 0.0), "r" => (1.0, 0.5), "br" => (1.0, 1.0),
        "b" => (0.5, 1.0), "bl" => (0.0, 1.0), "l" => (0.0, 0.5), "c" => (0.5, 0.5),
        _ => (0.0, 0.0),
    }
}

#[derive(Clone, Debug)]
pub struct Node {
    pub el: El,
    pub expect: B,
    pub form: String,
}

fn size_attrs(rng: &mut Rng, el: &mut El, shape: &str, w: f64, h: f64) {
    let f = |v: f64| fstr_ref(v);
    match shape {
        // a circle or ellipse may also be sized like a box, by width and height (wh): the same element
        "circle" | "ellipse" if rng.chance(1, 4) => {
            if rng.chance(1, 2) { el.push("wh", &if shape == "circle" && rng.chance(1, 2) { f(w) } else { format!("{} {}", f(w), f(h)) }); }
            else { el.push("width", &f(w)); el.push("height", &f(h)); }
        }
        "circle" => el.push("r", &f(w / 2.0)),
        "ellipse" => {
            if rng.chance(1, 2) {
                el.push("rxy", &format!("{} {}", f(w / 2.0), f(h / 2.0)))
            } else {
                el.push("rx", &f(w / 2.0));
                el.push("ry", &f(h / 2.0));
            }
        }
        "point" => {}
        _ => {
            // one in four: part of the size comes as a delta (dw / dh / dwh), of either sign; the size
            // everything else is placed by is the final one
            let (mut w, mut h) = (w, h);
            let mut delta: Option<(f64, f64)> = None;
            if rng.chance(1, 4) && w > 4.0 && h > 4.0 {
                let (a, b) = (rng.range(-3, 3) as f64, rng.range(-3, 3) as f64);
                w -= a;
                h -= b;
                delta = Some((a, b));
            }
            if rng.chance(1, 2) {
                el.push("wh", &if w == h && rng.chance(1, 2) { f(w) } else { format!("{} {}", f(w), f(h)) })
            } else {
                el.push("width", &f(w));
                el.push("height", &f(h));
            }
            if let Some((a, b)) = delta {
                if rng.chance(1, 2) { el.push("dwh", &format!("{} {}", f(a), f(b))); } else { el.push("dw", &f(a)); el.push("dh", &f(b)); }
            }
        }
    }
}

pub fn native_el(shape: &str, b: &B) -> Vec<(String, String)> {
    let f = |v: f64| fstr_ref(v);
    let (x1, y1, x2, y2) = (b[0], b[1], b[2], b[3]);
    match shape {
        "rect" | "box" => vec![("x".into(), f(x1)), ("y".into(), f(y1)), ("width".into(), f(x2 - x1)), ("height".into(), f(y2 - y1))],
        "circle" => vec![("cx".into(), f((x1 + x2) / 2.0)), ("cy".into(), f((y1 + y2) / 2.0)), ("r".into(), f((x2 - x1) / 2.0))],
        "ellipse" => vec![("cx".into(), f((x1 + x2) / 2.0)), ("cy".into(), f((y1 + y2) / 2.0)), ("rx".into(), f((x2 - x1) / 2.0)), ("ry".into(), f((y2 - y1) / 2.0))],
        _ => vec![],
    }
}

/// box described by the native output attributes of an element
pub fn out_box(e: &El) -> Option<B> {
    let g = |k: &str| -> Option<f64> { e.get(k).and_then(|v| v.parse::<f64>().ok()) };
    let g0 = |k: &str| -> Option<f64> { match e.get(k) { None => Some(0.0), Some(v) => v.parse::<f64>().ok() } };
    match e.name.as_str() {
        "rect" => { let (x, y, w, h) = (g0("x")?, g0("y")?, g("width")?, g("height")?); Some([x, y, x + w, y + h]) }
        "circle" => { let (cx, cy, r) = (g0("cx")?, g0("cy")?, g("r")?); Some([cx - r, cy - r, cx + r, cy + r]) }
        "ellipse" => { let (cx, cy, rx, ry) = (g0("cx")?, g0("cy")?, g("rx")?, g("ry")?); Some([cx - rx, cy - ry, cx + rx, cy + ry]) }
        "line" => { let (a, b, c, d) = (g0("x1")?, g0("y1")?, g0("x2")?, g0("y2")?); Some([a.min(c), b.min(d), a.max(c), b.max(d)]) }
        _ => None,
    }
}

/// a document of `n` elements, each after the first positioned relative to an earlier one
pub fn gen_doc(rng: &mut Rng, n: usize) -> Vec<Node> {
    let mut nodes: Vec<Node> = vec![];
    let shapes = ["rect", "circle", "ellipse", "rect", "box", "point", "line"];
    for i in 0..n {
        let mut shape = *rng.pick(&shapes);
        if i == 0 && shape == "line" {
            shape = "rect";
        }
        let id = format!("e{i}");
        let mut el = El::new(shape);
        el.push("id", &id);
        let (w, h) = {
            let w = 2.0 * rng.range(1, 20) as f64;
            let h = if shape == "circle" { w } else { 2.0 * rng.range(1, 20) as f64 };
            if shape == "point" { (0.0, 0.0) } else { (w, h) }
        };
        if i == 0 {
            let hb = gen_box(rng, shape == "circle");
            let mut b = hb.f();
            if shape == "point" {
                b = [b[0], b[1], b[0], b[1]];
                el.push("xy", &format!("{} {}", fstr_ref(b[0]), fstr_ref(b[1])));
            }
            for (k, v) in native_el(shape, &b) {
                el.push(&k, &v);
            }
            nodes.push(Node { el, expect: b, form: "absolute".into() });
            continue;
        }
        if shape == "line" {
            // a line between locations of two earlier elements
            let j1 = rng.below(i);
            let j2 = rng.below(i);
            let (l1, l2) = (gen_loc(rng), gen_loc(rng));
            let (dxk, dyk) = (rng.range(-6, 6), rng.range(-6, 6));
            el.push("xy1", &format!("#e{j1}@{l1}"));
            el.push("xy2", &format!("#e{j2}@{l2} {} {}", half(dxk), half(dyk)));
            let p1 = loc_point(&nodes[j1].expect, &l1);
            let p2 = loc_point(&nodes[j2].expect, &l2);
            let p2 = (p2.0 + dxk as f64 / 2.0, p2.1 + dyk as f64 / 2.0);
            let expect = [p1.0.min(p2.0), p1.1.min(p2.1), p1.0.max(p2.0), p1.1.max(p2.1)];
            nodes.push(Node { el, expect, form: "line:xy1/xy2".into() });
            continue;
        }
        let j = rng.below(i);
        // `^` is the previous element in document order that has a bounding box: here always i-1
        let r = if j == i - 1 && rng.chance(1, 2) { "^".to_string() } else { format!("#e{j}") };
        let rb = nodes[j].expect;
        let form = rng.below(6);
        let expect: B;
        let fname;
        match form {
            0 => {
                // direction + gap
                let d = *rng.pick(&["h", "H", "v", "V"]);
                let gap_k = rng.range(-6, 12);
                let gap = gap_k as f64 / 2.0;
                let spec = if gap_k == 0 && rng.chance(1, 2) { format!("{r}|{d}") } else { format!("{r}|{d} {}", half(gap_k)) };
                el.push("xy", &spec);
                size_attrs(rng, &mut el, shape, w, h);
                let (x, y) = match d {
                    "h" => (rb[2] + gap, (rb[1] + rb[3]) / 2.0 - h / 2.0),
                    "H" => (rb[0] - gap - w, (rb[1] + rb[3]) / 2.0 - h / 2.0),
                    "v" => ((rb[0] + rb[2]) / 2.0 - w / 2.0, rb[3] + gap),
                    _ => ((rb[0] + rb[2]) / 2.0 - w / 2.0, rb[1] - gap - h),
                };
                expect = [x, y, x + w, y + h];
                fname = format!("dir:{d}");
            }
            1 | 2 => {
                // @loc with optional dx dy; anchor default / xy-loc / cxy
                let loc = gen_loc(rng);
                let (dxk, dyk) = if rng.chance(1, 2) { (rng.range(-10, 10), rng.range(-10, 10)) } else { (0, 0) };
                let tail = if (dxk, dyk) == (0, 0) && rng.chance(1, 2) { String::new() }
                    else if dxk == dyk && rng.chance(1, 2) { format!(" {}", half(dxk)) }
                    else { format!(" {} {}", half(dxk), half(dyk)) };
                let (px, py) = loc_point(&rb, &loc);
                let (px, py) = (px + dxk as f64 / 2.0, py + dyk as f64 / 2.0);
                let (fx, fy);
                if form == 2 && rng.chance(1, 2) {
                    el.push("cxy", &format!("{r}@{loc}{tail}"));
                    (fx, fy) = (0.5, 0.5);
                    fname = "loc:cxy".to_string();
                } else {
                    el.push("xy", &format!("{r}@{loc}{tail}"));
                    if form == 2 {
                        let k = *rng.pick(&["t", "tr", "r", "br", "b", "bl", "l", "c", "tl"]);
                        el.push("xy-loc", k);
                        (fx, fy) = anchor_frac(k);
                        fname = format!("loc:xy-loc={k}");
                    } else {
                        (fx, fy) = (0.0, 0.0);
                        fname = format!("loc:{}", if loc.contains(':') { "edge" } else { "named" });
                    }
                }
                size_attrs(rng, &mut el, shape, w, h);
                let (x, y) = (px - fx * w, py - fy * h);
                expect = [x, y, x + w, y + h];
            }
            3 => {
                // per-axis references: locations and scalars
                let rectlike = matches!(shape, "rect" | "box" | "point");
                let (xa, ya) = if rectlike { ("x", "y") } else { ("cx", "cy") };
                let scalars_x = [("x", rb[0]), ("x2", rb[2]), ("cx", (rb[0] + rb[2]) / 2.0), ("w", rb[2] - rb[0]), ("x1", rb[0])];
                let scalars_y = [("y", rb[1]), ("y2", rb[3]), ("cy", (rb[1] + rb[3]) / 2.0), ("h", rb[3] - rb[1]), ("y1", rb[1])];
                let dk = rng.range(-8, 8);
                let (sx, vx) = *rng.pick(&scalars_x);
                let (sy, vy) = *rng.pick(&scalars_y);
                let mut vx = vx;
                let mut vy = vy;
                let xs = if rng.chance(1, 2) { vx += dk as f64 / 2.0; format!("{r}~{sx} {}", half(dk)) } else { format!("{r}~{sx}") };
                let ys = if rng.chance(1, 3) {
                    // location form on one axis: y="#id@loc dy"
                    let loc = *rng.pick(&LOCS);
                    let (_, py) = loc_point(&rb, loc);
                    vy = py + dk as f64 / 2.0;
                    format!("{r}@{loc} {}", half(dk))
                } else {
                    format!("{r}~{sy}")
                };
                // a rect may also give the far edge or the centre of an axis (x2 / cx, y2 / cy): attributes that
                // the position pipeline consumes; the reference in them is resolved like any other
                let (mut xa, mut ya) = (xa, ya);
                let (mut offx, mut offy) = (0.0, 0.0);
                if shape == "rect" {
                    match rng.below(4) { 0 => { xa = "x2"; offx = w; } 1 => { xa = "cx"; offx = w / 2.0; } _ => {} }
                    match rng.below(4) { 0 => { ya = "y2"; offy = h; } 1 => { ya = "cy"; offy = h / 2.0; } _ => {} }
                }
                el.push(xa, &xs);
                el.push(ya, &ys);
                size_attrs(rng, &mut el, shape, w, h);
                let (x, y) = if rectlike { (vx - offx, vy - offy) } else { (vx - w / 2.0, vy - h / 2.0) };
                expect = [x, y, x + w, y + h];
                fname = "axis:scalar".to_string();
            }
            _ => {
                // relative sizes (rect only keeps this simple and exact)
                el.name = "rect".into();
                let (rw, rh) = (rb[2] - rb[0], rb[3] - rb[1]);
                let pos = gen_box(rng, false).f();
                el.push("xy", &format!("{} {}", fstr_ref(pos[0]), fstr_ref(pos[1])));
                let (mut ew, mut eh);
                match rng.below(4) {
                    0 => { el.push("wh", &r); ew = rw; eh = rh; fname = "size:wh=ref".to_string(); }
                    1 => { let p = *rng.pick(&[50, 25, 150, 200, 100]); el.push("wh", &format!("{r} {p}%")); ew = rw * p as f64 / 100.0; eh = rh * p as f64 / 100.0; fname = "size:wh=ref pct".to_string(); }
                    2 => { let (a, b) = (rng.range(if rw > 4.0 { -2 } else { 1 }, 8), rng.range(if rh > 4.0 { -2 } else { 1 }, 8)); { let sp = *rng.pick(&[" ", " ", ",", ", ", " , "]); el.push("wh", &format!("{r} {a}{sp}{b}")); } ew = rw + a as f64; eh = rh + b as f64; fname = "size:wh=ref dw dh".to_string(); }
                    _ if rng.chance(1, 2) => {
                        // one percentage per axis, separated by blanks or by a comma with optional blanks
                        let (p, q) = (*rng.pick(&[50, 25, 150, 100]), *rng.pick(&[50, 20, 200, 100]));
                        let sp = *rng.pick(&[" ", ",", ", ", " , "]);
                        el.push("wh", &format!("{r} {p}%{sp}{q}%"));
                        ew = rw * p as f64 / 100.0; eh = rh * q as f64 / 100.0;
                        fname = "size:wh=ref pct pct".to_string();
                    }
                    _ => { el.push("width", &format!("{r}~h")); el.push("height", &format!("{r}~w 50%")); ew = rh; eh = rw * 0.5; fname = "size:scalar".to_string(); }
                }
                if rng.chance(1, 3) {
                    let (a, b) = (rng.range(0, 6), rng.range(0, 6));
                    if rng.chance(1, 2) { el.push("dwh", &format!("{a} {b}")); } else { el.push("dw", &a.to_string()); el.push("dh", &b.to_string()); }
                    ew += a as f64;
                    eh += b as f64;
                }
                expect = [pos[0], pos[1], pos[0] + ew, pos[1] + eh];
            }
        }
        nodes.push(Node { el, expect, form: fname });
    }
    nodes
}

pub fn expect_json(nodes: &[Node]) -> serde_json::Value {
    let mut m = serde_json::Map::new();
    for n in nodes {
        if n.el.name != "box" && n.el.name != "point" {
            m.insert(n.el.get("id").unwrap_or("").to_string(), json!(n.expect.to_vec()));
        }
    }
    serde_json::Value::Object(m)
}

/// the C09 predicate on the implementation: every listed id is output with exactly the expected box
pub fn check_expect(doc: &str, expect: &serde_json::Value) -> Option<String> {
    let cfg = default_cfg();
    match transform(doc, &cfg) {
        Err(p) => Some(format!("panic: {p}")),
        Ok(Err(e)) => Some(format!("transform failed on a valid reference document: {e}")),
        Ok(Ok(out)) => {
            let outs = match parse_elements(&out) { Ok(o) => o, Err(e) => return Some(format!("unparseable output: {e}")) };
            for (id, bx) in expect.as_object()? {
                let want: Vec<f64> = bx.as_array()?.iter().filter_map(|v| v.as_f64()).collect();
                let Some(o) = outs.iter().find(|o| o.el.get("id") == Some(id.as_str())) else { return Some(format!("element #{id} missing from output")) };
                match out_box(&o.el) {
                    Some(b) if b.iter().zip(&want).all(|(x, y)| (x - y).abs() <= 0.0011) => {}
                    other => return Some(format!("#{id} placed at {:?}, the relspec says {:?}", other, want)),
                }
            }
            None
        }
    }
}

pub fn replay(rep: &mut Report, v: &serde_json::Value) {
    let r = v.get("replay").unwrap_or(v);
    let (Some(doc), Some(exp)) = (r.get("input").and_then(|x| x.as_str()), r.get("expect_by_id")) else {
        rep.notes.push("replay file has no input/expect_by_id".into());
        return;
    };
    let mut st = Stream::new("replay", "oracle", "the replay input");
    st.case(doc, true, || json!({"document": doc}));
    if let Some(what) = check_expect(doc, exp) {
        rep.violation(Violation { kind: "oracle", stream: "replay".into(), signature: "C09:replay".into(), what, replay: r.clone(), confirmed_on_impl: true });
    } else {
        st.exact += 1;
    }
    rep.streams.push(st);
}

/// minimised past failures and known-finding inputs run first
pub fn corpus(rep: &mut Report) {
    let mut st = Stream::new("corpus", "oracle", "files of /verif/corpus/C09: past failures, each with the boxes the relspec prescribes");
    if let Ok(rd) = std::fs::read_dir("/verif/corpus/C09") {
        let mut files: Vec<_> = rd.filter_map(|e| e.ok()).map(|e| e.path()).collect();
        files.sort();
        for f in files {
            let Ok(text) = std::fs::read_to_string(&f) else { continue };
            let Ok(v) = serde_json::from_str::<serde_json::Value>(&text) else { continue };
            let (Some(doc), Some(exp)) = (v.get("input").and_then(|x| x.as_str()), v.get("expect_by_id")) else { continue };
            st.case(doc, true, || json!({"file": f.display().to_string()}));
            if let Some(what) = check_expect(doc, exp) {
                let sig = v.get("signature").and_then(|x| x.as_str()).unwrap_or("C09:corpus").to_string();
                rep.violation(Violation { kind: "oracle", stream: "corpus".into(), signature: sig, what, replay: v.clone(), confirmed_on_impl: true });
            } else {
                st.exact += 1;
            }
        }
    }
    rep.streams.push(st);
}

pub fn doc_xml(nodes: &[Node]) -> String {
    format!("<svg>\n{}\n</svg>", nodes.iter().map(|n| format!("  {}", n.el.xml())).collect::<Vec<_>>().join("\n"))
}

fn close(a: &B, b: &B) -> bool {
    a.iter().zip(b).all(|(x, y)| (x - y).abs() <= 0.0011)
}

fn stream_docs(rep: &mut Report, drv: &mut Driver, rng: &mut Rng, n: usize) -> Result<(), String> {
    let mut corr = Stream::new(
        "doc/relspec",
        "correspondence",
        "documents of 2-7 rect/circle/ellipse/line/box/point elements, each after the first placed relative to an earlier one (#id or ^) with a random relspec form (4 directions+gap, 9 locations + 4 edges with abs/negative/percent offsets, dx dy, xy-loc, cxy, per-axis scalar/location refs, relative sizes, dw/dh); transform_str output elements vs the Lean model's in-order evaluation, attribute for attribute; non-trivial = at least one relative element",
    );
    let mut orc = Stream::new(
        "oracle/placement",
        "oracle",
        "same documents; each output element's box (from its native attributes) must equal the box computed by an independent reference of the documented semantics (tolerance 0.0011)",
    );
    let cfg = default_cfg();
    for _ in 0..n {
        let k = 2 + rng.below(6);
        let nodes = gen_doc(rng, k);
        let doc = doc_xml(&nodes);
        corr.case(&doc, true, || json!({"document": doc}));
        orc.case(&doc, true, || json!({"document": doc, "expected_boxes": nodes.iter().map(|n| n.expect.to_vec()).collect::<Vec<_>>()}));
        for nd in &nodes[1..] {
            corr.tally(&format!("form={}", nd.form));
        }
        let imp = transform(&doc, &cfg);
        // model
        let encs: Vec<String> = nodes.iter().map(|n| n.el.encode()).collect();
        let encr: Vec<&str> = encs.iter().map(|s| s.as_str()).collect();
        let m = drv.call("resolve_doc", &encr)?;
        let m_err = m.iter().any(|f| f.starts_with("err:"));
        match &imp {
            Err(p) => {
                rep.violation(Violation { kind: "oracle", stream: orc.name.clone(), signature: "C09:panic".into(), what: format!("panic: {p}"), replay: json!({"input": doc}), confirmed_on_impl: true });
                continue;
            }
            Ok(Err(e)) => {
                if m_err {
                    corr.errors_agreed += 1;
                } else {
                    rep.violation(Violation { kind: "correspondence", stream: corr.name.clone(), signature: "doc:impl-error".into(), what: format!("implementation fails ({}) where the model succeeds", err_kind(e)), replay: json!({"input": doc, "impl_error": e}), confirmed_on_impl: false });
                }
                // a well-formed relative document must not fail: that is the property
                rep.violation(Violation { kind: "oracle", stream: orc.name.clone(), signature: format!("C09:error:{}", err_kind(e)), what: format!("transform failed on a valid reference document: {e}"), replay: json!({"input": doc}), confirmed_on_impl: true });
                continue;
            }
            Ok(Ok(out)) => {
                let outs = match parse_elements(out) {
                    Ok(o) => o,
                    Err(e) => { rep.violation(Violation { kind: "oracle", stream: orc.name.clone(), signature: "C09:unparseable".into(), what: e, replay: json!({"input": doc}), confirmed_on_impl: true }); continue; }
                };
                let shapes: Vec<&OutEl> = outs.iter().filter(|o| ["rect", "circle", "ellipse", "line"].contains(&o.el.name.as_str())).collect();
                let visible: Vec<&Node> = nodes.iter().filter(|n| n.el.name != "box" && n.el.name != "point").collect();
                let m: Vec<String> = m.iter().filter(|f| !(f.starts_with("box\u{1f}") || f.starts_with("point\u{1f}") || f.as_str() == "box" || f.as_str() == "point")).cloned().collect();
                // correspondence
                let imp_encs: Vec<String> = shapes.iter().map(|o| o.el.encode()).collect();
                if m_err || imp_encs != m {
                    let idx = imp_encs.iter().zip(m.iter()).position(|(a, b)| a != b).unwrap_or(0);
                    rep.violation(Violation { kind: "correspondence", stream: corr.name.clone(), signature: format!("doc:{}", visible.get(idx).map(|n| n.form.clone()).unwrap_or_default()),
                        what: format!("element {idx}: impl {:?} vs model {:?}", imp_encs.get(idx), m.get(idx)), replay: json!({"input": doc, "impl": imp_encs, "model": m}), confirmed_on_impl: false });
                } else {
                    corr.exact += 1;
                }
                // oracle
                if shapes.len() != visible.len() {
                    rep.violation(Violation { kind: "oracle", stream: orc.name.clone(), signature: "C09:count".into(), what: format!("expected {} shapes, output has {}", visible.len(), shapes.len()), replay: json!({"input": doc}), confirmed_on_impl: true });
                    continue;
                }
                let mut good = true;
                for (o, nd) in shapes.iter().zip(visible.iter()) {
                    match out_box(&o.el) {
                        Some(b) if close(&b, &nd.expect) => {}
                        other => {
                            good = false;
                            rep.violation(Violation { kind: "oracle", stream: orc.name.clone(), signature: format!("C09:placement:{}", nd.form.split(['=', ':']).next().unwrap_or("")),
                                what: format!("{} placed at {:?}, the relspec ({}) says {:?}", nd.el.xml(), other, nd.form, nd.expect),
                                replay: json!({"input": doc, "element": nd.el.xml(), "expect_by_id": expect_json(&nodes), "observed_box": other.map(|b| b.to_vec())}), confirmed_on_impl: true });
                            break;
                        }
                    }
                }
                if good {
                    orc.exact += 1;
                }
            }
        }
    }
    rep.streams.push(corr);
    rep.streams.push(orc);
    Ok(())
}

/// `<use>` elements: x / y translate the target, so the element's box is the target's box moved by
/// that much, wherever the target stands; placed by direction or centre they land where asked, and
/// what is placed relative to them sees that box.
fn stream_use(rep: &mut Report, drv: &mut Driver, rng: &mut Rng, n: usize) -> Result<(), String> {
    let mut corr = Stream::new(
        "doc/use-placement",
        "correspondence",
        "a template (rect / circle / ellipse anywhere), an anchor rect, a <use> of the template given plain x / y (with optional dx / dy), a direction relspec or a cxy location relspec, and a follower rect placed relative to the <use>; transform_str output elements vs the Lean model, attribute for attribute",
    );
    let mut orc = Stream::new(
        "oracle/use-placement",
        "oracle",
        "same documents; the box of the <use> (target box moved by the output's x / y) is the target moved by the given x / y (attributes unchanged), beside the anchor, or centred on the named point; the follower sits relative to that box (tolerance 0.0011)",
    );
    let cfg = default_cfg();
    for _ in 0..n {
        let form = rng.below(4);
        // a polygon has a box but no size of its own: only moved by plain x / y (dx / dy on such a <use>
        // are applied to the attributes present and otherwise dropped: not exercised here)
        let ts = if form == 0 { *rng.pick(&["rect", "circle", "ellipse", "polygon"]) } else { *rng.pick(&["rect", "circle", "ellipse"]) };
        let tb = gen_box(rng, ts == "circle").f();
        let (tw, th) = (tb[2] - tb[0], tb[3] - tb[1]);
        let mut t = El::new(ts);
        t.push("id", "t");
        if ts == "polygon" {
            t.push("points", &format!("{} {} {} {} {} {}", fstr_ref(tb[0]), fstr_ref(tb[1]), fstr_ref(tb[2]), fstr_ref((tb[1] + tb[3]) / 2.0), fstr_ref((tb[0] + tb[2]) / 2.0), fstr_ref(tb[3])));
        } else {
            for (k, v) in native_el(ts, &tb) { t.push(&k, &v); }
        }
        let ab = gen_box(rng, false).f();
        let mut a = El::new("rect");
        a.push("id", "a");
        for (k, v) in native_el("rect", &ab) { a.push(&k, &v); }
        let mut u = El::new("use");
        u.push("id", "u");
        u.push(if rng.chance(1, 4) { "xlink:href" } else { "href" }, "#t");
        let ub: B;
        let fname;
        let mut plain: Option<(Option<String>, Option<String>)> = None;
        match form {
            0 | 1 => {
                let (xk, yk) = (rng.range(-40, 40), rng.range(-40, 40));
                let (hx, hy) = (rng.chance(3, 4), rng.chance(3, 4));
                if hx { u.push("x", &half(xk)); }
                if hy { u.push("y", &half(yk)); }
                let (mut mx, mut my) = (if hx { xk as f64 / 2.0 } else { 0.0 }, if hy { yk as f64 / 2.0 } else { 0.0 });
                if form == 1 {
                    let (dk, ek) = (rng.range(-10, 10), rng.range(-10, 10));
                    u.push("dx", &half(dk));
                    u.push("dy", &half(ek));
                    mx += dk as f64 / 2.0;
                    my += ek as f64 / 2.0;
                    fname = "plain+dxdy";
                } else {
                    plain = Some((if hx { Some(half(xk)) } else { None }, if hy { Some(half(yk)) } else { None }));
                    fname = "plain";
                }
                ub = [tb[0] + mx, tb[1] + my, tb[2] + mx, tb[3] + my];
            }
            2 => {
                let d = *rng.pick(&["h", "H", "v", "V"]);
                let gk = rng.range(-6, 12);
                let gap = gk as f64 / 2.0;
                u.push("xy", &format!("#a|{d} {}", half(gk)));
                let (x, y) = match d {
                    "h" => (ab[2] + gap, (ab[1] + ab[3]) / 2.0 - th / 2.0),
                    "H" => (ab[0] - gap - tw, (ab[1] + ab[3]) / 2.0 - th / 2.0),
                    "v" => ((ab[0] + ab[2]) / 2.0 - tw / 2.0, ab[3] + gap),
                    _ => ((ab[0] + ab[2]) / 2.0 - tw / 2.0, ab[1] - gap - th),
                };
                ub = [x, y, x + tw, y + th];
                fname = "dir";
            }
            _ => {
                let loc = gen_loc(rng);
                let (dk, ek) = if rng.chance(1, 2) { (rng.range(-10, 10), rng.range(-10, 10)) } else { (0, 0) };
                u.push("cxy", &format!("#a@{loc} {} {}", half(dk), half(ek)));
                let (px, py) = loc_point(&ab, &loc);
                let (px, py) = (px + dk as f64 / 2.0, py + ek as f64 / 2.0);
                ub = [px - tw / 2.0, py - th / 2.0, px + tw / 2.0, py + th / 2.0];
                fname = "cxy";
            }
        }
        // follower
        let mut f = El::new("rect");
        f.push("id", "f");
        let fb: B;
        if rng.chance(1, 2) {
            let loc = gen_loc(rng);
            f.push("xy", &format!("{}@{loc}", if rng.chance(1, 2) { "^" } else { "#u" }));
            let (px, py) = loc_point(&ub, &loc);
            fb = [px, py, px + 4.0, py + 2.0];
        } else {
            f.push("xy", "#u|h 1");
            fb = [ub[2] + 1.0, (ub[1] + ub[3]) / 2.0 - 1.0, ub[2] + 5.0, (ub[1] + ub[3]) / 2.0 + 1.0];
        }
        f.push("wh", "4 2");
        let els = [t, a, u.clone(), f];
        let doc = format!("<svg>\n{}\n</svg>", els.iter().map(|e| format!("  {}", e.xml())).collect::<Vec<_>>().join("\n"));
        corr.case(&doc, true, || json!({"document": doc}));
        orc.case(&doc, true, || json!({"document": doc}));
        corr.tally(&format!("form={fname}"));
        corr.tally(&format!("target={ts}"));
        let encs: Vec<String> = els.iter().map(|e| e.encode()).collect();
        let encr: Vec<&str> = encs.iter().map(|s| s.as_str()).collect();
        let m = drv.call("resolve_doc", &encr)?;
        let m_err = m.iter().any(|x| x.starts_with("err:"));
        match transform(&doc, &cfg) {
            Err(p) => rep.violation(Violation { kind: "oracle", stream: orc.name.clone(), signature: "C09:panic".into(), what: format!("panic: {p}"), replay: json!({"input": doc}), confirmed_on_impl: true }),
            Ok(Err(e)) => {
                if m_err { corr.errors_agreed += 1; } else {
                    rep.violation(Violation { kind: "correspondence", stream: corr.name.clone(), signature: "use:impl-error".into(), what: format!("implementation fails ({}) where the model succeeds", err_kind(&e)), replay: json!({"input": doc}), confirmed_on_impl: false });
                }
                rep.violation(Violation { kind: "oracle", stream: orc.name.clone(), signature: format!("C09:use:error:{}", err_kind(&e)), what: format!("transform failed on a valid document: {e}"), replay: json!({"input": doc}), confirmed_on_impl: true });
            }
            Ok(Ok(out)) => {
                let outs = match parse_elements(&out) { Ok(o) => o, Err(e) => { rep.violation(Violation { kind: "oracle", stream: orc.name.clone(), signature: "C09:unparseable".into(), what: e, replay: json!({"input": doc}), confirmed_on_impl: true }); continue; } };
                let imp: Vec<String> = outs.iter().filter(|o| o.el.get("id").is_some_and(|i| ["t", "a", "u", "f"].contains(&i))).map(|o| o.el.encode()).collect();
                if !m_err && imp == m { corr.exact += 1; } else {
                    let idx = imp.iter().zip(m.iter()).position(|(x, y)| x != y).unwrap_or(0);
                    rep.violation(Violation { kind: "correspondence", stream: corr.name.clone(), signature: format!("use:{fname}"), what: format!("element {idx}: impl {:?} vs model {:?}", imp.get(idx), m.get(idx)), replay: json!({"input": doc, "model": m}), confirmed_on_impl: false });
                }
                let get = |id: &str| outs.iter().find(|o| o.el.get("id") == Some(id)).map(|o| o.el.clone());
                let mut bad: Option<String> = None;
                match get("u") {
                    None => bad = Some("the <use> is missing from the output".into()),
                    Some(uo) => {
                        let g0 = |k: &str| uo.get(k).map(|v| v.parse::<f64>().unwrap_or(f64::NAN)).unwrap_or(0.0);
                        let got = [tb[0] + g0("x"), tb[1] + g0("y"), tb[2] + g0("x"), tb[3] + g0("y")];
                        if !close(&got, &ub) { bad = Some(format!("{} puts the {ts} at {:?}; {} ({fname}) asks for {:?}", uo.xml(), got, u.xml(), ub)); }
                        if let Some((px, py)) = &plain {
                            if uo.get("x").map(|s| s.to_string()) != *px && !(px.is_some() && close(&got, &ub)) { bad = Some(format!("plain x changed: {} -> {}", u.xml(), uo.xml())); }
                            if uo.get("y").map(|s| s.to_string()) != *py && !(py.is_some() && close(&got, &ub)) { bad = Some(format!("plain y changed: {} -> {}", u.xml(), uo.xml())); }
                        }
                        for k in ["xy", "cxy", "dx", "dy"] { if uo.get(k).is_some() { bad = Some(format!("{k} left on the output <use>: {}", uo.xml())); } }
                    }
                }
                if bad.is_none() {
                    match get("f").and_then(|fo| out_box(&fo)) {
                        Some(b) if close(&b, &fb) => {}
                        other => bad = Some(format!("the follower of the <use> sits at {:?}, relative to the box {:?} of the <use> it belongs at {:?}", other, ub, fb)),
                    }
                }
                match bad {
                    None => orc.exact += 1,
                    Some(what) => rep.violation(Violation { kind: "oracle", stream: orc.name.clone(), signature: format!("C09:use:{fname}"), what, replay: json!({"input": doc}), confirmed_on_impl: true }),
                }
            }
        }
    }
    rep.streams.push(corr);
    rep.streams.push(orc);
    Ok(())
}

/// the same reference DAGs written BACKWARDS: every reference points forward in the document, chains of any
/// length (z refers to b, b to c, c stands later still) - each element must land where its relspec says, not
/// against the as-written form of an element that is itself still waiting
fn stream_forward(rep: &mut Report, rng: &mut Rng, n: usize) {
    let mut orc = Stream::new(
        "oracle/forward-chains",
        "oracle",
        "the documents of doc/relspec with `^` spelled as the id it denotes and the element order reversed, so that every reference is a forward reference and chains of forward references of length up to 6 arise: each output element (matched by id) must have the box the independent reference computes (tolerance 0.0011); non-trivial = every case",
    );
    let cfg = default_cfg();
    for _ in 0..n {
        let k = 3 + rng.below(5);
        let mut nodes = gen_doc(rng, k);
        for i in 1..nodes.len() {
            let prev = format!("#e{}", i - 1);
            for (_, v) in nodes[i].el.attrs.iter_mut() {
                if v.starts_with('^') { *v = format!("{prev}{}", &v[1..]); }
            }
        }
        nodes.reverse();
        let doc = doc_xml(&nodes);
        orc.case(&doc, true, || json!({"document": doc}));
        match transform(&doc, &cfg) {
            Err(p) => rep.violation(Violation { kind: "oracle", stream: orc.name.clone(), signature: "C09:panic".into(), what: format!("panic: {p}"), replay: json!({"input": doc}), confirmed_on_impl: true }),
            Ok(Err(e)) => rep.violation(Violation { kind: "oracle", stream: orc.name.clone(), signature: format!("C09:error:{}", err_kind(&e)), what: format!("transform failed on a valid reference document (all references forward): {e}"), replay: json!({"input": doc}), confirmed_on_impl: true }),
            Ok(Ok(out)) => {
                let outs = match parse_elements(&out) { Ok(o) => o, Err(e) => { rep.violation(Violation { kind: "oracle", stream: orc.name.clone(), signature: "C09:unparseable".into(), what: e, replay: json!({"input": doc}), confirmed_on_impl: true }); continue; } };
                let mut good = true;
                for nd in nodes.iter().filter(|n| n.el.name != "box" && n.el.name != "point") {
                    let id = nd.el.get("id").unwrap_or("");
                    let got = outs.iter().find(|o| o.el.get("id") == Some(id)).and_then(|o| out_box(&o.el));
                    match got {
                        Some(b) if close(&b, &nd.expect) => {}
                        other => {
                            good = false;
                            rep.violation(Violation { kind: "oracle", stream: orc.name.clone(), signature: format!("C09:forward:{}", nd.form.split(['=', ':']).next().unwrap_or("")),
                                what: format!("{} placed at {:?}, the relspec ({}) says {:?}", nd.el.xml(), other, nd.form, nd.expect),
                                replay: json!({"input": doc, "element": nd.el.xml(), "expect_by_id": expect_json(&nodes)}), confirmed_on_impl: true });
                            break;
                        }
                    }
                }
                if good { orc.exact += 1; }
            }
        }
    }
    rep.streams.push(orc);
}

pub fn run(rep: &mut Report, tier: &str, seed: u64) -> Result<(), String> {
    let mut rng = Rng::new(seed);
    let mut drv = Driver::start()?;
    let n = if tier == "thorough" { 50_000 } else { 1_500 };
    corpus(rep);
    stream_docs(rep, &mut drv, &mut rng.fork(), n)?;
    stream_use(rep, &mut drv, &mut rng.fork(), n / 2)?;
    stream_forward(rep, &mut rng.fork(), n / 2);
    Ok(())
}
