//! C06 — determinism: same input and configuration give the same bytes, every time.
//!
//!  * repeat/in-process: transform_str twice and transform_stream once in this process: identical result;
//!  * repeat/new-process: the svgdx command in three fresh processes (each with its own hash seeds):
//!    identical stdout, exit status and error text, equal to the in-process result;
//!  * model/function: the Lean model is a function of (input, configuration); the documents of the first
//!    stream that lie in the modelled fragment are also run through it (ctl_doc) - agreement with a
//!    function is determinism of what it agrees with;
//!  * random/seed: documents using random() / randint(): same seed same bytes, and the values are the ones
//!    the PCG32 model predicts (bit-exact, C14's correspondence), different seeds differ.
use crate::ctl::*;
use crate::driver::Driver;
use crate::frontends::*;
use crate::report::*;
use crate::rng::Rng;
use crate::xmlgen;
use serde_json::json;
use std::time::Duration;

fn theme_doc(rng: &mut Rng) -> String {
    // many d-* classes (the sets behind the injected styles), several failing elements (multi error)
    let classes = ["d-fill-red", "d-stroke-blue", "d-text-bold", "d-grid-5", "d-grid-10", "d-hatch", "d-crosshatch-3", "d-stipple", "d-dash", "d-arrow", "d-biarrow", "d-softshadow", "d-hardshadow", "d-text-small", "d-thick", "d-surround", "d-flow", "d-dot", "d-fill-none", "d-text-ol", "d-text-largest", "d-text-smaller", "d-text-medium",
        // different spellings of the same spacing, and different families with the same spacing: any order
        // computed from a key that is not unique falls back on the order the hash set was iterated in
        "d-grid-05", "d-grid-005", "d-hatch-3", "d-hatch-03", "d-stipple-4", "d-stipple-04", "d-grid-h-5", "d-grid-v-5", "d-crosshatch-03", "d-grid-10.0"];
    let mut s = String::from("<svg>");
    // one document in three sets its own theme / base font size: what the injected rules are computed from
    // must be this document's, whatever the process transformed before
    if rng.chance(1, 3) {
        s.push_str("<config");
        if rng.chance(1, 2) { s.push_str(&format!(" theme=\"{}\"", rng.pick(&["dark", "light", "bold", "fine", "glass"]))); }
        if rng.chance(2, 3) { s.push_str(&format!(" font-size=\"{}\"", rng.pick(&["2", "6", "4.5"]))); }
        s.push_str("/>");
    }
    for i in 0..2 + rng.below(8) {
        let mut cl: Vec<&str> = (0..1 + rng.below(6)).map(|_| *rng.pick(&classes)).collect();
        cl.dedup();
        let el = *rng.pick(&["rect", "circle", "line", "text"]);
        match el {
            "rect" => s.push_str(&format!("<rect xy=\"{} {}\" wh=\"8 4\" class=\"{}\" text=\"t{i}\"/>", i * 10, i, cl.join(" "))),
            "circle" => s.push_str(&format!("<circle cxy=\"{} 9\" r=\"3\" class=\"{}\"/>", i * 10, cl.join(" "))),
            "line" => s.push_str(&format!("<line xy1=\"{} 0\" xy2=\"{} 9\" class=\"{}\"/>", i * 3, i * 4, cl.join(" "))),
            _ => s.push_str(&format!("<text xy=\"{} 20\" class=\"{}\">w{i}</text>", i * 6, cl.join(" "))),
        }
    }
    if rng.chance(1, 2) {
        // reuse: the reuse element's attributes are held in a hash map while they are applied to the copy
        s.push_str("<specs><rect id=\"tpl\" wh=\"4 2\" rx=\"1\"/><g id=\"tg\"><circle r=\"2\"/></g></specs>");
        for i in 0..1 + rng.below(3) {
            let mut attrs: Vec<String> = vec![format!("x=\"{}\"", i * 7), "y=\"30\"".to_string()];
            let pool = ["style=\"fill: red\"", "transform=\"rotate(5)\"", "class=\"u1 u2\"", "rx=\"2\"", "opacity=\"0.5\"", "data-a=\"1\"", "data-b=\"2\"", "stroke-width=\"3\"", "id=\"inst{}\""];
            for a in pool.iter() { if rng.chance(2, 3) { attrs.push(a.replace("{}", &i.to_string())); } }
            // shuffle
            for k in (1..attrs.len()).rev() { let j = rng.below(k + 1); attrs.swap(k, j); }
            s.push_str(&format!("<reuse href=\"#{}\" {}/>", if rng.chance(1, 2) { "tpl" } else { "tg" }, attrs.join(" ")));
        }
    }
    if rng.chance(1, 3) {
        // several elements that fail: the error must also be reproducible
        for k in 0..2 + rng.below(4) { s.push_str(&format!("<rect xy=\"#missing{k}|h\" wh=\"2\"/>")); }
    }
    s.push_str("</svg>");
    s
}

/// local styles requested by the document and withdrawn again (so the output carries no randomised id at
/// all), with random functions before and after: asking for the id must not disturb the seeded generator
fn local_toggle_doc(rng: &mut Rng) -> String {
    let mut s = String::from("<svg>");
    if rng.chance(1, 2) { s.push_str(&format!("<rect xy=\"{{{{randint(0, 40)}}}} 0\" wh=\"{} 3\"/>", 1 + rng.below(9))); }
    s.push_str(&format!("<config use-local-styles=\"true\"{}/>", rng.pick(&["", " border=\"3\"", " theme=\"bold\""])));
    if rng.chance(1, 2) { s.push_str("<rect xy=\"{{randint(0, 40)}} 5\" wh=\"2\" class=\"d-fill-red\"/>"); }
    s.push_str("<config use-local-styles=\"false\"/>");
    s.push_str(&format!("<circle cxy=\"{{{{randint(0, 60)}}}} {{{{random() * 20}}}}\" r=\"{}\"/><rect xy=\"^|h {{{{randint(1, 9)}}}}\" wh=\"2\"/></svg>", 1 + rng.below(4)));
    s
}

fn random_doc(rng: &mut Rng) -> String {
    let mut s = String::from("<svg>");
    let mut late: Vec<String> = vec![];
    for i in 0..1 + rng.below(6) {
        match rng.below(4) {
            3 => {
                // a forward reference inside nested groups, random draws on the way: an attempt that fails
                // draws as well, so WHICH attempts are made (a failed group is attempted again only if
                // something has changed since) decides every later random value
                let depth = 1 + rng.below(3);
                for d in 0..depth {
                    if rng.chance(1, 2) { s.push_str(&format!("<rect id=\"q{i}_{d}\" xy=\"{{{{randint(0, 40)}}}} 0\" wh=\"1\"/>")); }
                    s.push_str("<g>");
                }
                s.push_str(&format!("<rect xy=\"#late{i}|h\" wh=\"{{{{randint(1, 9)}}}} 2\"/>"));
                for d in 0..depth {
                    s.push_str("</g>");
                    if rng.chance(1, 2) { s.push_str(&format!("<rect id=\"p{i}_{d}\" xy=\"{{{{randint(0, 40)}}}} 9\" wh=\"1\"/>")); }
                }
                if rng.chance(4, 5) { late.push(format!("<rect id=\"late{i}\" xy=\"{{{{randint(0, 9)}}}} 20\" wh=\"2\"/>")); }
            }
            0 => s.push_str(&format!("<rect xy=\"{{{{random() * 50}}}} {{{{randint(0, 20)}}}}\" wh=\"{{{{randint(1, 9)}}}} 3\" id=\"r{i}\"/>")),
            1 => s.push_str(&format!("<loop count=\"{}\"><circle cxy=\"{{{{randint(-30, 30)}}}} {{{{randint(-30, 30)}}}}\" r=\"1\"/></loop>", 1 + rng.below(5))),
            // several attributes of ONE <var> draw: they are evaluated in the order they are written
            _ if rng.chance(1, 2) => s.push_str("<var p=\"{{randint(0, 50)}}\" q=\"{{randint(0, 50)}}\" r=\"{{random()}}\" s=\"{{randint(0, 9)}}\"/><rect xy=\"$p $q\" wh=\"{{1 + $s}} 2\"/><text xy=\"0 0\" text=\"$r\"/>"),
            _ => s.push_str("<var v=\"{{random()}}\"/><text xy=\"0 0\" text=\"$v\"/>"),
        }
    }
    for l in late { s.push_str(&l); }
    if rng.chance(1, 2) { s.push_str("<circle cxy=\"{{randint(0, 99)}} {{randint(0, 99)}}\" r=\"1\"/>"); }
    s.push_str("</svg>");
    s
}

fn gen_cfg(rng: &mut Rng) -> FCfg {
    FCfg {
        seed: if rng.chance(1, 2) { 0 } else { rng.below(1000) as u64 },
        scale: *rng.pick(&[1.0f32, 1.0, 2.0, 0.5]),
        border: *rng.pick(&[5u16, 5, 0, 12]),
        add_metadata: rng.chance(1, 5),
        no_auto_styles: rng.chance(1, 6),
        theme: *rng.pick(&[None, None, Some("dark"), Some("bold"), Some("fine"), Some("glass"), Some("light")]),
        loop_limit: 1000,
    }
}

pub fn judge(doc: &str, cfg: &FCfg, bin: Option<&std::path::Path>, dir: &std::path::Path, tag: &str) -> Option<String> {
    let a = via_str(doc, cfg);
    let b = via_str(doc, cfg);
    let c = via_stream(doc.as_bytes(), cfg);
    let same = |x: &Res, y: &Res| -> bool { match (x, y) { (Res::Ok(p), Res::Ok(q)) => p == q, (Res::Err(p), Res::Err(q)) => p == q, _ => false } };
    if !same(&a, &b) { return Some(format!("two calls of transform_str differ: {} vs {}", a.kind(), b.kind())); }
    if !same(&a, &c) { return Some(format!("transform_str and transform_stream differ: {} vs {}", a.kind(), c.kind())); }
    if let Some(bin) = bin {
        let mut first: Option<(Res, String)> = None;
        for k in 0..3 {
            let r = via_cli(bin, dir, &format!("{tag}-{k}"), doc.as_bytes(), cfg, CliMode::FileToStdout, None, Duration::from_secs(30));
            if let Res::Crash(e) = &r.res { return Some(format!("the command does not end normally: {e}")); }
            let err_text = r.stderr.replace(&format!("{tag}-{k}"), "TAG");
            match &first {
                None => {
                    match (&a, &r.res) {
                        (Res::Ok(p), Res::Ok(q)) if p == q => {}
                        (Res::Err(_), Res::Err(_)) => {}
                        _ => return Some(format!("library gives {} and a fresh process gives {}", a.kind(), r.res.kind())),
                    }
                    first = Some((r.res, err_text));
                }
                Some((r0, e0)) => {
                    let ok = match (r0, &r.res) { (Res::Ok(p), Res::Ok(q)) => p == q, (Res::Err(_), Res::Err(_)) => *e0 == err_text, _ => false };
                    if !ok { return Some(format!("two fresh processes differ: {} / {} (error text: {:?} vs {:?})", r0.kind(), r.res.kind(), e0.lines().next().unwrap_or("").chars().take(200).collect::<String>(), err_text.lines().next().unwrap_or("").chars().take(200).collect::<String>())); }
                }
            }
        }
        // "on another run": the same command writing to a file that an earlier, different run left behind
        // (longer than this result, shorter, or absent) ends with exactly the bytes of this result
        if let Res::Ok(p) = &a {
            let mut longer = p.clone();
            longer.extend_from_slice(b"<!-- the tail of an earlier, longer result -->\n<svg/>\n");
            let shorter: Vec<u8> = p.iter().take(p.len() / 3).cloned().collect();
            for (k, before) in [Some(&longer[..]), Some(&shorter[..]), None].into_iter().enumerate() {
                let r = via_cli(bin, dir, &format!("{tag}-f{k}"), doc.as_bytes(), cfg, CliMode::FileToFile, before, Duration::from_secs(30));
                match &r.res {
                    Res::Ok(q) if q == p => {}
                    other => return Some(format!("writing to an output file that held {} gives {} ({} bytes) where stdout gives {} bytes", match k { 0 => "a longer earlier result", 1 => "a shorter earlier result", _ => "nothing" }, other.kind(), match other { Res::Ok(q) => q.len(), _ => 0 }, p.len())),
                }
            }
        }
    }
    None
}

pub fn replay(rep: &mut Report, v: &serde_json::Value) {
    let mut st = Stream::new("replay", "oracle", "one replay file: repeated in-process and new-process transforms");
    st.case("replay", true, || v.clone());
    let doc = v.get("input").and_then(|s| s.as_str()).unwrap_or("");
    let cfg = FCfg { seed: v.get("seed").and_then(|x| x.as_u64()).unwrap_or(0), ..Default::default() };
    let dir = std::path::PathBuf::from("/verif/.build/tmp");
    let _ = std::fs::create_dir_all(&dir);
    match judge(doc, &cfg, svgdx_bin().as_deref(), &dir, &format!("c06r-{}", std::process::id())) {
        None => st.exact += 1,
        Some(what) => rep.violation(Violation { kind: "oracle", stream: "replay".into(), signature: "C06:replay".into(), what, replay: v.clone(), confirmed_on_impl: true }),
    }
    rep.streams.push(st);
}

pub fn run(rep: &mut Report, tier: &str, seed: u64) -> Result<(), String> {
    let mut rng = Rng::new(seed);
    let thorough = tier == "thorough";
    let (n_in, n_proc, n_rand) = if thorough { (20_000, 1_500, 5_000) } else { (1_200, 60, 400) };
    let dir = std::path::PathBuf::from("/verif/.build/tmp");
    let _ = std::fs::create_dir_all(&dir);
    let bin = svgdx_bin();
    if bin.is_none() { rep.notes.push("repeat/new-process: svgdx binary not built".into()); }

    let mut st = Stream::new("repeat/in-process", "oracle", "generated svgdx documents, style-heavy documents (many d-* classes: the sets behind the injected rules and definitions; several failing elements), random configurations without local styles: transform_str twice and transform_stream once in one process give identical bytes or the identical error");
    let mut r1 = rng.fork();
    for i in 0..n_in {
        let doc = if i % 9 == 8 { local_toggle_doc(&mut r1) } else if i % 2 == 0 { theme_doc(&mut r1) } else { xmlgen::svgdx_doc(&mut r1, true) };
        let cfg = gen_cfg(&mut r1);
        st.case(&doc, true, || json!({"document": doc}));
        match judge(&doc, &cfg, None, &dir, "x") {
            None => st.exact += 1,
            Some(what) => rep.violation(Violation { kind: "oracle", stream: st.name.clone(), signature: "C06:in-process".into(), what, replay: json!({"input": doc, "seed": cfg.seed}), confirmed_on_impl: true }),
        }
    }
    rep.streams.push(st);

    let mut st = Stream::new("repeat/new-process", "oracle", "the same kinds of documents through the svgdx command in three fresh processes (own hash seeds each): stdout bytes, exit status and the error text are identical and equal to the library result");
    for i in 0..n_proc {
        let doc = if i % 5 == 4 { local_toggle_doc(&mut r1) } else if i % 3 != 2 { theme_doc(&mut r1) } else { xmlgen::svgdx_doc(&mut r1, true) };
        let cfg = gen_cfg(&mut r1);
        st.case(&doc, true, || json!({"document": doc}));
        match judge(&doc, &cfg, bin.as_deref(), &dir, &format!("c06-{}-{i}", std::process::id())) {
            None => st.exact += 1,
            Some(what) => rep.violation(Violation { kind: "oracle", stream: st.name.clone(), signature: "C06:new-process".into(), what, replay: json!({"input": doc, "seed": cfg.seed}), confirmed_on_impl: true }),
        }
    }
    rep.streams.push(st);

    // random functions: same seed same bytes; the model (a function) predicts the values
    let mut st = Stream::new("random/seed", "correspondence", "documents using random() / randint() in attributes, loops and variables and inside nested groups that fail on a forward reference and are attempted again (failed attempts draw too), seeds 0-999: the implementation (twice) and the Lean model with its PCG32 source produce the same elements - the random values are a function of the seed; a different seed changes them");
    let mut drv = Driver::start()?;
    let lim = Limits::default();
    for _ in 0..n_rand {
        let doc = random_doc(&mut r1);
        st.case(&doc, true, || json!({"document": doc}));
        let a = run_impl(&doc, lim);
        let b = run_impl(&doc, lim);
        if a.status != b.status || a.events != b.events {
            rep.violation(Violation { kind: "oracle", stream: st.name.clone(), signature: "C06:random-repeat".into(), what: "two transforms with the same seed differ".into(), replay: json!({"input": doc, "seed": 0}), confirmed_on_impl: true });
            continue;
        }
        // an attempt that fails keeps the random numbers it drew (the generator lives in the context);
        // the model hands the generator on only from successful evaluations, so documents in which an
        // attempt fails after drawing are outside its domain: for those only the repetition above is judged
        if doc.contains("#late") { st.exact += 1; st.tally("forward-reference+random: repetition only"); continue; }
        // the model works on the tree below the root
        let inner = doc.trim_start_matches("<svg>").trim_end_matches("</svg>");
        let toks = crate::ctl::element_events(&format!("<w>{inner}</w>")).unwrap_or_default();
        let _ = toks;
        let nodes = parse_flat(inner);
        let ai = run_impl(inner, lim);
        match run_model(&mut drv, &nodes, lim) {
            Ok(m) if !m.outside => match agree(&ai, &m) {
                Ok(()) => st.exact += 1,
                Err(what) => rep.violation(Violation { kind: "correspondence", stream: st.name.clone(), signature: "random:model".into(), what, replay: json!({"input": inner}), confirmed_on_impl: false }),
            },
            Ok(_) => st.skipped += 1,
            Err(e) => return Err(e),
        }
    }
    rep.streams.push(st);
    Ok(())
}

/// the tiny XML subset random_doc produces -> X nodes (elements with attributes, one nesting level, text)
fn parse_flat(s: &str) -> Vec<X> {
    let mut out: Vec<X> = vec![];
    let mut stack: Vec<(String, Vec<(String, String)>, Vec<X>)> = vec![];
    let mut rd = quick_xml::Reader::from_str(s);
    loop {
        match rd.read_event() {
            Ok(quick_xml::events::Event::Start(e)) => {
                let name = String::from_utf8_lossy(e.name().as_ref()).to_string();
                let attrs = e.attributes().filter_map(|a| a.ok()).map(|a| (String::from_utf8_lossy(a.key.as_ref()).to_string(), a.unescape_value().map(|v| v.to_string()).unwrap_or_default())).collect();
                stack.push((name, attrs, vec![]));
            }
            Ok(quick_xml::events::Event::Empty(e)) => {
                let name = String::from_utf8_lossy(e.name().as_ref()).to_string();
                let attrs = e.attributes().filter_map(|a| a.ok()).map(|a| (String::from_utf8_lossy(a.key.as_ref()).to_string(), a.unescape_value().map(|v| v.to_string()).unwrap_or_default())).collect();
                let x = X::El { name, attrs, kids: None };
                match stack.last_mut() { Some(t) => t.2.push(x), None => out.push(x) }
            }
            Ok(quick_xml::events::Event::End(_)) => {
                if let Some((name, attrs, kids)) = stack.pop() {
                    let x = X::El { name, attrs, kids: Some(kids) };
                    match stack.last_mut() { Some(t) => t.2.push(x), None => out.push(x) }
                }
            }
            Ok(quick_xml::events::Event::Text(t)) => {
                let x = X::Text(t.unescape().map(|v| v.to_string()).unwrap_or_default());
                match stack.last_mut() { Some(t) => t.2.push(x), None => out.push(x) }
            }
            Ok(quick_xml::events::Event::Eof) | Err(_) => break,
            _ => {}
        }
    }
    out
}
