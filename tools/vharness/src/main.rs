fn main(){}
