//! vharness: correspondence between /repo (linked in-process with `verif-hooks`) and the Lean
//! model driver, plus per-property oracles used to search for replays (DESIGN.md §4.2, §5).
mod c01;
mod c02;
mod c03;
mod c04;
mod c06;
mod c07;
mod c08;
mod c09;
mod c10;
mod c11;
mod c12;
mod c13;
mod c14;
mod c15;
mod c16;
mod c17;
mod c18;
mod c19;
mod c20;
mod ctl;
mod driver;
mod expat;
mod frontends;
mod xmlgen;
mod geom;
mod report;
mod rng;
mod util;

use report::Report;

fn main() {
    if frontends::child_main() {
        return;
    }
    let args: Vec<String> = std::env::args().collect();
    let mut prop = String::new();
    let mut tier = "quick".to_string();
    let mut seed: u64 = 1;
    let mut out = String::new();
    let mut replay: Option<String> = None;
    let mut i = 1;
    while i < args.len() {
        match args[i].as_str() {
            "--tier" => { tier = args[i + 1].clone(); i += 1; }
            "--seed" => { seed = args[i + 1].parse().unwrap_or(1); i += 1; }
            "--out" => { out = args[i + 1].clone(); i += 1; }
            "--replay" => { replay = Some(args[i + 1].clone()); i += 1; }
            p => prop = p.to_string(),
        }
        i += 1;
    }
    // panics of the implementation are caught per case; keep the default hook quiet
    std::panic::set_hook(Box::new(|_| {}));
    let mut rep = Report::new(&prop, &tier, seed);
    if let Some(path) = &replay {
        let v: serde_json::Value = std::fs::read_to_string(path).ok().and_then(|t| serde_json::from_str(&t).ok()).unwrap_or(serde_json::Value::Null);
        match prop.as_str() {
            "C01" => c01::replay(&mut rep, &v),
            "C02" | "C03" | "C05" => c02::replay(&mut rep, &prop, &v),
            "C04" => c04::replay(&mut rep, &v),
            "C06" => c06::replay(&mut rep, &v),
            "C09" => c09::replay(&mut rep, &v),
            "C10" => c10::replay(&mut rep, &v),
            "C14" => c14::replay(&mut rep, &v),
            "C15" => c15::replay(&mut rep, &v),
            "C16" => c16::replay(&mut rep, &v),
            "C18" => c18::replay(&mut rep, &v),
            _ => rep.notes.push(format!("HARNESS-ERROR: no replay handler for {prop}")),
        }
        let text = serde_json::to_string_pretty(&rep.to_json()).unwrap();
        std::fs::write(&out, text).expect("write report");
        return;
    }
    let r = match prop.as_str() {
        "C01" => c01::run(&mut rep, &tier, seed),
        "C02" => c02::run_c02(&mut rep, &tier, seed),
        "C03" => c03::run(&mut rep, &tier, seed),
        "C04" => c04::run(&mut rep, &tier, seed),
        "C05" => c02::run_c05(&mut rep, &tier, seed),
        "C06" => c06::run(&mut rep, &tier, seed),
        "C07" => c07::run(&mut rep, &tier, seed),
        "C08" => c08::run(&mut rep, &tier, seed),
        "C09" => c09::run(&mut rep, &tier, seed),
        "C10" => c10::run(&mut rep, &tier, seed),
        "C11" => c11::run(&mut rep, &tier, seed),
        "C12" => c12::run(&mut rep, &tier, seed),
        "C13" => c13::run(&mut rep, &tier, seed),
        "C14" => c14::run(&mut rep, &tier, seed),
        "C15" => c15::run(&mut rep, &tier, seed),
        "C16" => c16::run(&mut rep, &tier, seed),
        "C17" => c17::run(&mut rep, &tier, seed),
        "C18" => c18::run(&mut rep, &tier, seed),
        "C19" => c19::run(&mut rep, &tier, seed),
        "C20" => c20::run(&mut rep, &tier, seed),
        other => Err(format!("no harness for property {other}")),
    };
    if let Err(e) = r {
        rep.notes.push(format!("HARNESS-ERROR: {e}"));
    }
    let tol = ctl::OFF_GRID_TOLERATED.load(std::sync::atomic::Ordering::Relaxed);
    if tol > 0 {
        rep.notes.push(format!("off-grid documents on which model and implementation agree up to the rounding of the third decimal (0.0025): {tol}"));
    }
    let text = serde_json::to_string_pretty(&rep.to_json()).unwrap();
    if out.is_empty() {
        println!("{text}");
    } else {
        std::fs::write(&out, text).expect("write report");
    }
}
