//! C20 — auto-styles are self-consistent, minimal and leave author styles alone
//! (plus the theme part of C06: the order of generated rules / definitions).
//!
//! correspondence: `svgdx::verif_hooks::theme_build` vs the Lean model `Svgdx.Theme.build`
//!   (driver op `theme_build`), defs and styles compared string for string, in order.
//! oracle: the property itself on `svgdx::transform_str` output, parsed with quick-xml.
use crate::driver::Driver;
use crate::report::*;
use crate::rng::Rng;
use crate::util::*;
use serde_json::json;
use std::collections::{BTreeMap, BTreeSet};

const THEMES: [&str; 6] = ["default", "bold", "fine", "glass", "light", "dark"];
const COLOUR_PREFIXES: [&str; 4] = ["d-fill-", "d-", "d-text-", "d-text-ol-"];
const TEXT_CLASSES: [&str; 28] = [
    "d-text", "d-text-top", "d-text-bottom", "d-text-left", "d-text-right", "d-text-top-vertical",
    "d-text-bottom-vertical", "d-text-left-vertical", "d-text-right-vertical", "d-text-bold", "d-text-normal",
    "d-text-light", "d-text-italic", "d-text-monospace", "d-text-pre", "d-text-smallest", "d-text-smaller",
    "d-text-small", "d-text-medium", "d-text-large", "d-text-larger", "d-text-largest", "d-text-ol",
    "d-text-ol-thinner", "d-text-ol-thin", "d-text-ol-medium", "d-text-ol-thick", "d-text-ol-thicker",
];
const PLAIN_CLASSES: [&str; 18] = [
    "d-thinner", "d-thin", "d-thick", "d-thicker", "d-surround", "d-arrow", "d-biarrow", "d-flow-slower",
    "d-flow-slow", "d-flow", "d-flow-fast", "d-flow-faster", "d-flow-rev", "d-dash", "d-dot", "d-dot-dash",
    "d-softshadow", "d-hardshadow",
];
const PATTERN_PREFIXES: [&str; 6] = ["d-grid", "d-grid-h", "d-grid-v", "d-hatch", "d-crosshatch", "d-stipple"];
const JUNK_SUFFIXES: [&str; 22] = [
    "-", "-+5", "-+", "-05", "-005", "-5x", "--5", "-1e1", "- 5", "-\u{ff15}", "-4294967295", "-4294967296",
    "-00000000000000000000100", "-100.0", "-h", "-v", "-h-", "-0x10", "-+100", "-+101", "-99999999999999999999", "-5-5",
];
const JUNK_CLASSES: [&str; 14] = [
    "d-", "d-foo", "d-fill-", "d-fill-notacolour", "fill-red", "D-FILL-RED", "d-fill-Red", "d-softshadow2", "",
    "d-text-ol-", "d-text-", "mine", "d-flow-", "d-grid-h-v",
];
/// SVG 1.1 colour keywords + `none` (fallback when /repo/src/colours.rs cannot be read)
const SVG_COLOURS: &str = "aliceblue antiquewhite aqua aquamarine azure beige bisque black blanchedalmond blue blueviolet brown burlywood cadetblue chartreuse chocolate coral cornflowerblue cornsilk crimson cyan darkblue darkcyan darkgoldenrod darkgray darkgreen darkgrey darkkhaki darkmagenta darkolivegreen darkorange darkorchid darkred darksalmon darkseagreen darkslateblue darkslategray darkslategrey darkturquoise darkviolet deeppink deepskyblue dimgray dimgrey dodgerblue firebrick floralwhite forestgreen fuchsia gainsboro ghostwhite gold goldenrod gray grey green greenyellow honeydew hotpink indianred indigo ivory khaki lavender lavenderblush lawngreen lemonchiffon lightblue lightcoral lightcyan lightgoldenrodyellow lightgray lightgreen lightgrey lightpink lightsalmon lightseagreen lightskyblue lightslategray lightslategrey lightsteelblue lightyellow lime limegreen linen magenta maroon mediumaquamarine mediumblue mediumorchid mediumpurple mediumseagreen mediumslateblue mediumspringgreen mediumturquoise mediumvioletred midnightblue mintcream mistyrose moccasin navajowhite navy oldlace olive olivedrab orange orangered orchid palegoldenrod palegreen paleturquoise palevioletred papayawhip peachpuff peru pink plum powderblue purple red rosybrown royalblue saddlebrown salmon sandybrown seagreen seashell sienna silver skyblue slateblue slategray slategrey snow springgreen steelblue tan teal thistle tomato turquoise violet wheat white whitesmoke yellow yellowgreen none";

/// the colour vocabulary of the CURRENT source (so the sweep stays exhaustive when a colour is added)
fn colours() -> (Vec<String>, &'static str) {
    let repo = std::env::var("VERIF_REPO").unwrap_or_else(|_| "/repo".into());
    if let Ok(text) = std::fs::read_to_string(format!("{repo}/src/colours.rs")) {
        if let (Some(a), Some(b)) = (text.find("COLOUR_LIST"), text.find("DARK_COLOURS")) {
            if a < b {
                let mut v = vec![];
                let mut rest = &text[a..b];
                while let Some(i) = rest.find('"') {
                    let r = &rest[i + 1..];
                    if let Some(j) = r.find('"') {
                        v.push(r[..j].to_string());
                        rest = &r[j + 1..];
                    } else {
                        break;
                    }
                }
                if v.len() >= 100 {
                    return (v, "src/colours.rs");
                }
            }
        }
    }
    (SVG_COLOURS.split(' ').map(|s| s.to_string()).collect(), "built-in SVG 1.1 list")
}

#[derive(Clone, Debug)]
struct Cfg {
    theme: &'static str,
    background: String,
    font_size: &'static str, // decimal text, exactly representable in f32
    font_family: String,
    local_id: Option<String>,
}

const FONT_SIZES: [&str; 10] = ["3", "4", "6", "12", "4.5", "10", "1.5", "16", "2.25", "7.5"];
const BACKGROUNDS: [&str; 6] = ["default", "none", "#fff", "red", "rgba(1, 2, 3, 0.5)", "url(#author-bg)"];
const FAMILIES: [&str; 4] = ["sans-serif", "monospace", "Ubuntu Mono, monospace", "'Noto Sans', serif"];

fn gen_cfg(rng: &mut Rng, theme: &'static str) -> Cfg {
    Cfg {
        theme,
        background: if rng.chance(1, 2) { "default".into() } else { rng.pick(&BACKGROUNDS).to_string() },
        font_size: if rng.chance(1, 2) { "3" } else { *rng.pick(&FONT_SIZES) },
        font_family: if rng.chance(1, 2) { "sans-serif".into() } else { rng.pick(&FAMILIES).to_string() },
        local_id: if rng.chance(1, 4) { Some(format!("svgdx-{:08x}", rng.next() as u32)) } else { None },
    }
}

type Built = (Vec<String>, Vec<String>);

fn run_impl(cfg: &Cfg, classes: &[String], elements: &[String]) -> Result<Result<Built, String>, String> {
    let (c, cl, el) = (cfg.clone(), classes.to_vec(), elements.to_vec());
    let fs: f32 = cfg.font_size.parse().map_err(|_| "font size".to_string())?;
    std::panic::catch_unwind(move || {
        svgdx::verif_hooks::theme_build(c.theme, &cl, &el, &c.background, fs, &c.font_family, c.local_id.as_deref())
    })
    .map_err(|_| "panic in theme_build".to_string())
}

fn run_model(drv: &mut Driver, op: &str, cfg: &Cfg, classes: &[String], elements: &[String]) -> Result<Result<Built, String>, String> {
    let n = classes.len().to_string();
    let m = elements.len().to_string();
    let mut args: Vec<&str> = vec![cfg.theme, &cfg.background, cfg.font_size, &cfg.font_family, cfg.local_id.as_deref().unwrap_or("-"), &n];
    args.extend(classes.iter().map(|s| s.as_str()));
    args.push(&m);
    args.extend(elements.iter().map(|s| s.as_str()));
    let r = drv.call(op, &args)?;
    if r.first().map(|s| s.as_str()) != Some("ok") {
        return Ok(Err(r.join(" ")));
    }
    let nd: usize = r.get(1).and_then(|s| s.parse().ok()).ok_or("model: bad defs count")?;
    if r.len() < 2 + nd {
        return Err("model: short response".into());
    }
    Ok(Ok((r[2..2 + nd].to_vec(), r[2 + nd..].to_vec())))
}

fn family(class: &str, cols: &[String]) -> &'static str {
    if TEXT_CLASSES.contains(&class) { return "text"; }
    if PLAIN_CLASSES.contains(&class) {
        return if class.contains("shadow") { "shadow" } else if class.contains("arrow") { "arrow" } else if class.starts_with("d-th") { "stroke-width" } else if class == "d-surround" { "surround" } else { "dash-flow" };
    }
    for p in ["d-text-ol-", "d-text-", "d-fill-", "d-"] {
        if let Some(c) = class.strip_prefix(p) {
            if cols.iter().any(|x| x == c) {
                return match p { "d-text-ol-" => "colour-text-ol", "d-text-" => "colour-text", "d-fill-" => "colour-fill", _ => "colour-stroke" };
            }
        }
    }
    for p in PATTERN_PREFIXES.iter().rev() {
        if class == *p || class.starts_with(&format!("{p}-")) { return "pattern"; }
    }
    "junk"
}

fn first_diff(a: &Built, b: &Built) -> String {
    for (what, x, y) in [("defs", &a.0, &b.0), ("styles", &a.1, &b.1)] {
        if x != y {
            let i = x.iter().zip(y.iter()).position(|(p, q)| p != q).unwrap_or(x.len().min(y.len()));
            return format!("{what}[{i}] (lengths {} vs {}): impl {:?} vs model {:?}", x.len(), y.len(), x.get(i), y.get(i));
        }
    }
    "equal".into()
}

fn compare(rep: &mut Report, st: &mut Stream, drv: &mut Driver, cfg: &Cfg, classes: &[String], elements: &[String], sig: &str) -> Result<(), String> {
    let replay = json!({"theme": cfg.theme, "background": cfg.background, "font_size": cfg.font_size, "font_family": cfg.font_family,
        "local_id": cfg.local_id, "classes": classes, "elements": elements});
    let imp = run_impl(cfg, classes, elements);
    let mdl = run_model(drv, "theme_build", cfg, classes, elements)?;
    match (imp, mdl) {
        (Err(p), _) => rep.violation(Violation { kind: "oracle", stream: st.name.clone(), signature: "C20:panic".into(), what: p, replay, confirmed_on_impl: true }),
        (Ok(Err(e)), Err(_)) => { let _ = e; st.errors_agreed += 1; }
        (Ok(Ok(i)), Ok(m)) if i == m => st.exact += 1,
        (Ok(i), m) => {
            let what = match (&i, &m) { (Ok(i), Ok(m)) => first_diff(i, m), _ => format!("impl {:?} vs model {:?}", i.as_ref().map(|_| "ok"), m.as_ref().map(|_| "ok")) };
            rep.violation(Violation { kind: "correspondence", stream: st.name.clone(), signature: format!("theme:{sig}"), what, replay, confirmed_on_impl: false });
        }
    }
    Ok(())
}

fn vocabulary(cols: &[String]) -> Vec<String> {
    let mut v: Vec<String> = vec![];
    for c in cols {
        for p in COLOUR_PREFIXES { v.push(format!("{p}{c}")); }
    }
    v.extend(TEXT_CLASSES.iter().map(|s| s.to_string()));
    v.extend(PLAIN_CLASSES.iter().map(|s| s.to_string()));
    for p in PATTERN_PREFIXES {
        v.push(p.to_string());
        for n in 0..=101 { v.push(format!("{p}-{n}")); }
        for j in JUNK_SUFFIXES { v.push(format!("{p}{j}")); }
    }
    v.extend(JUNK_CLASSES.iter().map(|s| s.to_string()));
    v
}

/// every class of the vocabulary on its own × 6 themes × {with, without a text element}
fn sweep_single(rep: &mut Report, drv: &mut Driver, rng: &mut Rng) -> Result<(), String> {
    let (cols, src) = colours();
    let mut st = Stream::new(
        "theme/single-class",
        "correspondence",
        &format!("exhaustive: every colour ({} from {src}) x 4 prefixes, all text / stroke / surround / arrow / dash / flow / shadow classes, every pattern prefix bare and with suffix 0..101 and 22 junk suffixes, 14 junk classes; each alone x 6 themes x element sets {{text,rect}} and {{rect}}; background / font size / font family / local id drawn per case; hook theme_build vs model build, defs and styles string for string in order; non-trivial = every case", cols.len()),
    );
    let vocab = vocabulary(&cols);
    for class in &vocab {
        let fam = family(class, &cols);
        for theme in THEMES {
            for with_text in [true, false] {
                let cfg = gen_cfg(rng, theme);
                let classes = vec![class.clone()];
                let elements: Vec<String> = if with_text { vec!["text".into(), "rect".into()] } else { vec!["rect".into()] };
                let key = format!("{class}|{theme}|{with_text}");
                st.case(&key, true, || json!({"class": class, "theme": theme, "text_element": with_text}));
                st.tally(&format!("family={fam}"));
                st.tally(&format!("theme={theme}"));
                if cfg.local_id.is_some() { st.tally("local-id"); }
                if cfg.background != "default" { st.tally("background-set"); }
                st.tally(&format!("font-size={}", cfg.font_size));
                compare(rep, &mut st, drv, &cfg, &classes, &elements, fam)?;
            }
        }
    }
    rep.streams.push(st);
    Ok(())
}

fn gen_class(rng: &mut Rng, cols: &[String]) -> String {
    match rng.below(12) {
        0..=3 => format!("{}{}", rng.pick(&COLOUR_PREFIXES), rng.pick(cols)),
        4 | 5 => rng.pick(&TEXT_CLASSES).to_string(),
        6 | 7 => rng.pick(&PLAIN_CLASSES).to_string(),
        8 | 9 => {
            let p = rng.pick(&PATTERN_PREFIXES);
            match rng.below(8) {
                0 => p.to_string(),
                1 => format!("{p}{}", rng.pick(&JUNK_SUFFIXES)),
                2 => format!("{p}-{}", rng.range(95, 105)),
                _ => format!("{p}-{}", rng.range(0, 100)),
            }
        }
        10 => rng.pick(&JUNK_CLASSES).to_string(),
        _ => format!("{}{}", rng.pick(&COLOUR_PREFIXES), rng.pick(&["dark", "light", "medium", "thin", "bold", "top"])),
    }
}

fn gen_set(rng: &mut Rng, cols: &[String], max: usize) -> Vec<String> {
    let n = rng.below(max + 1);
    let mut s = BTreeSet::new();
    for _ in 0..n { s.insert(gen_class(rng, cols)); }
    let mut v: Vec<String> = s.into_iter().collect();
    // the model must not depend on the order of the list it is given
    for i in (1..v.len()).rev() { let j = rng.below(i + 1); v.swap(i, j); }
    v
}

fn random_subsets(rep: &mut Report, drv: &mut Driver, rng: &mut Rng, n: usize) -> Result<(), String> {
    let (cols, _) = colours();
    let mut st = Stream::new(
        "theme/subsets",
        "correspondence",
        "random class sets of 0..14 classes over the whole vocabulary (colour x prefix, text, stroke, arrow, dash/flow, shadow, valid / boundary / junk pattern classes incl. several per pattern prefix, junk and near-miss names), shuffled; element sets with/without text; 6 themes; background / font / local id varied; hook theme_build vs model build (sorted pattern order), defs and styles string for string in order; non-trivial = at least two reserved classes of different families",
    );
    const ELS: [&str; 7] = ["text", "rect", "line", "circle", "g", "tspan", "polyline"];
    for _ in 0..n {
        let theme = *rng.pick(&THEMES);
        let cfg = gen_cfg(rng, theme);
        let classes = gen_set(rng, &cols, 14);
        let mut elements: Vec<String> = ELS.iter().filter(|_| rng.chance(1, 2)).map(|s| s.to_string()).collect();
        if rng.chance(1, 2) && !elements.iter().any(|e| e == "text") { elements.push("text".into()); }
        let fams: BTreeSet<&str> = classes.iter().map(|c| family(c, &cols)).filter(|f| *f != "junk").collect();
        let npat = classes.iter().filter(|c| family(c, &cols) == "pattern").count();
        let key = format!("{:?}|{:?}|{:?}", cfg, classes, elements);
        st.case(&key, fams.len() >= 2, || json!({"theme": theme, "classes": classes, "elements": elements}));
        st.tally(&format!("classes={}", classes.len().min(15)));
        st.tally(&format!("families={}", fams.len()));
        st.tally(&format!("pattern-classes={}", npat.min(5)));
        st.tally(&format!("theme={theme}"));
        if elements.iter().any(|e| e == "text") { st.tally("text-element"); }
        if cfg.local_id.is_some() { st.tally("local-id"); }
        compare(rep, &mut st, drv, &cfg, &classes, &elements, "subset")?;
    }
    rep.streams.push(st);
    Ok(())
}

fn sorted(v: &[String]) -> Vec<String> { let mut v = v.to_vec(); v.sort(); v }

/// several pattern classes per prefix: defs/styles as multisets against the model, and as
/// sequences between repeated calls (each call builds fresh HashSets, hence fresh hash keys)
fn pattern_order(rep: &mut Report, drv: &mut Driver, rng: &mut Rng, n: usize) -> Result<(), String> {
    let mut corr = Stream::new(
        "theme/pattern-multiset",
        "correspondence",
        "class sets with 2..8 pattern classes (several per pattern prefix, valid suffixes, mixed with other classes); hook vs model build compared as multisets of defs and of styles; non-trivial = every case",
    );
    let mut orc = Stream::new(
        "oracle/theme-pattern-order",
        "oracle",
        "same class sets; the hook is called 4 times (fresh HashSets = fresh hash keys each time) with the list in different orders: defs and styles must be identical sequences; non-trivial = every case",
    );
    let (cols, _) = colours();
    for _ in 0..n {
        let theme = *rng.pick(&THEMES);
        let cfg = gen_cfg(rng, theme);
        let mut set = BTreeSet::new();
        let np = 2 + rng.below(7);
        let p0 = *rng.pick(&PATTERN_PREFIXES);
        for i in 0..np {
            let p = if i < 2 || rng.chance(1, 2) { p0 } else { *rng.pick(&PATTERN_PREFIXES) };
            set.insert(match rng.below(6) { 0 => format!("{p}-+{}", rng.range(0, 100)), 1 => format!("{p}-0{}", rng.range(0, 100)), _ => format!("{p}-{}", rng.range(0, 100)) });
        }
        for _ in 0..rng.below(4) { set.insert(gen_class(rng, &cols)); }
        let mut classes: Vec<String> = set.into_iter().collect();
        let elements: Vec<String> = vec!["rect".into(), "text".into()];
        let key = format!("{:?}|{:?}", cfg, classes);
        corr.case(&key, true, || json!({"theme": theme, "classes": classes}));
        orc.case(&key, true, || json!({"theme": theme, "classes": classes}));
        corr.tally(&format!("pattern-classes={}", classes.iter().filter(|c| family(c, &cols) == "pattern").count()));
        let replay = json!({"theme": cfg.theme, "background": cfg.background, "font_size": cfg.font_size, "font_family": cfg.font_family, "local_id": cfg.local_id, "classes": classes, "elements": elements});
        let mut runs: Vec<Built> = vec![];
        for _ in 0..4 {
            match run_impl(&cfg, &classes, &elements) {
                Ok(Ok(b)) => runs.push(b),
                Ok(Err(e)) => return Err(format!("theme_build failed: {e}")),
                Err(p) => { rep.violation(Violation { kind: "oracle", stream: orc.name.clone(), signature: "C20:panic".into(), what: p, replay: replay.clone(), confirmed_on_impl: true }); break; }
            }
            for i in (1..classes.len()).rev() { let j = rng.below(i + 1); classes.swap(i, j); }
        }
        if runs.len() < 4 { continue; }
        if let Some(k) = (1..4).find(|&k| runs[k] != runs[0]) {
            rep.violation(Violation { kind: "oracle", stream: orc.name.clone(), signature: "C06:theme-pattern-order".into(),
                what: format!("two calls of the theme builder on the same class set give different orders: {}", first_diff(&runs[0], &runs[k])), replay: replay.clone(), confirmed_on_impl: true });
        } else {
            orc.exact += 1;
        }
        match run_model(drv, "theme_build", &cfg, &classes, &elements)? {
            Ok(m) if sorted(&m.0) == sorted(&runs[0].0) && sorted(&m.1) == sorted(&runs[0].1) => corr.exact += 1,
            Ok(m) => rep.violation(Violation { kind: "correspondence", stream: corr.name.clone(), signature: "theme:pattern-multiset".into(),
                what: first_diff(&(sorted(&runs[0].0), sorted(&runs[0].1)), &(sorted(&m.0), sorted(&m.1))), replay, confirmed_on_impl: false }),
            Err(e) => rep.violation(Violation { kind: "correspondence", stream: corr.name.clone(), signature: "theme:model-error".into(), what: e, replay, confirmed_on_impl: false }),
        }
    }
    rep.streams.push(corr);
    rep.streams.push(orc);
    Ok(())
}

// ---------------------------------------------------------------------------------------------
// document oracle

/// the class a CSS rule is for, read off its selector: `.K`, `text.K`, `line.K`
fn key_of(rule: &str) -> Option<String> {
    let rest = rule.strip_prefix('.').or_else(|| rule.strip_prefix("text.")).or_else(|| rule.strip_prefix("line."))?;
    Some(rest.chars().take_while(|c| !matches!(c, ' ' | ',' | '{')).collect())
}

fn url_refs(s: &str) -> Vec<String> {
    let mut v = vec![];
    let mut rest = s;
    while let Some(i) = rest.find("url(#") {
        let r = &rest[i + 5..];
        let j = r.find(')').unwrap_or(r.len());
        v.push(r[..j].to_string());
        rest = &r[j..];
    }
    v
}

fn parse_u32_le100(s: &str) -> bool {
    let d = s.strip_prefix('+').unwrap_or(s);
    !d.is_empty() && d.bytes().all(|b| b.is_ascii_digit()) && d.trim_start_matches('0').len() <= 3 && d.parse::<u64>().map(|n| n <= 100).unwrap_or(false)
}

/// written from the documentation of the class vocabulary, not from themes.rs:
/// does class `k` have an auto-style rule, and is the rule only for text elements?
fn in_vocabulary(k: &str, cols: &[String]) -> Option<bool /* text-family (needs a text element) */> {
    if TEXT_CLASSES.contains(&k) { return Some(true); }
    if PLAIN_CLASSES.contains(&k) { return Some(false); }
    for p in COLOUR_PREFIXES {
        if let Some(c) = k.strip_prefix(p) {
            if cols.iter().any(|x| x == c) { return Some(false); }
        }
    }
    for p in PATTERN_PREFIXES {
        if k == p { return Some(false); }
        if let Some(sfx) = k.strip_prefix(&format!("{p}-")) {
            if parse_u32_le100(sfx) { return Some(false); }
        }
    }
    None
}

struct Doc {
    text: String,
    has_root: bool,
    author_style: Vec<String>,  // character data of each author <style>
    author_defs_ids: Vec<String>, // ids of the children of author <defs>
    root_classes: Vec<String>,
}

fn gen_doc(rng: &mut Rng, cols: &[String], root_class: bool) -> Doc {
    let has_root = root_class || !rng.chance(1, 6);
    let mut body: Vec<String> = vec![];
    let mut author_style = vec![];
    let mut author_defs_ids = vec![];
    if rng.chance(1, 3) {
        let css = format!(".mine {{ fill: {}; }} rect.other {{ stroke: url(#ag0); }}", rng.pick(&["red", "#123", "none"]));
        author_style.push(css.clone());
        body.push(format!("<style>{css}</style>"));
    }
    if rng.chance(1, 3) {
        let k = author_defs_ids.len();
        let id = format!("ag{k}");
        body.push(format!("<defs><linearGradient id=\"{id}\"><stop offset=\"0\" stop-color=\"red\"/><stop offset=\"1\" stop-color=\"blue\"/></linearGradient></defs>"));
        author_defs_ids.push(id);
    }
    let n = 1 + rng.below(6);
    for i in 0..n {
        let mut classes: Vec<String> = vec![];
        for _ in 0..rng.below(4) {
            let c = gen_class(rng, cols);
            if !c.is_empty() && !c.contains(' ') { classes.push(c); }
        }
        if rng.chance(1, 5) { classes.push("mine".into()); }
        // class names are separated by white space of any kind: blanks, a tab, a line break (written
        // literally or as a character reference)
        let csep = *rng.pick(&[" ", " ", " ", "  ", "\t", "\n      ", "&#9;", "&#10;", " \t "]);
        let cls = if classes.is_empty() { String::new() } else { format!(" class=\"{}\"", classes.join(csep)) };
        let y = 15 * i;
        let txt = if rng.chance(1, 3) { format!(" text=\"t{i}\"") } else { String::new() };
        body.push(match rng.below(10) {
            // a <text> written by hand with <tspan> children: svgdx does not lay it out (no d-text class is
            // added), but it is a text element like any other and may use the text classes
            9 => format!("<text x=\"3\" y=\"{y}\"{cls}><tspan{}>a{i}</tspan><tspan dy=\"1em\">b</tspan></text>", if rng.chance(1, 2) { format!(" class=\"{}\"", rng.pick(&["d-text-bold", "d-text-italic", "d-text-large", "d-text-ol", "d-text-monospace"])) } else { String::new() }),
            0 | 1 => format!("<rect xy=\"0 {y}\" wh=\"20 10\"{cls}{txt}/>"),
            2 => format!("<circle cxy=\"5 {y}\" r=\"4\"{cls}{txt}/>"),
            3 => format!("<ellipse cxy=\"8 {y}\" rxy=\"6 3\"{cls}{txt}/>"),
            4 => format!("<line xy1=\"0 {y}\" xy2=\"20 {}\"{cls}{txt}/>", y + 5),
            5 => format!("<polyline points=\"0 {y} 10 {} 20 {y}\"{cls}/>", y + 5),
            6 => format!("<text xy=\"3 {y}\"{cls}>label {i}</text>"),
            7 => format!("<path d=\"M0 {y} L10 {}\"{cls}/>", y + 4),
            _ => format!("<g{cls}><rect xy=\"30 {y}\" wh=\"5 5\"/></g>"),
        });
    }
    if rng.chance(1, 5) {
        // author content after the elements as well
        let css = "text.mine { font-weight: bold; }".to_string();
        author_style.push(css.clone());
        body.push(format!("<style>{css}</style>"));
    }
    let mut root_classes = vec![];
    if root_class {
        root_classes.push(rng.pick(&["d-fill-red", "d-softshadow", "d-grid-5", "d-thick", "d-arrow"]).to_string());
    }
    let text = if has_root {
        let rc = if root_classes.is_empty() { String::new() } else { format!(" class=\"{}\"", root_classes.join(" ")) };
        format!("<svg{rc}>\n  {}\n</svg>", body.join("\n  "))
    } else if body.len() == 1 || rng.chance(1, 2) {
        body.join("\n")
    } else {
        format!("<g>\n  {}\n</g>", body.join("\n  "))
    };
    Doc { text, has_root, author_style, author_defs_ids, root_classes }
}

fn classes_of(e: &El) -> Vec<String> {
    e.get("class").map(|c| c.split_whitespace().map(|s| s.to_string()).collect()).unwrap_or_default()
}

/// the property on the implementation's output; None = holds.  `(signature, what)`
fn doc_oracle(doc: &Doc, out: &str, auto: bool, cols: &[String], st: &mut Stream) -> Option<(String, String)> {
    let els = match parse_elements(out) { Ok(e) => e, Err(e) => return Some(("C20:unparseable".into(), e)) };
    // injected blocks: children of the root <svg> whose content is the generated one
    let is_injected_style = |o: &OutEl| o.el.name == "style" && o.depth == 1 && o.text.contains("stroke-linecap: round; stroke-linejoin: round;");
    let inj_style: Vec<&OutEl> = els.iter().filter(|o| is_injected_style(o)).collect();
    // author content kept: every author <style> text and every author <defs> child still there, once
    let style_texts: Vec<&str> = els.iter().filter(|o| o.el.name == "style" && !is_injected_style(o)).map(|o| o.text.as_str()).collect();
    let mut want: Vec<&str> = doc.author_style.iter().map(|s| s.as_str()).collect();
    let mut got = style_texts.clone();
    want.sort();
    got.sort();
    if want != got {
        return Some(("C20:author-style".into(), format!("author <style> contents {:?} became {:?}", want, got)));
    }
    for id in &doc.author_defs_ids {
        let hits: Vec<&OutEl> = els.iter().filter(|o| o.el.get("id") == Some(id.as_str())).collect();
        if hits.len() != 1 || hits[0].el.name != "linearGradient" || hits[0].path.last().map(|s| s.as_str()) != Some("defs") {
            return Some(("C20:author-defs".into(), format!("author definition #{id} not kept intact ({} hits)", hits.len())));
        }
        let stops = els.iter().filter(|o| o.el.name == "stop" && o.path.len() == hits[0].path.len() + 1).count();
        if stops < 2 { return Some(("C20:author-defs".into(), format!("children of author definition #{id} lost"))); }
    }
    let author_defs = doc.author_defs_ids.len();
    let all_defs: Vec<usize> = els.iter().enumerate().filter(|(_, o)| o.el.name == "defs").map(|(i, _)| i).collect();
    // nothing injected when disabled / no root
    if !auto || !doc.has_root {
        if !inj_style.is_empty() || all_defs.len() != author_defs || out.contains("<![CDATA[") {
            return Some(("C20:injected-when-off".into(), format!("auto-styles {} / root svg {}: output has an injected <style>/<defs> ({} style, {} defs)", auto, doc.has_root, inj_style.len(), all_defs.len())));
        }
        st.tally("nothing-injected-ok");
        return None;
    }
    if inj_style.len() != 1 {
        return Some(("C20:style-count".into(), format!("{} injected <style> elements", inj_style.len())));
    }
    if all_defs.len() > author_defs + 1 {
        return Some(("C20:defs-count".into(), format!("{} <defs> elements for {} author ones", all_defs.len(), author_defs)));
    }
    // the injected <defs>: the first one, if there is one more than the author's
    let inj_defs_idx = if all_defs.len() == author_defs + 1 { Some(all_defs[0]) } else { None };
    let inj_def_children: Vec<&OutEl> = match inj_defs_idx {
        Some(i) => els.iter().skip(i + 1).take_while(|o| o.depth > els[i].depth).filter(|o| o.depth == els[i].depth + 1).collect(),
        None => vec![],
    };
    let in_injected_defs = |idx: usize| inj_defs_idx.is_some_and(|i| idx > i && els[i + 1..=idx].iter().all(|o| o.depth > els[i].depth));
    // the root keeps the classes the author gave it
    if let Some(root) = els.first() {
        let rc = classes_of(&root.el);
        for c in &doc.root_classes {
            if !rc.contains(c) {
                return Some(("C20:root-svg-class".into(), format!("class {c} of the root <svg> is missing from the output root")));
            }
        }
    }
    // used classes: every output element outside the injected defs, the root included
    let mut used: BTreeSet<String> = BTreeSet::new();
    let mut has_text = false;
    for (i, o) in els.iter().enumerate() {
        if in_injected_defs(i) { continue; }
        if o.depth > 0 && o.el.name == "text" { has_text = true; }
        for c in classes_of(&o.el) { used.insert(c); }
    }
    // rules
    let rules: Vec<&str> = inj_style[0].text.lines().map(|l| l.trim()).filter(|l| !l.is_empty()).collect();
    let mut rule_keys: BTreeMap<String, usize> = BTreeMap::new();
    for r in &rules {
        if let Some(k) = key_of(r) {
            *rule_keys.entry(k.clone()).or_insert(0) += 1;
            if !used.contains(&k) {
                return Some(("C20:rule-for-unused-class".into(), format!("rule `{r}` but no output element has class {k}")));
            }
        }
    }
    for k in &used {
        if let Some(text_family) = in_vocabulary(k, cols) {
            let expected = !text_family || has_text;
            if expected && !rule_keys.contains_key(k) {
                let sig = if doc.root_classes.contains(k) { "C20:root-svg-class" } else { "C20:missing-rule" };
                return Some((sig.into(), format!("class {k} is used by an output element but the injected <style> has no rule for it")));
            }
            if text_family && !has_text && rule_keys.contains_key(k) {
                return Some(("C20:text-rule-without-text".into(), format!("text rule for {k} although there is no <text> element")));
            }
            st.tally(if expected { "used-class-has-rule" } else { "text-class-without-text-element" });
        } else if k.starts_with("d-") && rule_keys.contains_key(k) {
            return Some(("C20:rule-outside-vocabulary".into(), format!("rule for {k}, which is not a reserved class")));
        }
    }
    // definitions: one per id, each needed by a used class
    let mut ids: BTreeMap<String, usize> = BTreeMap::new();
    for c in &inj_def_children {
        let id = c.el.get("id").unwrap_or("").to_string();
        *ids.entry(id.clone()).or_insert(0) += 1;
        let needed = match c.el.name.as_str() {
            "marker" => id == "d-arrow" && (used.contains("d-arrow") || used.contains("d-biarrow")),
            "pattern" => used.contains(&format!("d-{id}")),
            "filter" => used.contains(&id),
            _ => false,
        };
        if !needed {
            return Some(("C20:def-for-unused-class".into(), format!("definition <{} id=\"{id}\"> but no output element uses its class", c.el.name)));
        }
    }
    // url closure over the injected rules (those for a reserved class) and the injected definitions
    let mut refs: Vec<String> = vec![];
    for r in &rules {
        if key_of(r).is_some() { refs.extend(url_refs(r)); }
    }
    if let Some(i) = inj_defs_idx {
        for (j, o) in els.iter().enumerate() {
            if in_injected_defs(j) || j == i {
                for (_, v) in &o.el.attrs { refs.extend(url_refs(v)); }
            }
        }
    }
    for id in &refs {
        let n = ids.get(id).copied().unwrap_or(0);
        if n != 1 {
            return Some(("C20:url-closure".into(), format!("url(#{id}) is referenced by an injected rule / definition but defined {n} times among the injected definitions")));
        }
        // and not shadowed by anything else in the document
        let all = els.iter().filter(|o| o.el.get("id") == Some(id.as_str())).count();
        if all != 1 {
            return Some(("C20:url-closure".into(), format!("id {id} occurs {all} times in the output")));
        }
        st.tally("url-ref-defined-once");
    }
    None
}

fn doc_stream(rep: &mut Report, rng: &mut Rng, n: usize, root_class: bool) -> Result<(), String> {
    let (cols, _) = colours();
    let mut st = if root_class {
        Stream::new("oracle/doc-root-class", "oracle",
            "documents whose ROOT <svg> carries a reserved class (the first six: a class used ONLY on the root): same checks as oracle/doc-autostyles — the root is an output element, so its class must be kept and must get its rule / definition; non-trivial = every case")
    } else {
        Stream::new("oracle/doc-autostyles", "oracle",
            "generated documents (1..6 rect/circle/ellipse/line/polyline/text/path/g elements, 0..3 vocabulary / near-miss / junk classes each, text attributes, author <style> and <defs> before and after, 1 in 6 without a root <svg>) through transform_str with add_auto_styles on/off, 6 themes, backgrounds, fonts, local styles; output parsed with quick-xml: rule for class K (selector .K / text.K / line.K) present iff K is used by an output element (text family: iff also a <text> exists), no rule outside the vocabulary, each injected definition needed by a used class, every url(#id) of an injected rule/definition defined exactly once, author style/defs kept, nothing injected when off or without root; non-trivial = a root, auto-styles on and at least one reserved class")
    };
    for i in 0..n {
        let mut doc = gen_doc(rng, &cols, root_class);
        if root_class && i < 6 {
            // a reserved class used ONLY on the root <svg>
            let c = ["d-softshadow", "d-fill-red", "d-grid-5", "d-arrow", "d-thick", "d-text-bold"][i];
            let body = if c == "d-text-bold" { "<text xy=\"1 1\">t</text>" } else { "<rect wh=\"20 10\"/>" };
            doc = Doc { text: format!("<svg class=\"{c}\">\n  {body}\n</svg>"), has_root: true, author_style: vec![], author_defs_ids: vec![], root_classes: vec![c.to_string()] };
            st.tally("class-only-on-root");
        }
        let mut cfg = default_cfg();
        let auto = root_class || !rng.chance(1, 5);
        cfg.add_auto_styles = auto;
        let theme = *rng.pick(&THEMES);
        cfg.theme = theme.parse().map_err(|_| "theme name".to_string())?;
        if rng.chance(1, 3) { cfg.background = rng.pick(&["none", "#fff", "red"]).to_string(); }
        if rng.chance(1, 3) { cfg.font_size = *rng.pick(&[3.0f32, 4.0, 6.0, 12.0]); }
        if rng.chance(1, 4) { cfg.font_family = "monospace".into(); }
        if rng.chance(1, 5) { cfg.use_local_styles = true; }
        let reserved = doc.text.matches("d-").count();
        st.case(&doc.text, doc.has_root && auto && reserved > 0, || json!({"document": doc.text, "theme": theme, "add_auto_styles": auto}));
        st.tally(if doc.has_root { "root-svg" } else { "fragment" });
        st.tally(if auto { "auto-styles-on" } else { "auto-styles-off" });
        st.tally(&format!("theme={theme}"));
        if !doc.author_style.is_empty() { st.tally("author-style"); }
        if !doc.author_defs_ids.is_empty() { st.tally("author-defs"); }
        if cfg.use_local_styles { st.tally("local-styles"); }
        let replay = json!({"input": doc.text, "theme": theme, "add_auto_styles": auto, "background": cfg.background, "font_size": cfg.font_size, "use_local_styles": cfg.use_local_styles});
        match transform(&doc.text, &cfg) {
            Err(p) => rep.violation(Violation { kind: "oracle", stream: st.name.clone(), signature: "C20:panic".into(), what: format!("panic: {p}"), replay, confirmed_on_impl: true }),
            Ok(Err(_)) => { st.skipped += 1; st.tally("transform-error"); }
            Ok(Ok(out)) => match doc_oracle(&doc, &out, auto, &cols, &mut st) {
                None => st.exact += 1,
                Some((sig, what)) => rep.violation(Violation { kind: "oracle", stream: st.name.clone(), signature: sig, what, replay, confirmed_on_impl: true }),
            },
        }
    }
    rep.streams.push(st);
    Ok(())
}


/// the injected block as a whole: what `write_auto_styles` writes after the root start tag (isolated as the
/// difference between the outputs with auto-styles on and off) against the Lean model Svgdx.Theme.Inject fed
/// with the rules / definitions the code's own builder returns for the document's element and class sets
fn inject_stream(rep: &mut Report, drv: &mut Driver, rng: &mut Rng, n: usize) -> Result<(), String> {
    let (cols, _) = colours();
    let mut st = Stream::new("doc/injected-block", "correspondence",
        "generated documents with a root <svg> (the documents of oracle/doc-autostyles) under random theme / background / font / debug settings, transformed with auto-styles on and off: the text that appears between the root start tag and the rest of the document equals, byte for byte for the <style> element and up to the blank quick-xml drops before '/>' for the <defs> element, what the model of write_auto_styles (indentation, debug comments, one CDATA section split at every ]]>) writes for the builder's rules and definitions; non-trivial = something is injected");
    for _ in 0..n {
        let doc = gen_doc(rng, &cols, false);
        if !doc.has_root { continue; }
        let mut cfg = default_cfg();
        let theme = *rng.pick(&THEMES);
        cfg.theme = theme.parse().map_err(|_| "theme name".to_string())?;
        cfg.background = rng.pick(&["default", "none", "#fff", "a]]>b", "x ]] > y", "url(<&>)"]).to_string();
        if rng.chance(1, 3) { cfg.font_size = *rng.pick(&[3.0f32, 4.0, 6.0, 12.0]); }
        if rng.chance(1, 3) { cfg.font_family = rng.pick(&["monospace", "a]]>b", "\"Fira Sans\", sans-serif"]).to_string(); }
        cfg.debug = rng.chance(1, 3);
        let mut off = cfg.clone();
        off.add_auto_styles = false;
        cfg.add_auto_styles = true;
        let (Ok(Ok(on_out)), Ok(Ok(off_out))) = (transform(&doc.text, &cfg), transform(&doc.text, &off)) else { continue };
        // the debug banner prints the configuration, the only other place where the two runs differ
        let off_out = off_out.replacen("add_auto_styles: false", "add_auto_styles: true", 1);
        // common prefix / suffix
        let (a, b) = (on_out.as_bytes(), off_out.as_bytes());
        let mut p = 0; while p < a.len() && p < b.len() && a[p] == b[p] { p += 1; }
        let mut q = 0; while q < a.len() - p && q < b.len() - p && a[a.len() - 1 - q] == b[b.len() - 1 - q] { q += 1; }
        if p + q != b.len() { st.skipped += 1; st.tally("not-a-pure-insertion"); continue; }
        // an insertion is determined only up to rotation when its end repeats what precedes it ("\n  <"):
        // slide the window back until it starts where write_auto_styles starts
        let mut t = 0;
        while t <= p.min(16) && !(a[p - t..].starts_with(b"\n  <defs>") || a[p - t..].starts_with(b"\n  <style>")) && t < p && a[p - t - 1] == a[a.len() - q - t - 1] { t += 1; }
        if a.len() - q > p && !(a[p - t..].starts_with(b"\n  <defs>") || a[p - t..].starts_with(b"\n  <style>")) { st.skipped += 1; st.tally("insertion-not-located"); continue; }
        let Ok(injected) = std::str::from_utf8(&a[p - t..a.len() - q - t]) else { st.skipped += 1; continue };
        // the element and class sets of the document, as write_auto_styles collects them
        let Ok(outs) = parse_elements(&off_out) else { st.skipped += 1; continue };
        let mut elements: Vec<String> = vec![];
        let mut classes: Vec<String> = vec![];
        for o in &outs {
            if !elements.contains(&o.el.name) { elements.push(o.el.name.clone()); }
            for c in classes_of(&o.el) { if !classes.contains(&c) { classes.push(c); } }
        }
        let fs = cfg.font_size;
        let (th, bg, ff) = (cfg.theme.clone(), cfg.background.clone(), cfg.font_family.clone());
        let (cl, el) = (classes.clone(), elements.clone());
        let built = std::panic::catch_unwind(move || svgdx::verif_hooks::theme_build(theme, &cl, &el, &bg, fs, &ff, None));
        let _ = th;
        let Ok(Ok((defs, styles))) = built else { st.skipped += 1; continue };
        st.case(&doc.text, !injected.is_empty(), || json!({"document": doc.text, "theme": theme, "debug": cfg.debug}));
        let nd = defs.len().to_string();
        let ns = styles.len().to_string();
        let mut args: Vec<&str> = vec![if cfg.debug { "1" } else { "0" }, &nd];
        args.extend(defs.iter().map(|s| s.as_str()));
        args.push(&ns);
        args.extend(styles.iter().map(|s| s.as_str()));
        let r = drv.call("auto_style_text", &args)?;
        if r.first().map(|s| s.as_str()) != Some("ok") || r.len() < 3 { return Err(format!("model: auto_style_text answered {r:?}")); }
        let (m_defs, m_style) = (&r[1], &r[2]);
        let norm = |s: &str| -> String { let mut o = s.to_string(); while o.contains(" />") { o = o.replace(" />", "/>"); } while o.contains(" >") { o = o.replace(" >", ">"); } o };
        let replay = json!({"input": doc.text, "theme": theme, "background": cfg.background, "font_family": cfg.font_family, "font_size": cfg.font_size, "debug": cfg.debug});
        let ok_style = injected.ends_with(m_style.as_str());
        let head = &injected[..injected.len() - if ok_style { m_style.len() } else { 0 }];
        if !ok_style {
            rep.violation(Violation { kind: "correspondence", stream: st.name.clone(), signature: "inject:style".into(), what: format!("the injected text does not end with the model's <style> block: injected {:?} vs model {:?}", injected.chars().rev().take(160).collect::<String>().chars().rev().collect::<String>(), m_style.chars().rev().take(160).collect::<String>().chars().rev().collect::<String>()), replay, confirmed_on_impl: false });
        } else if norm(head) != norm(m_defs) {
            rep.violation(Violation { kind: "correspondence", stream: st.name.clone(), signature: "inject:defs".into(), what: format!("the injected <defs> block differs from the model's: {:?} vs {:?}", head.chars().take(200).collect::<String>(), m_defs.chars().take(200).collect::<String>()), replay, confirmed_on_impl: false });
        } else {
            st.exact += 1;
            if head != m_defs.as_str() { st.tolerance += 1; }
            if cfg.background.contains("]]>") || cfg.font_family.contains("]]>") { st.tally("cdata-terminator-in-author-string"); }
            if cfg.debug { st.tally("debug"); }
        }
    }
    rep.streams.push(st);
    Ok(())
}

pub fn run(rep: &mut Report, tier: &str, seed: u64) -> Result<(), String> {
    let mut rng = Rng::new(seed);
    let mut drv = Driver::start()?;
    let thorough = tier == "thorough";
    sweep_single(rep, &mut drv, &mut rng.fork())?;
    random_subsets(rep, &mut drv, &mut rng.fork(), if thorough { 100_000 } else { 6_000 })?;
    pattern_order(rep, &mut drv, &mut rng.fork(), if thorough { 20_000 } else { 1_000 })?;
    doc_stream(rep, &mut rng.fork(), if thorough { 40_000 } else { 3_000 }, false)?;
    doc_stream(rep, &mut rng.fork(), if thorough { 400 } else { 60 }, true)?;
    inject_stream(rep, &mut drv, &mut rng.fork(), if thorough { 20_000 } else { 1_500 })?;
    Ok(())
}
