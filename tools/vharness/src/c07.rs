//! C07 — front-ends agree, transforms are isolated, failures leave no damage.
//!
//!  * frontends/agree: library string and stream functions, the svgdx command (file / stdin in, file /
//!    stdout out) and POST /api/transform give the same bytes, or all fail;
//!  * isolation/history and isolation/concurrent: a probe document gives the same bytes after any
//!    sequence of other transforms in the same process (library and server) and while other transforms
//!    run concurrently (threads in-process, parallel requests to the server);
//!  * cli/protocol (correspondence): the command's handling of the output file - temp file, copy only after
//!    success, refusal to overwrite its input - against the Lean model `Svgdx.Cli.run` that the C07
//!    theorems are about: exit status and final bytes of the output file.
use crate::driver::Driver;
use crate::frontends::*;
use crate::report::*;
use crate::rng::Rng;
use crate::xmlgen;
use serde_json::json;
use std::time::Duration;

/// a document whose injected styles depend on the theme and the base font size, set by the document
fn styled_doc(rng: &mut Rng) -> String {
    let mut cfg = String::from("<config");
    if rng.chance(2, 3) { cfg.push_str(&format!(" theme=\"{}\"", rng.pick(&["dark", "light", "bold", "fine", "glass", "default"]))); }
    if rng.chance(1, 2) { cfg.push_str(&format!(" font-size=\"{}\"", rng.pick(&["2", "6", "4.5", "3"]))); }
    if rng.chance(1, 4) { cfg.push_str(&format!(" font-family=\"{}\"", rng.pick(&["serif", "monospace"]))); }
    cfg.push_str("/>");
    let pat = *rng.pick(&["d-grid", "d-grid-5", "d-hatch", "d-crosshatch-3", "d-stipple", "d-hatch-2"]);
    let size = *rng.pick(&["d-text-smallest", "d-text-smaller", "d-text-small", "d-text-medium", "d-text-large", "d-text-larger", "d-text-largest"]);
    format!("<svg>{cfg}<rect wh=\"{} 8\" class=\"{pat} d-fill-red\" text=\"t\"/><rect xy=\"^|h 2\" wh=\"9 4\" class=\"{size} d-shadow\" text=\"u v\"/><line xy1=\"0 20\" xy2=\"20 20\" class=\"d-arrow d-dash\"/></svg>", 6 + rng.below(9))
}

/// documents whose output is large or holds one very long event: a single write of the serialiser may then be
/// accepted only in part by a buffered or piped sink (stdout through its line buffer, a pipe that is full), which
/// every front-end must handle alike
fn bulk_doc(rng: &mut Rng) -> String {
    let long = |rng: &mut Rng, unit: &str| -> String { unit.repeat((1100 + rng.below(9000)) / unit.len().max(1) + 1) };
    match rng.below(5) {
        // author style: a line break, then one long line without another
        0 => format!("<svg><style>\n  .a {{ fill: red; }}\n{}</style><rect wh=\"4\" class=\"a\"/></svg>", long(rng, ".k{stroke:#123456;stroke-width:2}")),
        // real SVG, a start tag over several lines ending in a long attribute value
        1 => format!("<svg xmlns=\"http://www.w3.org/2000/svg\" xmlns:xlink=\"http://www.w3.org/1999/xlink\">\n<image\n   width=\"4\"\n   height=\"4\"\n   xlink:href=\"data:image/png;base64,{}\"/>\n<!-- c\n{} -->\n</svg>", long(rng, "iVBORw0KGgoAAAANSUhEUg"), long(rng, "comment text ")),
        // multi-line text content and a long text attribute
        2 => format!("<svg><rect wh=\"80 20\" text=\"{}\"/><text xy=\"0 30\">first\n{}</text><![CDATA[\n{}]]></svg>", long(rng, "word "), long(rng, "lorem ipsum "), long(rng, "cdata ")),
        // many elements: an output well beyond the size of a pipe
        3 => format!("<svg><loop count=\"{}\" loop-var=\"i\"><rect xy=\"{{{{$i * 3}}}} {{{{$i % 7}}}}\" wh=\"2\" class=\"d-fill-red\" text=\"$i\"/></loop></svg>", 600 + rng.below(380)),
        // a long path and a long points list on one line after a line break inside the tag
        _ => format!("<svg><path\n d=\"M0 0{}\"/><polyline\n points=\"{}\"/></svg>", long(rng, " l1 2 h3 v-1"), long(rng, "1,2 3,4 ")),
    }
}

/// Windows line ends (and a lone CR) inside content that is copied as written - comments, CDATA, author
/// styles, text - and between elements: the bytes belong to the input, no front-end may normalise them
fn crlf_doc(rng: &mut Rng) -> String {
    let base = match rng.below(3) {
        0 => "<svg>\n  <!-- a comment\n       over two lines -->\n  <style><![CDATA[\n    .a { fill: red; }\n    .b { fill: blue; }\n  ]]></style>\n  <rect wh=\"4\" class=\"a\" text=\"t\"/>\n  <text xy=\"0 9\">one\ntwo</text>\n</svg>\n".to_string(),
        1 => "<svg xmlns=\"http://www.w3.org/2000/svg\">\n<!-- real\n svg -->\n<desc>line 1\nline 2</desc>\n<rect width=\"1\"\n  height=\"2\"/>\n</svg>\n".to_string(),
        _ => xmlgen::svgdx_doc(rng, true),
    };
    let mut s = base.replace("\n", "\r\n");
    if rng.chance(1, 3) { s.push_str("<!-- trailing\rcr -->"); }
    s
}

fn doc(rng: &mut Rng) -> String {
    if rng.chance(1, 4) { return styled_doc(rng); }
    if rng.chance(1, 6) { return bulk_doc(rng); }
    if rng.chance(1, 8) { return crlf_doc(rng); }
    match rng.below(8) {
        // failures that are only found while the output is being WRITTEN (a character XML cannot contain,
        // held raw in an attribute or in text) and failures found by the reader - every front-end, in every
        // input / output mode, must report them alike
        6 => format!("<svg><rect wh=\"{} 2\" text=\"bell\u{7}rung\"/><circle r=\"2\"/></svg>", 2 + rng.below(9)),
        7 => (*rng.pick(&["<svg><text xy=\"1 1\">x\u{1}y</text></svg>", "<svg><rect wh=\"3\" data-a=\"p&#2;q\"/></svg>", "<svg><g>tail \u{fffe}</g></svg>"])).to_string(),
        0 | 1 => xmlgen::svgdx_doc(rng, true),
        2 => xmlgen::real_svg_doc(rng),
        3 => format!("<svg><rect xy=\"{{{{randint(0, 50)}}}} {{{{random() * 9}}}}\" wh=\"{} 3\" class=\"d-fill-red d-grid-5\" text=\"r\"/><circle cxy=\"^|h 2\" r=\"2\"/></svg>", 1 + rng.below(9)),
        4 => format!("<svg><rect xy=\"#nowhere{}|h\" wh=\"2\"/><rect wh=\"3\"/></svg>", rng.below(9)), // fails
        _ => "<svg><loop count=\"5000\"><rect wh=\"1\"/></loop></svg>".to_string(),                       // fails (loop limit)
    }
}

fn same(x: &Res, y: &Res) -> bool {
    match (x, y) { (Res::Ok(p), Res::Ok(q)) => p == q, (Res::Err(_), Res::Err(_)) => true, _ => false }
}

fn agree_stream(rep: &mut Report, rng: &mut Rng, n: usize) {
    let mut st = Stream::new("frontends/agree", "oracle", "generated svgdx and plain-SVG documents, documents with random functions and styles, failing documents; random configurations (seed, scale, border, metadata, auto-styles, theme): transform_str, transform_stream, the svgdx command in its four input/output modes and (for configurations the endpoint can express) POST /api/transform return the same bytes, or all report an error (error value / non-zero exit with a message / HTTP 400)");
    let Some(bin) = svgdx_bin() else { rep.notes.push("frontends/agree: svgdx binary not built".into()); rep.streams.push(st); return; };
    let dir = std::path::PathBuf::from("/verif/.build/tmp");
    let _ = std::fs::create_dir_all(&dir);
    let mut server = Server::start().ok();
    if server.is_none() { rep.notes.push("frontends/agree: server could not be started".into()); }
    for i in 0..n {
        // one case in eight is about the loop limit: a loop just below / at / above the limit that the
        // configuration (or the default) sets - every front-end must apply the same limit
        let limit_case = rng.chance(1, 8);
        let d = if limit_case { format!("<svg><loop count=\"{}\"><rect wh=\"1\"/></loop></svg>", rng.pick(&[4u32, 5, 6, 10, 12, 13, 999, 1000, 1001, 1010, 1024, 1025])) } else { doc(rng) };
        let cfg = if limit_case { FCfg { loop_limit: *rng.pick(&[1000u32, 1000, 5, 12]), ..Default::default() } } else if rng.chance(1, 2) { FCfg { add_metadata: rng.chance(1, 2), ..Default::default() } } else {
            FCfg { seed: rng.below(50) as u64, scale: *rng.pick(&[1.0f32, 2.0, 0.5]), border: *rng.pick(&[5u16, 0, 9]), add_metadata: rng.chance(1, 4), no_auto_styles: rng.chance(1, 5), theme: *rng.pick(&[None, Some("dark"), Some("bold")]), loop_limit: 1000 }
        };
        st.case(&d, true, || json!({"document": d}));
        let base = via_str(&d, &cfg);
        st.tally(&format!("library={}", base.kind()));
        let mut bad: Option<String> = None;
        let s2 = via_stream(d.as_bytes(), &cfg);
        if !same(&base, &s2) { bad = Some(format!("transform_stream gives {} where transform_str gives {}", s2.kind(), base.kind())); }
        for mode in [CliMode::FileToStdout, CliMode::StdinToStdout, CliMode::FileToFile, CliMode::StdinToFile] {
            if bad.is_some() { break; }
            let r = via_cli(&bin, &dir, &format!("c07-{}-{i}", std::process::id()), d.as_bytes(), &cfg, mode, None, Duration::from_secs(30));
            if !same(&base, &r.res) { bad = Some(format!("svgdx {mode:?} gives {} (exit {:?}) where the library gives {}", r.res.kind(), r.exit_code, base.kind())); }
            if let Res::Err(_) = &r.res { if r.stderr.trim().is_empty() { bad = Some(format!("svgdx {mode:?} fails without a message")); } }
        }
        if bad.is_none() && cfg.is_server_expressible() {
            if let Some(sv) = server.as_mut() {
                let r = sv.transform(d.as_bytes(), cfg.add_metadata, Duration::from_secs(30));
                // an empty result cannot be served: the endpoint reports it as an error (documented in server.rs)
                let lib_empty = matches!(&base, Res::Ok(b) if b.is_empty());
                if !(same(&base, &r) || (lib_empty && matches!(r, Res::Err(_)))) { bad = Some(format!("POST /api/transform gives {} where the library gives {}", r.kind(), base.kind())); }
                if !sv.alive() { server = Server::start().ok(); }
            }
        }
        match bad {
            None => st.exact += 1,
            Some(what) => rep.violation(Violation { kind: "oracle", stream: st.name.clone(), signature: "C07:frontends-differ".into(), what, replay: json!({"input": d, "seed": cfg.seed, "cli_args": cfg.cli_args()}), confirmed_on_impl: true }),
        }
    }
    rep.streams.push(st);
}

fn isolation_streams(rep: &mut Report, rng: &mut Rng, n: usize) {
    let mut st = Stream::new("isolation/history", "oracle", "a probe document (random functions, variables, styles; half of them with theme / font-size / pattern / text-size classes set by the document) transformed by a fresh svgdx process, alone, then again after a random sequence of 1-8 other transforms in the same process - succeeding and failing ones, other seeds and limits - through the library and through one server process: the probe's bytes do not change and equal the fresh process's");
    let mut server = Server::start().ok();
    for _ in 0..n {
        let probe = if rng.chance(1, 2) { styled_doc(rng) } else { format!("<svg><var a=\"{{{{randint(0, 99)}}}}\"/><rect xy=\"$a {{{{random()}}}}\" wh=\"4\" class=\"d-fill-blue d-dash\" text=\"$a\"/><loop count=\"3\" loop-var=\"i\"><circle cxy=\"{{{{$i * 5}}}} {{{{randint(1, 9)}}}}\" r=\"1\"/></loop><rect xy=\"^|h {}\" wh=\"2\"/></svg>", rng.below(5)) };
        let cfg = FCfg { add_metadata: rng.chance(1, 3), ..Default::default() };
        st.case(&probe, true, || json!({"probe": probe}));
        // the reference comes from a fresh process: what is remembered from the first transform of a
        // process would otherwise be part of "alone" as well
        let fresh = svgdx_bin().map(|bin| via_cli(&bin, &std::path::PathBuf::from("/verif/.build/tmp"), &format!("c07-probe-{}", std::process::id()), probe.as_bytes(), &cfg, CliMode::StdinToStdout, None, Duration::from_secs(30)).res);
        let alone = via_str(&probe, &cfg);
        let alone_srv = server.as_mut().map(|s| s.transform(probe.as_bytes(), cfg.add_metadata, Duration::from_secs(30)));
        let k = 1 + rng.below(8);
        let mut hist = vec![];
        for _ in 0..k {
            let d = doc(rng);
            let c2 = FCfg { seed: rng.below(99) as u64, loop_limit: *rng.pick(&[1000u32, 3, 10]), ..Default::default() };
            let _ = via_str(&d, &c2);
            if let Some(s) = server.as_mut() { let _ = s.transform(d.as_bytes(), false, Duration::from_secs(30)); }
            hist.push(d);
        }
        let after = via_str(&probe, &cfg);
        let mut bad = None;
        if !(matches!((&alone, &after), (Res::Ok(a), Res::Ok(b)) if a == b)) { bad = Some(format!("library: the probe gives {} alone and {} after {k} other transforms (different bytes or outcome)", alone.kind(), after.kind())); }
        if let (Some(f), true) = (&fresh, bad.is_none()) {
            if !same(f, &after) { bad = Some(format!("library: after {k} other transforms the probe gives {}, a fresh svgdx process gives {} (different bytes or outcome)", after.kind(), f.kind())); }
        }
        if let (Some(s), Some(a0)) = (server.as_mut(), alone_srv.as_ref()) {
            let a1 = s.transform(probe.as_bytes(), cfg.add_metadata, Duration::from_secs(30));
            if !(matches!((a0, &a1), (Res::Ok(a), Res::Ok(b)) if a == b)) { bad = Some(format!("server: the probe gives {} alone and {} after {k} other requests", a0.kind(), a1.kind())); }
            if let (Res::Ok(a), Res::Ok(b)) = (&alone, a0) { if a != b { bad = Some("server and library differ on the probe".into()); } }
            if let Some(f) = &fresh { if !same(f, &a1) && bad.is_none() { bad = Some(format!("server: after {k} other requests the probe gives {}, a fresh svgdx process gives {}", a1.kind(), f.kind())); } }
        }
        match bad {
            None => st.exact += 1,
            Some(what) => rep.violation(Violation { kind: "oracle", stream: st.name.clone(), signature: "C07:history-dependent".into(), what, replay: json!({"input": probe, "history": hist}), confirmed_on_impl: true }),
        }
    }
    rep.streams.push(st);

    let mut st = Stream::new("isolation/concurrent", "oracle", "8 threads transform different documents (different seeds) repeatedly at the same time, in-process through the library and as parallel requests to one server process: every result equals the result of the same document transformed alone");
    let rounds = (n / 10).max(3);
    for _ in 0..rounds {
        let jobs: Vec<(String, FCfg)> = (0..8).map(|i| (doc(rng), FCfg { seed: i as u64 * 7, ..Default::default() })).collect();
        let expect: Vec<Res> = jobs.iter().map(|(d, c)| via_str(d, c)).collect();
        st.case(&jobs[0].0, true, || json!({"documents": jobs.iter().map(|j| j.0.clone()).collect::<Vec<_>>()}));
        let handles: Vec<_> = jobs.iter().cloned().map(|(d, c)| std::thread::spawn(move || { let mut last = via_str(&d, &c); for _ in 0..5 { last = via_str(&d, &c); } last })).collect();
        let got: Vec<Res> = handles.into_iter().map(|h| h.join().unwrap_or(Res::Crash("thread".into()))).collect();
        let mut bad = None;
        for (i, (e, g)) in expect.iter().zip(got.iter()).enumerate() {
            let ok = match (e, g) { (Res::Ok(a), Res::Ok(b)) => a == b, (Res::Err(a), Res::Err(b)) => a == b, _ => false };
            if !ok { bad = Some((i, format!("library, concurrent: document {i} gives {} alone and {} while others run", e.kind(), g.kind()))); break; }
        }
        if bad.is_none() {
            if let Some(s) = server.as_ref() {
                let port = s.port;
                let hs: Vec<_> = jobs.iter().cloned().map(|(d, _)| std::thread::spawn(move || { let sv = ServerRef { port }; let mut last = sv.transform(d.as_bytes()); for _ in 0..3 { last = sv.transform(d.as_bytes()); } last })).collect();
                let got: Vec<Res> = hs.into_iter().map(|h| h.join().unwrap_or(Res::Crash("thread".into()))).collect();
                for (i, ((d, _), g)) in jobs.iter().zip(got.iter()).enumerate() {
                    let e = via_str(d, &FCfg::default());
                    let lib_empty = matches!(&e, Res::Ok(b) if b.is_empty());
                    if !(same(&e, g) || (lib_empty && matches!(g, Res::Err(_)))) { bad = Some((i, format!("server, parallel requests: document {i} gives {} where the library gives {}", g.kind(), e.kind()))); break; }
                }
            }
        }
        match bad {
            None => st.exact += 1,
            Some((i, what)) => rep.violation(Violation { kind: "oracle", stream: st.name.clone(), signature: "C07:concurrency-dependent".into(), what, replay: json!({"input": jobs[i].0, "concurrent_with": jobs.iter().map(|j| j.0.clone()).collect::<Vec<_>>()}), confirmed_on_impl: true }),
        }
    }
    rep.streams.push(st);
}

/// a second handle on a running server (by port) for use from threads
struct ServerRef { port: u16 }
impl ServerRef {
    fn transform(&self, input: &[u8]) -> Res {
        use std::io::{Read, Write};
        let Ok(mut s) = std::net::TcpStream::connect(("127.0.0.1", self.port)) else { return Res::Crash("connect".into()) };
        s.set_read_timeout(Some(Duration::from_secs(30))).ok();
        let head = format!("POST /api/transform HTTP/1.1\r\nHost: localhost\r\nContent-Type: text/plain\r\nContent-Length: {}\r\nConnection: close\r\n\r\n", input.len());
        if s.write_all(head.as_bytes()).and_then(|_| s.write_all(input)).is_err() { return Res::Crash("write".into()); }
        let mut buf = vec![];
        if s.read_to_end(&mut buf).is_err() { return Res::Crash("read".into()); }
        let Some(pos) = buf.windows(4).position(|w| w == b"\r\n\r\n") else { return Res::Crash("no header".into()) };
        let head = String::from_utf8_lossy(&buf[..pos]).to_ascii_lowercase();
        let status: u16 = head.split_whitespace().nth(1).and_then(|c| c.parse().ok()).unwrap_or(0);
        let mut body = buf[pos + 4..].to_vec();
        if head.contains("transfer-encoding: chunked") {
            let mut out = vec![]; let mut i = 0;
            while i < body.len() {
                let Some(e) = body[i..].windows(2).position(|w| w == b"\r\n") else { break };
                let n = usize::from_str_radix(String::from_utf8_lossy(&body[i..i + e]).trim(), 16).unwrap_or(0);
                i += e + 2; if n == 0 || i + n > body.len() { break; }
                out.extend_from_slice(&body[i..i + n]); i += n + 2;
            }
            body = out;
        }
        match status { 200 => Res::Ok(body), 400 => Res::Err(String::from_utf8_lossy(&body).to_string()), c => Res::Crash(format!("status {c}")) }
    }
}

fn protocol_stream(rep: &mut Report, drv: &mut Driver, rng: &mut Rng, n: usize) -> Result<(), String> {
    let mut st = Stream::new("cli/protocol", "correspondence", "the svgdx command with an output file that exists (with known bytes) or not, a succeeding or a failing document, and the output path different from, equal to, or an alias (./x, dir/../x, symlink) of the input path: exit status class and final bytes of the output (and input) file, against the Lean model Svgdx.Cli.run of lib.rs transform_file / cli.rs Config::from_args");
    let Some(bin) = svgdx_bin() else { rep.notes.push("cli/protocol: svgdx binary not built".into()); rep.streams.push(st); return Ok(()); };
    let root = std::path::PathBuf::from(format!("/verif/.build/tmp/c07p-{}", std::process::id()));
    let _ = std::fs::remove_dir_all(&root);
    std::fs::create_dir_all(root.join("sub")).map_err(|e| e.to_string())?;
    for i in 0..n {
        let ok_doc = rng.chance(1, 2);
        let d = if ok_doc { format!("{}<svg><rect wh=\"{} 2\"/></svg>", if rng.chance(1, 3) { "<?xml version=\"1.0\"?>\n<!-- prolog -->\n" } else { "" }, 1 + rng.below(9)) } else {
            // failures at every stage: while resolving, at a limit, and late - in the root element, after
            // the prolog (declaration, comment, blank) would already have been written
            match rng.below(5) {
                0 => format!("<svg><rect xy=\"#ghost{}|h\" wh=\"2\"/></svg>", rng.below(9)),
                1 => "<svg><loop count=\"5000\"><rect wh=\"1\"/></loop></svg>".to_string(),
                2 => format!("<?xml version=\"1.0\" encoding=\"UTF-8\"?>\n<!-- a comment -->\n<svg {}=\"{}\"><rect wh=\"3 {}\"/></svg>", rng.pick(&["width", "height"]), rng.pick(&["auto", "1e1", "+10cm", "1 0"]), 1 + rng.below(5)),
                3 => format!("\n  <svg width=\"auto\"><rect wh=\"{}\"/></svg>", 2 + rng.below(5)),
                _ => format!("<!-- first --><svg height=\"big\"><circle r=\"{}\"/></svg>", 1 + rng.below(5)),
            }
        };
        let before: Option<Vec<u8>> = if rng.chance(2, 3) { Some(format!("previous content {i}\n").into_bytes()) } else { None };
        let alias = rng.below(6); // 0-2 distinct file, 3 same path, 4 ./ alias, 5 symlink / dir/.. alias
        let inp = root.join(format!("in{i}.xml"));
        std::fs::write(&inp, d.as_bytes()).map_err(|e| e.to_string())?;
        let (outp, same_file): (std::path::PathBuf, bool) = match alias {
            3 => (inp.clone(), true),
            4 => (root.join("sub").join("..").join(format!("in{i}.xml")), true),
            5 => { let l = root.join(format!("link{i}.xml")); let _ = std::fs::remove_file(&l); let _ = std::os::unix::fs::symlink(&inp, &l); (l, true) }
            _ => (root.join(format!("out{i}.svg")), false),
        };
        if !same_file {
            let _ = std::fs::remove_file(&outp);
            if let Some(b) = &before { std::fs::write(&outp, b).map_err(|e| e.to_string())?; }
        }
        let out_before: Option<Vec<u8>> = std::fs::read(&outp).ok();
        st.case(&format!("{d}{alias}{before:?}"), true, || json!({"document": d, "alias_kind": alias, "output_exists": out_before.is_some()}));
        let res = std::process::Command::new(&bin).arg(&inp).arg("-o").arg(&outp).output().map_err(|e| e.to_string())?;
        let code = res.status.code();
        let out_after = std::fs::read(&outp).ok();
        let in_after = std::fs::read(&inp).ok();
        // what the transform itself gives
        let t = via_str(&d, &FCfg::default());
        // model: cli_run <same_file 0/1> <out_exists 0/1> <transform ok 0/1> -> "<exit ok|err> <output: new|kept|absent>"
        let m = drv.call("cli_run", &[if same_file { "1" } else { "0" }, if out_before.is_some() { "1" } else { "0" }, if matches!(t, Res::Ok(_)) { "1" } else { "0" }])?;
        let m_exit = m.first().map(|s| s.as_str()).unwrap_or("");
        let m_out = m.get(1).map(|s| s.as_str()).unwrap_or("");
        let i_exit = match code { Some(0) => "ok", Some(101) | None => "crash", Some(_) => "err" };
        let i_out = if out_after.is_none() { "absent" } else if out_after == out_before { "kept" } else if matches!(&t, Res::Ok(b) if Some(b) == out_after.as_ref()) { "new" } else { "other" };
        // when the transform output happens to equal the previous content, "kept" and "new" coincide
        let coincide = matches!(&t, Res::Ok(b) if Some(b) == out_before.as_ref());
        let input_intact = in_after.as_deref() == Some(d.as_bytes());
        st.tally(&format!("exit={i_exit} out={i_out}"));
        let agree = i_exit == m_exit && (i_out == m_out || (coincide && (i_out == "kept" || i_out == "new")));
        if !agree {
            rep.violation(Violation { kind: "correspondence", stream: st.name.clone(), signature: "cli-protocol".into(), what: format!("svgdx: exit {i_exit}, output file {i_out}; model: exit {m_exit}, output {m_out} (same file: {same_file}, existed: {}, transform ok: {})", out_before.is_some(), matches!(t, Res::Ok(_))), replay: json!({"input": d, "alias_kind": alias, "output_existed": out_before.is_some()}), confirmed_on_impl: false });
        }
        // the property itself, on the implementation
        let mut bad = None;
        if i_exit == "crash" { bad = Some("the command crashes".to_string()); }
        if !matches!(t, Res::Ok(_)) && (i_exit != "err" || !(i_out == "kept" || i_out == "absent" && out_before.is_none())) { bad = Some(format!("a failed transform: exit {i_exit}, output file {i_out} (must be an error exit and the file untouched)")); }
        if !matches!(t, Res::Ok(_)) && String::from_utf8_lossy(&res.stderr).trim().is_empty() { bad = Some("a failed transform without a message".into()); }
        if same_file && (i_exit != "err" || !input_intact) { bad = Some(format!("output path names the input file: exit {i_exit}, input intact: {input_intact} (must refuse)")); }
        if !input_intact && !same_file { bad = Some("the input file was modified".into()); }
        if matches!(t, Res::Ok(_)) && !same_file && (i_exit != "ok" || !(i_out == "new" || coincide)) { bad = Some(format!("a successful transform: exit {i_exit}, output file {i_out}")); }
        match bad {
            None => st.exact += 1,
            Some(what) => rep.violation(Violation { kind: "oracle", stream: st.name.clone(), signature: "C07:cli-protocol".into(), what, replay: json!({"input": d, "alias_kind": alias, "output_existed": out_before.is_some()}), confirmed_on_impl: true }),
        }
        let _ = std::fs::remove_file(&inp);
        if !same_file { let _ = std::fs::remove_file(&outp); } else if alias == 5 { let _ = std::fs::remove_file(&outp); }
    }
    let _ = std::fs::remove_dir_all(&root);
    rep.streams.push(st);
    Ok(())
}

pub fn run(rep: &mut Report, tier: &str, seed: u64) -> Result<(), String> {
    let mut rng = Rng::new(seed);
    let thorough = tier == "thorough";
    let (n_agree, n_iso, n_proto) = if thorough { (1500, 600, 1500) } else { (60, 40, 120) };
    agree_stream(rep, &mut rng.fork(), n_agree);
    isolation_streams(rep, &mut rng.fork(), n_iso);
    let mut drv = Driver::start()?;
    protocol_stream(rep, &mut drv, &mut rng.fork(), n_proto)?;
    Ok(())
}
