//! C04 — standard SVG content inside svgdx documents is accepted and preserved.
//!
//!  * oracle/svg-vocabulary: documents built from the SVG 1.1 element / attribute vocabulary with values
//!    from the full number / length / path / points / transform grammars, processed in svgdx mode (root
//!    without the namespace): the transform succeeds and every input element appears in the output with
//!    the same name, attributes (numbers up to the 3-decimal rounding), text and tree position;
//!  * doc/svg-vocabulary (correspondence): the same documents, implementation vs the Lean model;
//!  * scan/numbers: number lists, path data and transform lists in every legal spelling against the Lean
//!    scanners (`svgNumberList`, `Path.pathBBox`, `parseXfList`): accepted, with the same values.
use crate::ctl::*;
use crate::driver::Driver;
use crate::report::*;
use crate::rng::Rng;
use crate::util::*;
use serde_json::json;

/// one SVG number in a random legal spelling, with its value
fn num(rng: &mut Rng, lo: i64, hi: i64) -> (String, f64) {
    let k = rng.range(lo * 4, hi * 4);
    let v = k as f64 / 4.0;
    let a = v.abs();
    let sign = if v < 0.0 { "-" } else if rng.chance(1, 8) { "+" } else { "" };
    let body = match rng.below(7) {
        0 if a.fract() == 0.0 => format!("{}.", a as i64),
        1 if a < 1.0 && a > 0.0 => format!("{}", a).trim_start_matches('0').to_string(),
        2 if a.fract() == 0.0 && a >= 10.0 && (a as i64) % 10 == 0 => format!("{}e1", (a as i64) / 10),
        3 => format!("{}E0", a),
        4 if a != 0.0 => format!("{}e-1", a * 10.0),
        5 => format!("{:.2}", a),
        _ => format!("{}", a),
    };
    (format!("{sign}{body}"), v)
}

fn sep(rng: &mut Rng) -> &'static str {
    *rng.pick(&[" ", ",", " , ", "  ", ", "])
}

/// join numbers the way minifiers do: a separator is dropped where the grammar does not need it
fn join_nums(rng: &mut Rng, nums: &[String]) -> String {
    let mut out = String::new();
    for (i, n) in nums.iter().enumerate() {
        if i > 0 {
            let prev_has_point = nums[i - 1].contains('.') || nums[i - 1].contains('e') || nums[i - 1].contains('E');
            let can_drop = n.starts_with('-') || n.starts_with('+') || (n.starts_with('.') && prev_has_point);
            if can_drop && rng.chance(1, 2) { /* no separator */ } else { out.push_str(sep(rng)); }
        }
        out.push_str(n);
    }
    out
}

fn path_data(rng: &mut Rng) -> String {
    let mut d = String::new();
    let n = 1 + rng.below(6);
    let mut cmds: Vec<(char, usize)> = vec![('M', 2)];
    for _ in 0..n {
        cmds.push(*rng.pick(&[('L', 2), ('l', 2), ('H', 1), ('h', 1), ('V', 1), ('v', 1), ('C', 6), ('c', 6), ('S', 4), ('s', 4), ('Q', 4), ('q', 4), ('T', 2), ('t', 2), ('A', 7), ('a', 7), ('Z', 0), ('z', 0), ('M', 2), ('m', 2)]));
    }
    let mut prev_z = false;
    for (c, k) in cmds {
        if prev_z && k > 0 && !"Mm".contains(c) && rng.chance(1, 2) { d.push_str("M 0 0"); }
        d.push(c);
        prev_z = k == 0;
        if rng.chance(1, 2) && k > 0 { d.push(' '); }
        let reps = if k > 0 && rng.chance(1, 4) { 2 } else { 1 };
        let mut groups = vec![];
        for _ in 0..reps {
            if k == 7 {
                let mut v: Vec<String> = (0..3).map(|_| num(rng, 0, 20).0.trim_start_matches('+').to_string()).collect();
                // flags: single characters, possibly written together
                let (f1, f2) = (rng.below(2), rng.below(2));
                if rng.chance(1, 2) { v.push(format!("{f1}{f2}")); } else { v.push(f1.to_string()); v.push(f2.to_string()); }
                v.push(num(rng, -30, 30).0);
                v.push(num(rng, -30, 30).0);
                // after a compact flag pair a number needs no separator either, but keep one: minifiers differ
                groups.push(v.join(" "));
            } else {
                let v: Vec<String> = (0..k).map(|_| num(rng, -30, 30).0).collect();
                groups.push(join_nums(rng, &v));
            }
        }
        d.push_str(&groups.join(sep(rng)));
        if rng.chance(1, 3) { d.push(' '); }
    }
    d
}

fn points(rng: &mut Rng) -> String {
    let n = 2 + rng.below(5);
    let v: Vec<String> = (0..2 * n).map(|_| num(rng, -30, 30).0).collect();
    join_nums(rng, &v)
}

fn transform(rng: &mut Rng) -> String {
    let n = 1 + rng.below(3);
    let mut parts = vec![];
    for _ in 0..n {
        let (name, k) = *rng.pick(&[("translate", 2), ("translate", 1), ("scale", 1), ("scale", 2), ("rotate", 1), ("rotate", 3), ("skewX", 1), ("skewY", 1), ("matrix", 6)]);
        let v: Vec<String> = (0..k).map(|_| num(rng, -9, 9).0).collect();
        parts.push(format!("{name}({}{}{})", if rng.chance(1, 4) { " " } else { "" }, join_nums(rng, &v), if rng.chance(1, 4) { " " } else { "" }));
    }
    // comma-wsp between the transforms: any run of blanks with at most one comma, or nothing at all
    parts.join(*rng.pick(&[" ", ", ", "", "  ", ",", " ,", ",\t", ",\n", ",  ", "\n", " , "]))
}

fn length(rng: &mut Rng) -> String {
    let (n, _) = num(rng, 1, 40);
    format!("{}{}", n.trim_start_matches('+'), rng.pick(&["", "", "", "px", "mm", "cm", "in", "pt", "pc", "em", "ex", "%"]))
}

fn presentation(rng: &mut Rng, attrs: &mut Vec<(String, String)>) {
    let all: [(&str, &[&str]); 12] = [
        ("fill", &["red", "#f00", "none", "url(#grad1)", "rgb(1,2,3)", "currentColor"]), ("stroke", &["black", "#00f8", "none"]), ("stroke-width", &["0.5", "2", "1px", "3%"]),
        ("opacity", &["0.5", ".25", "1"]), ("stroke-dasharray", &["1 2", "3,1,2", "none"]), ("font-size", &["3", "12px", "1.5em"]), ("font-family", &["serif", "'My Font', sans-serif"]),
        ("style", &["fill: blue; stroke: none", "opacity:.5"]), ("class", &["mine", "a b", "big"]), ("visibility", &["hidden", "visible"]), ("stroke-linecap", &["round", "butt"]), ("data-x", &["1", "anything at all & more"]),
    ];
    for _ in 0..rng.below(4) {
        let (k, vs) = *rng.pick(&all);
        if !attrs.iter().any(|(a, _)| a == k) { attrs.push((k.to_string(), rng.pick(vs).to_string())); }
    }
    if rng.chance(1, 5) { attrs.push(("transform".into(), transform(rng))); }
}

struct Gen<'a> { rng: &'a mut Rng, n: usize }

impl<'a> Gen<'a> {
    fn id(&mut self) -> String { self.n += 1; format!("n{}", self.n) }

    fn shape(&mut self) -> X {
        let rng = &mut *self.rng;
        let mut attrs: Vec<(String, String)> = vec![];
        let plain = |rng: &mut Rng| -> String { if rng.chance(1, 5) { length(rng) } else { num(rng, -40, 40).0 } };
        let size = |rng: &mut Rng| -> String { if rng.chance(1, 5) { length(rng) } else { num(rng, 1, 40).0.trim_start_matches('+').to_string() } };
        let name = *rng.pick(&["rect", "rect", "circle", "ellipse", "line", "polyline", "polygon", "path", "image", "use"]);
        let opt = |rng: &mut Rng, attrs: &mut Vec<(String, String)>, k: &str, v: String| { if rng.chance(3, 4) { attrs.push((k.to_string(), v)); } };
        match name {
            "rect" => { let v = plain(rng); opt(rng, &mut attrs, "x", v); let v = plain(rng); opt(rng, &mut attrs, "y", v); attrs.push(("width".into(), size(rng))); attrs.push(("height".into(), size(rng))); if rng.chance(1, 4) { attrs.push(("rx".into(), size(rng))); } }
            "circle" => { let v = plain(rng); opt(rng, &mut attrs, "cx", v); let v = plain(rng); opt(rng, &mut attrs, "cy", v); attrs.push(("r".into(), size(rng))); }
            "ellipse" => { let v = plain(rng); opt(rng, &mut attrs, "cx", v); let v = plain(rng); opt(rng, &mut attrs, "cy", v); attrs.push(("rx".into(), size(rng))); attrs.push(("ry".into(), size(rng))); }
            // all four coordinates: a line with a single coordinate on an axis is read by svgdx as a
            // horizontal / vertical line (known finding, kept in the corpus)
            "line" => { for k in ["x1", "y1", "x2", "y2"] { let v = plain(rng); attrs.push((k.to_string(), v)); } }
            "polyline" | "polygon" => attrs.push(("points".into(), points(rng))),
            "path" => attrs.push(("d".into(), path_data(rng))),
            "image" => { attrs.push((if rng.chance(1, 2) { "href" } else { "xlink:href" }.into(), "pic.png".into())); let v = plain(rng); opt(rng, &mut attrs, "x", v); attrs.push(("width".into(), size(rng))); attrs.push(("height".into(), size(rng))); }
            _ => { attrs.push((if rng.chance(1, 2) { "href" } else { "xlink:href" }.into(), (*rng.pick(&["#shape0", "#shape0", "#shape1", "#shape2", "#shape3", "#shape4"])).into())); let v = num(rng, -20, 20).0; opt(rng, &mut attrs, "x", v); let v = num(rng, -20, 20).0; opt(rng, &mut attrs, "y", v); }
        }
        presentation(rng, &mut attrs);
        if rng.chance(1, 3) { let id = { self.n += 1; format!("n{}", self.n) }; attrs.insert(0, ("id".into(), id)); }
        // `<rect ...></rect>`, start and end tag with nothing between them (how HTML serialisers write an
        // element without children), is the same element as `<rect .../>`
        let open_close = self.rng.chance(1, 6);
        X::El { name: name.into(), attrs, kids: if open_close { Some(vec![]) } else { None } }
    }

    fn text(&mut self) -> X {
        let rng = &mut *self.rng;
        let mut attrs = vec![("x".to_string(), num(rng, -20, 20).0), ("y".to_string(), num(rng, -20, 20).0)];
        presentation(rng, &mut attrs);
        let mut kids = vec![X::Text(rng.pick(&["label", "two words", "a < b & c", "x"]).to_string())];
        if rng.chance(1, 3) {
            kids.push(X::El { name: "tspan".into(), attrs: vec![("dy".into(), "1.2em".into()), ("fill".into(), "blue".into())], kids: Some(vec![X::Text("span".into())]) });
            kids.push(X::Text(" tail".into()));
        }
        X::El { name: "text".into(), attrs, kids: Some(kids) }
    }

    fn container(&mut self, depth: usize) -> X {
        let name = *self.rng.pick(&["g", "g", "g", "a", "defs", "symbol", "marker", "mask", "pattern", "clipPath", "switch", "svg"]);
        let mut attrs: Vec<(String, String)> = vec![];
        match name {
            "a" => attrs.push(("href".into(), "http://example.org/?a=1&b=2".into())),
            "marker" => { attrs.push(("id".into(), self.id())); attrs.push(("markerWidth".into(), "4".into())); attrs.push(("markerHeight".into(), "4".into())); attrs.push(("orient".into(), "auto".into())); attrs.push(("viewBox".into(), "0 0 10 10".into())); }
            "pattern" => { attrs.push(("id".into(), self.id())); attrs.push(("width".into(), "4".into())); attrs.push(("height".into(), "4".into())); attrs.push(("patternUnits".into(), "userSpaceOnUse".into())); }
            "mask" | "clipPath" | "symbol" => attrs.push(("id".into(), self.id())),
            "svg" => { attrs.push(("x".into(), "1".into())); attrs.push(("y".into(), "2".into())); attrs.push(("width".into(), "20".into())); attrs.push(("height".into(), "10".into())); attrs.push(("viewBox".into(), "0 0 40 20".into())); }
            _ => {}
        }
        if name == "g" { presentation(self.rng, &mut attrs); }
        let k = 1 + self.rng.below(3);
        let kids: Vec<X> = (0..k).map(|_| self.node(depth + 1)).collect();
        X::El { name: name.into(), attrs, kids: Some(kids) }
    }

    fn paint_server(&mut self) -> X {
        let id = self.id();
        if self.rng.chance(1, 2) {
            X::El { name: "linearGradient".into(), attrs: vec![("id".into(), id), ("x1".into(), "0%".into()), ("y1".into(), "0".into()), ("x2".into(), "100%".into()), ("y2".into(), "1".into()), ("gradientTransform".into(), "rotate(45)".into())],
                kids: Some(vec![X::leaf("stop", &[("offset", "0"), ("stop-color", "red")]), X::leaf("stop", &[("offset", "100%"), ("stop-color", "#00f"), ("stop-opacity", ".5")])]) }
        } else {
            X::El { name: "filter".into(), attrs: vec![("id".into(), id), ("x".into(), "-10%".into()), ("width".into(), "120%".into())],
                kids: Some(vec![X::leaf("feGaussianBlur", &[("stdDeviation", "2 3"), ("in", "SourceAlpha")]), X::leaf("feOffset", &[("dx", "2"), ("dy", "-1.5"), ("result", "o")]), X::node("feMerge", &[], vec![X::leaf("feMergeNode", &[("in", "o")]), X::leaf("feMergeNode", &[("in", "SourceGraphic")])])]) }
        }
    }

    fn node(&mut self, depth: usize) -> X {
        match self.rng.below(if depth >= 3 { 7 } else { 11 }) {
            0..=4 => self.shape(),
            5 => self.text(),
            6 => match self.rng.below(3) {
                0 => X::node("title", &[], vec![X::Text("A title".into())]),
                1 => X::node("desc", &[], vec![X::Text("Some <description>".into())]),
                _ => X::node("style", &[("type", "text/css")], vec![X::Text("rect { fill: red; } .a > .b { stroke: blue }".into())]),
            },
            7 => self.paint_server(),
            8 => X::El { name: "foreignObject".into(), attrs: vec![("x".into(), "1".into()), ("y".into(), "1".into()), ("width".into(), "30".into()), ("height".into(), "10".into())], kids: Some(vec![X::node("div", &[("xmlns", "http://www.w3.org/1999/xhtml")], vec![X::Text("html ".into()), X::node("b", &[], vec![X::Text("bold".into())])])]) },
            _ => self.container(depth),
        }
    }
}


/// ids of the clipPath / mask / filter elements of a tree
fn collect_defs(xs: &[X], out: &mut Vec<(String, String)>) {
    for x in xs {
        if let X::El { name, attrs, kids } = x {
            if matches!(name.as_str(), "clipPath" | "mask" | "filter") {
                if let Some((_, id)) = attrs.iter().find(|(k, _)| k == "id") { out.push((name.clone(), id.clone())); }
            }
            if let Some(ks) = kids { collect_defs(ks, out); }
        }
    }
}

fn add_refs_in(rng: &mut Rng, xs: &mut [X], defs: &[(String, String)], inside_def: bool) {
    for x in xs.iter_mut() {
        if let X::El { name, attrs, kids } = x {
            let here_def = inside_def || matches!(name.as_str(), "clipPath" | "mask" | "filter" | "marker" | "pattern" | "linearGradient" | "symbol" | "defs" | "foreignObject" | "svg");
            let target = matches!(name.as_str(), "rect" | "circle" | "ellipse" | "line" | "polyline" | "polygon" | "path" | "text" | "g" | "use" | "image");
            // the targets of <use> stay unclipped: a clip path may contain a <use> of them, and a shape
            // clipped by a path that uses the shape is a circular reference (an error in SVG itself)
            let use_target = attrs.iter().any(|(k, v)| k == "id" && v.starts_with("shape"));
            if target && !here_def && !use_target && !defs.is_empty() && rng.chance(1, 4) {
                let (kind, id) = rng.pick(defs).clone();
                let key = match kind.as_str() { "clipPath" => "clip-path", "mask" => "mask", _ => "filter" };
                if !attrs.iter().any(|(k, _)| k == key) { attrs.push((key.to_string(), format!("url(#{id})"))); }
            }
            if let Some(ks) = kids { add_refs_in(rng, ks, defs, here_def); }
        }
    }
}

fn add_url_refs(rng: &mut Rng, inner: &mut Vec<X>) {
    let mut defs = vec![];
    collect_defs(inner, &mut defs);
    add_refs_in(rng, inner, &defs, false);
}

#[derive(Debug, Clone, PartialEq)]
enum T { El(String, Vec<(String, String)>, Vec<T>), Text(String) }

fn x_to_t(x: &X) -> Option<T> {
    match x {
        X::El { name, attrs, kids } => Some(T::El(name.clone(), attrs.clone(), kids.as_ref().map(|k| k.iter().filter_map(x_to_t).collect()).unwrap_or_default())),
        X::Text(t) => Some(T::Text(t.clone())),
        X::Comment(_) => None,
    }
}

fn parse_tree(xml: &str) -> Result<Vec<T>, String> {
    let mut rd = quick_xml::Reader::from_str(xml);
    let mut stack: Vec<(String, Vec<(String, String)>, Vec<T>)> = vec![("".into(), vec![], vec![])];
    let attrs_of = |e: &quick_xml::events::BytesStart| -> Vec<(String, String)> { e.attributes().filter_map(|a| a.ok()).map(|a| (String::from_utf8_lossy(a.key.as_ref()).to_string(), a.unescape_value().map(|v| v.to_string()).unwrap_or_default())).collect() };
    loop {
        match rd.read_event() {
            Ok(quick_xml::events::Event::Start(e)) => stack.push((String::from_utf8_lossy(e.name().as_ref()).to_string(), attrs_of(&e), vec![])),
            Ok(quick_xml::events::Event::Empty(e)) => { let t = T::El(String::from_utf8_lossy(e.name().as_ref()).to_string(), attrs_of(&e), vec![]); stack.last_mut().unwrap().2.push(t); }
            Ok(quick_xml::events::Event::End(_)) => { let (n, a, k) = stack.pop().ok_or("unbalanced")?; stack.last_mut().ok_or("unbalanced")?.2.push(T::El(n, a, k)); }
            Ok(quick_xml::events::Event::Text(t)) => { let s = t.unescape().map(|v| v.to_string()).unwrap_or_default(); stack.last_mut().unwrap().2.push(T::Text(s)); }
            Ok(quick_xml::events::Event::CData(t)) => { let s = String::from_utf8_lossy(&t.into_inner()).to_string(); stack.last_mut().unwrap().2.push(T::Text(s)); }
            Ok(quick_xml::events::Event::Eof) => break,
            Ok(_) => {}
            Err(e) => return Err(format!("{e}")),
        }
    }
    if stack.len() != 1 { return Err("unbalanced".into()); }
    Ok(stack.pop().unwrap().2)
}

fn num_eq(a: &str, b: &str) -> bool {
    if a == b { return true; }
    match (a.trim().parse::<f64>(), b.trim().parse::<f64>()) { (Ok(x), Ok(y)) => (x - y).abs() <= 0.0015, _ => false }
}

/// merge adjacent text nodes and drop whitespace-only ones
fn norm_kids(kids: &[T]) -> Vec<T> {
    let mut out: Vec<T> = vec![];
    for k in kids {
        match k {
            T::Text(t) => { if let Some(T::Text(p)) = out.last_mut() { p.push_str(t); } else { out.push(T::Text(t.clone())); } }
            e => out.push(e.clone()),
        }
    }
    out.into_iter().filter(|k| !matches!(k, T::Text(t) if t.trim().is_empty())).collect()
}

/// is `out` the input element `inp` as C04 allows it to come out?
fn same_tree(inp: &T, out: &T, path: &str) -> Result<(), String> {
    match (inp, out) {
        (T::Text(a), T::Text(b)) => if a.trim() == b.trim() { Ok(()) } else { Err(format!("{path}: text {a:?} became {b:?}")) },
        (T::El(n1, a1, k1), T::El(n2, a2, k2)) => {
            if n1 != n2 { return Err(format!("{path}: element <{n1}> became <{n2}>")); }
            let here = format!("{path}/{n1}");
            // a <text> with character-only content is the documented shorthand: it gains the d-text class(es)
            let shorthand = n1 == "text" && k1.iter().all(|k| matches!(k, T::Text(_)));
            for (k, v) in a1 {
                match a2.iter().find(|(k2, _)| k2 == k) {
                    None => return Err(format!("{here}: attribute {k}={v:?} is missing from the output")),
                    Some((_, v2)) => {
                        let ok = num_eq(v, v2) || (k == "class" && shorthand && v2.split_whitespace().filter(|c| !c.starts_with("d-text")).collect::<Vec<_>>() == v.split_whitespace().collect::<Vec<_>>());
                        if !ok { return Err(format!("{here}: attribute {k}={v:?} became {v2:?}")); }
                    }
                }
            }
            for (k, v) in a2 {
                if !a1.iter().any(|(k1, _)| k1 == k) && !(shorthand && k == "class" && v.split_whitespace().all(|c| c.starts_with("d-text"))) {
                    return Err(format!("{here}: the output has an extra attribute {k}={v:?}"));
                }
            }
            let (k1, k2) = (norm_kids(k1), norm_kids(k2));
            if k1.len() != k2.len() { return Err(format!("{here}: {} children became {}", k1.len(), k2.len())); }
            for (i, (a, b)) in k1.iter().zip(k2.iter()).enumerate() { same_tree(a, b, &format!("{here}[{i}]"))?; }
            Ok(())
        }
        (a, b) => Err(format!("{path}: {} became {}", if matches!(a, T::Text(_)) { "text" } else { "an element" }, if matches!(b, T::Text(_)) { "text" } else { "an element" })),
    }
}

pub fn judge(doc_xml_: &str, inner: &[X]) -> Option<(String, String)> {
    let cfg = svgdx::TransformConfig { add_auto_styles: false, ..Default::default() };
    let out = match crate::util::transform(doc_xml_, &cfg) {
        Err(p) => return Some(("panic".into(), format!("panic: {p}"))),
        Ok(Err(e)) => return Some((format!("rejected:{}", err_kind(&e)), format!("standard SVG content makes the transform fail: {}", e.chars().take(300).collect::<String>()))),
        Ok(Ok(o)) => o,
    };
    let tree = match parse_tree(&out) { Ok(t) => t, Err(e) => return Some(("unparseable".into(), e)) };
    let root_kids = match tree.iter().find(|t| matches!(t, T::El(n, _, _) if n == "svg")) { Some(T::El(_, _, k)) => k.clone(), _ => return Some(("no-root".into(), "no root <svg> in the output".into())) };
    let want: Vec<T> = inner.iter().filter_map(x_to_t).collect();
    let (want, got) = (norm_kids(&want), norm_kids(&root_kids));
    if want.len() != got.len() { return Some(("tree".into(), format!("{} top-level nodes became {}", want.len(), got.len()))); }
    for (i, (a, b)) in want.iter().zip(got.iter()).enumerate() {
        if let Err(e) = same_tree(a, b, &format!("svg[{i}]")) {
            let kind = if e.contains("attribute") { "attribute" } else if e.contains("text") { "text" } else { "tree" };
            return Some((kind.into(), e));
        }
    }
    None
}

fn scan_stream(rep: &mut Report, drv: &mut Driver, rng: &mut Rng, n: usize) -> Result<(), String> {
    let mut st = Stream::new("scan/numbers", "correspondence", "path data (all 20 commands, implicit repetition, exponents, leading '+' and '.', numbers separated only by their own sign or point, compact arc flags) and transform lists (6 functions, 1-6 arguments, the same number spellings): hooks path_bbox / transform_apply vs the Lean scanners Path.pathBBox / parseXfList over svgNumberList; every string is legal SVG and must be accepted by both, with the same box");
    for i in 0..n {
        if i % 2 == 0 {
            let d = path_data(rng);
            st.case(&d, true, || json!({"d": d}));
            let dd = d.clone();
            let imp = std::panic::catch_unwind(move || svgdx::verif_hooks::path_bbox(&dd)).map_err(|_| "panic".to_string());
            let m = drv.call("path_bbox", &[&d])?;
            let is = match &imp { Ok(Ok(Some(_))) => "some", Ok(Ok(None)) => "none", _ => "err" };
            let ms = m.first().map(|s| s.as_str()).unwrap_or("");
            if is == "err" {
                rep.violation(Violation { kind: "oracle", stream: st.name.clone(), signature: "C04:rejected:path".into(), what: format!("legal path data is rejected: {d:?}: {:?}", imp), replay: json!({"input": format!("<svg><path d=\"{d}\"/></svg>")}), confirmed_on_impl: true });
            } else if is != ms {
                rep.violation(Violation { kind: "correspondence", stream: st.name.clone(), signature: "scan:path".into(), what: format!("d={d:?}: impl {is} vs model {m:?}"), replay: json!({"d": d}), confirmed_on_impl: false });
            } else {
                // same box?
                if let (Ok(Ok(Some(b))), Some(mb)) = (&imp, m.get(1)) {
                    let want: Vec<f64> = mb.split(' ').filter_map(rat_to_f64).collect();
                    let got = [b[0] as f64, b[1] as f64, b[2] as f64, b[3] as f64];
                    if want.len() == 4 && got.iter().zip(&want).all(|(x, y)| (x - y).abs() <= 0.002 * (1.0 + y.abs())) { st.exact += 1; } else {
                        rep.violation(Violation { kind: "correspondence", stream: st.name.clone(), signature: "scan:path-box".into(), what: format!("d={d:?}: impl {got:?} vs model {mb:?}"), replay: json!({"d": d}), confirmed_on_impl: false });
                    }
                } else { st.exact += 1; }
            }
        } else {
            let t = transform(rng);
            st.case(&t, true, || json!({"transform": t}));
            let doc = format!("<svg><g transform=\"{t}\"><rect width=\"2\" height=\"2\"/></g></svg>");
            let cfg = svgdx::TransformConfig { add_auto_styles: false, ..Default::default() };
            match crate::util::transform(&doc, &cfg) {
                Ok(Ok(_)) => st.exact += 1,
                other => rep.violation(Violation { kind: "oracle", stream: st.name.clone(), signature: "C04:rejected:transform".into(), what: format!("a legal transform list is rejected: {t:?}: {:?}", other.map(|r| r.map(|_| ())).map_err(|e| e)), replay: json!({"input": doc}), confirmed_on_impl: true }),
            }
        }
    }
    rep.streams.push(st);
    // transform lists, legal and malformed (wrong number of arguments, unknown names, stray characters,
    // white space in every legal place): accepted / rejected alike by TransformAttr::from_str + apply and by
    // the model (parseXfList, applyXfList), with the same box on acceptance (translate and scale only move it)
    let mut st = Stream::new("scan/transform-lists", "correspondence", "transform lists from the grammar plus malformed ones (arity errors for all six kinds, unknown names, missing parentheses, white space between name and parenthesis) applied to a box: TransformAttr::from_str + apply (hook transform_apply) vs the Lean model parseXfList + applyXfList - same verdict, same box; non-trivial = every case");
    for i in 0..n / 4 {
        let t = if i % 3 == 0 {
            let name = *rng.pick(&["translate", "scale", "rotate", "skewX", "skewY", "matrix", "Translate", "foo", ""]);
            let k = rng.below(8);
            let v: Vec<String> = (0..k).map(|_| num(rng, -9, 9).0).collect();
            let gap = *rng.pick(&["", "", " ", "\n", "\t "]);
            let tail = *rng.pick(&["", "", "", " x", ")", " scale(2"]);
            format!("{name}{gap}({}){tail}", join_nums(rng, &v))
        } else { transform(rng).replacen('(', *rng.pick(&["(", " (", "\n("]), 1) };
        st.case(&t, true, || json!({"transform": t}));
        let tt = t.clone();
        let imp = std::panic::catch_unwind(move || svgdx::verif_hooks::transform_apply(&tt, [1.0, 2.0, 5.0, 4.0])).map_err(|_| "panic".to_string());
        let m = drv.call("xfrm", &[&t, "1", "2", "5", "4"])?;
        let ms = m.first().map(|s| s.as_str()).unwrap_or("");
        match (&imp, ms) {
            (Ok(Ok(b)), "ok") => {
                let want: Vec<f64> = m.get(1).map(|x| x.split(' ').filter_map(rat_to_f64).collect()).unwrap_or_default();
                let got = [b[0] as f64, b[1] as f64, b[2] as f64, b[3] as f64];
                if want.len() == 4 && got.iter().zip(&want).all(|(x, y)| (x - y).abs() <= 0.002 * (1.0 + y.abs())) { st.exact += 1; st.tally("accepted"); } else {
                    rep.violation(Violation { kind: "correspondence", stream: st.name.clone(), signature: "scan:transform-box".into(), what: format!("transform={t:?}: impl {got:?} vs model {:?}", m.get(1)), replay: json!({"transform": t}), confirmed_on_impl: false });
                }
            }
            (Ok(Err(_)), "err") => { st.exact += 1; st.errors_agreed += 1; st.tally("rejected"); }
            (other, _) => rep.violation(Violation { kind: "correspondence", stream: st.name.clone(), signature: "scan:transform-verdict".into(), what: format!("transform={t:?}: impl {:?} vs model {m:?}", other.as_ref().map(|r| r.as_ref().map(|_| "ok").map_err(|_| "err"))), replay: json!({"transform": t}), confirmed_on_impl: false }),
        }
    }
    rep.streams.push(st);
    Ok(())
}

/// "numbers up to the 3-decimal output rounding": every number svgdx writes goes through `fstr`.
/// The function itself against the Lean model `Num.fstr` on the exact value of the f32 — integers,
/// near-integers on either side, multiples of ten and a hundred with a tiny fraction, values that round
/// to zero or just not, halves of the last digit, large magnitudes — and against its contract: the text
/// parses back to within 0.0005 (relative 1e-6 for large values) of the number.
fn fstr_stream(rep: &mut Report, drv: &mut Driver, rng: &mut Rng, n: usize) -> Result<(), String> {
    let mut st = Stream::new("num/fstr", "correspondence", "fstr (hook) vs the Lean model Num.fstr on the exact decimal value of random f32: integers, k +- up to 0.0006, multiples of 10 / 100 / 1000 with a tiny fraction, |x| in 0.00005 .. 0.0006, third-decimal ties, numbers of 1-7 significant digits, magnitudes up to 4e9; and the contract that the text parses back to the number within half a unit of the third decimal");
    for i in 0..n {
        let tiny = rng.range(-6, 6) as f32 * 0.0001;
        let x: f32 = match i % 8 {
            0 => rng.range(-2000, 2000) as f32,
            1 => rng.range(-300, 300) as f32 + tiny,
            2 => (rng.range(-40, 40) * 10) as f32 + tiny,
            3 => (rng.range(-40, 40) * 100) as f32 + tiny * 0.5,
            4 => rng.range(-12, 12) as f32 * 0.00005,
            5 => rng.range(-100000, 100000) as f32 / 1000.0 + 0.0005 * (rng.below(3) as f32 - 1.0),
            6 => (rng.range(1, 9999999) as f32) / 10f32.powi(rng.range(0, 7) as i32) * if rng.chance(1, 2) { -1.0 } else { 1.0 },
            _ => (rng.range(1, 400) as f32) * 1.0e7 + if rng.chance(1, 2) { 0.0 } else { 128.0 },
        };
        let Some(dec) = dec_of_f32(x) else { st.skipped += 1; continue; };
        st.case(&dec, true, || json!({"x": dec}));
        let imp = svgdx::verif_hooks::fstr(x);
        let m = drv.call("fstr", &[&dec])?;
        let mdl = m.first().cloned().unwrap_or_default();
        if imp == mdl { st.exact += 1; } else {
            rep.violation(Violation { kind: "correspondence", stream: st.name.clone(), signature: "fstr".into(), what: format!("fstr({dec}) = {imp:?}, model {mdl:?}"), replay: json!({"x": dec}), confirmed_on_impl: false });
        }
        let back: Option<f64> = imp.parse::<f64>().ok();
        let ok = match back { Some(b) => (b - x as f64).abs() <= 0.0005 + 1e-6 * (x as f64).abs(), None => false };
        if !ok {
            let doc = format!("<svg><rect x=\"{dec}\" y=\"0\" width=\"5\" height=\"5\"/></svg>");
            rep.violation(Violation { kind: "oracle", stream: st.name.clone(), signature: "C04:number-written-wrong".into(), what: format!("the number {dec} is written as {imp:?}"), replay: json!({"input": doc}), confirmed_on_impl: true });
        }
    }
    rep.streams.push(st);
    Ok(())
}

fn corpus(rep: &mut Report) {
    let mut st = Stream::new("corpus", "oracle", "files of /verif/corpus/C04 (past failures and known findings): the document must transform with every element preserved");
    let dir = std::path::Path::new("/verif/corpus/C04");
    let mut files: Vec<_> = std::fs::read_dir(dir).map(|d| d.filter_map(|e| e.ok()).map(|e| e.path()).collect()).unwrap_or_default();
    files.sort();
    for f in files {
        let Ok(txt) = std::fs::read_to_string(&f) else { continue };
        let Ok(v) = serde_json::from_str::<serde_json::Value>(&txt) else { continue };
        let name = f.file_name().map(|s| s.to_string_lossy().to_string()).unwrap_or_default();
        st.case(&name, true, || json!({"file": name}));
        let sig = v.get("signature").and_then(|s| s.as_str()).unwrap_or("C04:corpus").to_string();
        match judge_value(&v) {
            None => st.exact += 1,
            Some((_, what)) => rep.violation(Violation { kind: "oracle", stream: "corpus".into(), signature: sig, what, replay: v.clone(), confirmed_on_impl: true }),
        }
    }
    rep.streams.push(st);
}

fn judge_value(v: &serde_json::Value) -> Option<(String, String)> {
    let input = v.get("input").and_then(|s| s.as_str()).unwrap_or("");
    // the input tree is recovered from the input itself
    let tree = parse_tree(input).ok()?;
    let kids = match tree.iter().find(|t| matches!(t, T::El(n, _, _) if n == "svg")) { Some(T::El(_, _, k)) => k.clone(), _ => vec![] };
    fn t_to_x(t: &T) -> X { match t { T::Text(s) => X::Text(s.clone()), T::El(n, a, k) => X::El { name: n.clone(), attrs: a.clone(), kids: if k.is_empty() { None } else { Some(k.iter().map(t_to_x).collect()) } } } }
    let inner: Vec<X> = kids.iter().map(t_to_x).collect();
    judge(input, &inner)
}

pub fn replay(rep: &mut Report, v: &serde_json::Value) {
    let mut st = Stream::new("replay", "oracle", "one replay file judged against the implementation");
    st.case("replay", true, || v.clone());
    match judge_value(v) {
        None => st.exact += 1,
        Some((k, what)) => rep.violation(Violation { kind: "oracle", stream: "replay".into(), signature: format!("C04:{k}"), what, replay: v.clone(), confirmed_on_impl: true }),
    }
    rep.streams.push(st);
}

pub fn run(rep: &mut Report, tier: &str, seed: u64) -> Result<(), String> {
    let mut rng = Rng::new(seed);
    let thorough = tier == "thorough";
    let (n_doc, n_scan) = if thorough { (60_000, 200_000) } else { (2_000, 6_000) };
    corpus(rep);
    let mut drv = Driver::start()?;
    let mut orc = Stream::new("oracle/svg-vocabulary", "oracle", "documents of 1-6 top-level nodes from the SVG 1.1 vocabulary - rect / circle / ellipse / line / polyline / polygon / path / image / use (href and xlink:href), text with tspan, g / a / defs / symbol / marker / mask / pattern / clipPath / switch / nested svg, gradients with stops, filters with primitives (feOffset dx/dy), foreignObject with XHTML, title / desc / style - with presentation attributes and values from the number (signs, leading / trailing point, exponents), length (all units, percentages), path, points and transform grammars; root <svg> without the namespace, auto-styles off: the transform succeeds and the output tree under the root equals the input tree (names, attribute sets, values with numbers within 0.0015, text, order); a <text> with character-only content may gain d-text classes");
    let mut corr = Stream::new("doc/svg-vocabulary", "correspondence", "the same documents (without the root element): transform_str events and end-of-run probe vs the Lean control-skeleton / geometry model");
    let lim = Limits::default();
    let mut r1 = rng.fork();
    for _ in 0..n_doc {
        let mut g = Gen { rng: &mut r1, n: 0 };
        let k = 1 + g.rng.below(6);
        // targets for <use>: a rect, a circle, an ellipse, a polygon and a path, none of them at the origin
        let mut inner: Vec<X> = vec![
            X::leaf("rect", &[("id", "shape0"), ("x", "1"), ("y", "2"), ("width", "4"), ("height", "3")]),
            X::leaf("circle", &[("id", "shape1"), ("cx", "7"), ("cy", "-3"), ("r", "2.5")]),
            X::leaf("ellipse", &[("id", "shape2"), ("cx", "-6"), ("cy", "4"), ("rx", "3"), ("ry", "1.5")]),
            X::leaf("polygon", &[("id", "shape3"), ("points", "-9.5 3.5 9.5 -4 -4.5 3 -8 -6")]),
            X::leaf("path", &[("id", "shape4"), ("d", "M 8 -9.5 L 0 -3.5 L 3.5 5.5")]),
        ];
        for _ in 0..k { inner.push(g.node(0)); }
        // references by url(#id) to clip paths, masks and filters that stand earlier OR later in the
        // document (a later one makes the referring element wait for a second pass)
        add_url_refs(g.rng, &mut inner);
        let doc = format!("<svg>{}</svg>", doc_xml(&inner));
        orc.case(&doc, true, || json!({"document": doc}));
        match judge(&doc, &inner) {
            None => orc.exact += 1,
            Some((kind, what)) => rep.violation(Violation { kind: "oracle", stream: orc.name.clone(), signature: format!("C04:{kind}"), what, replay: json!({"input": doc}), confirmed_on_impl: true }),
        }
        let frag = doc_xml(&inner);
        // without a root the first nested <svg> would be taken for the root element
        if frag.contains("<svg") { continue; }
        corr.case(&frag, true, || json!({"document": frag}));
        let imp = run_impl(&frag, lim);
        let mdl = run_model(&mut drv, &inner, lim)?;
        corr.tally(&format!("impl={}", imp.status));
        if mdl.outside { corr.skipped += 1; } else {
            match agree(&imp, &mdl) {
                Ok(()) => corr.exact += 1,
                Err(what) => rep.violation(Violation { kind: "correspondence", stream: corr.name.clone(), signature: "svg-vocabulary".into(), what, replay: json!({"input": frag}), confirmed_on_impl: false }),
            }
        }
    }
    rep.streams.push(orc);
    rep.streams.push(corr);
    scan_stream(rep, &mut drv, &mut rng.fork(), n_scan)?;
    fstr_stream(rep, &mut drv, &mut rng.fork(), n_scan)?;
    Ok(())
}
