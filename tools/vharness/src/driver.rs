//! Client for the Lean model driver (`svgdx_model`), one request line → one response line.
use std::io::{BufRead, BufReader, Write};
use std::process::{Child, ChildStdin, ChildStdout, Command, Stdio};

pub struct Driver {
    child: Child,
    stdin: ChildStdin,
    stdout: BufReader<ChildStdout>,
    pub requests: u64,
}

pub fn esc(s: &str) -> String {
    let mut o = String::with_capacity(s.len());
    for c in s.chars() {
        match c {
            '\t' => o.push_str("\\t"),
            '\n' => o.push_str("\\n"),
            '\r' => o.push_str("\\r"),
            '\\' => o.push_str("\\\\"),
            c => o.push(c),
        }
    }
    o
}

pub fn unesc(s: &str) -> String {
    let mut o = String::with_capacity(s.len());
    let mut it = s.chars();
    while let Some(c) = it.next() {
        if c == '\\' {
            match it.next() {
                Some('t') => o.push('\t'),
                Some('n') => o.push('\n'),
                Some('r') => o.push('\r'),
                Some('\\') => o.push('\\'),
                Some(x) => {
                    o.push('\\');
                    o.push(x)
                }
                None => o.push('\\'),
            }
        } else {
            o.push(c)
        }
    }
    o
}

impl Driver {
    pub fn start() -> Result<Self, String> {
        let path = std::env::var("VERIF_DRIVER")
            .unwrap_or_else(|_| "/verif/lean/.lake/build/bin/svgdx_model".to_string());
        let mut child = Command::new(&path)
            .stdin(Stdio::piped())
            .stdout(Stdio::piped())
            .stderr(Stdio::inherit())
            .spawn()
            .map_err(|e| format!("cannot start model driver {path}: {e}"))?;
        let stdin = child.stdin.take().unwrap();
        let stdout = BufReader::new(child.stdout.take().unwrap());
        Ok(Driver { child, stdin, stdout, requests: 0 })
    }

    /// send `op` with `args`; returns the response fields
    pub fn call(&mut self, op: &str, args: &[&str]) -> Result<Vec<String>, String> {
        let mut line = String::from(op);
        for a in args {
            line.push('\t');
            line.push_str(&esc(a));
        }
        line.push('\n');
        self.stdin.write_all(line.as_bytes()).map_err(|e| format!("driver write: {e}"))?;
        self.stdin.flush().map_err(|e| format!("driver flush: {e}"))?;
        let mut resp = String::new();
        let n = self.stdout.read_line(&mut resp).map_err(|e| format!("driver read: {e}"))?;
        if n == 0 {
            return Err(format!("driver closed the stream on request: {}", line.trim_end()));
        }
        self.requests += 1;
        let resp = resp.trim_end_matches('\n');
        Ok(resp.split('\t').map(unesc).collect())
    }
}

impl Drop for Driver {
    fn drop(&mut self) {
        let _ = self.child.kill();
        let _ = self.child.wait();
    }
}
