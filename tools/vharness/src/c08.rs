//! C08 — root extent: viewBox, width and height enclose exactly the drawn content.
use crate::c09::B;
use crate::ctl::*;
use crate::driver::Driver;
use crate::report::*;
use crate::rng::Rng;
use crate::util::*;
use serde_json::json;

fn union(a: Option<B>, b: Option<B>) -> Option<B> {
    match (a, b) {
        (Some(a), Some(b)) => Some([a[0].min(b[0]), a[1].min(b[1]), a[2].max(b[2]), a[3].max(b[3])]),
        (x, None) => x,
        (None, y) => y,
    }
}

fn f(v: f64) -> String { fstr_ref(v) }

struct Scene {
    nodes: Vec<X>,
    extent: Option<B>,
    clip_id: Option<(String, B)>,
    n: usize,
    /// (id, own box) of shapes generated so far: targets for `<use>`
    targets: Vec<(String, B)>,
}

/// one rendered (or not) item at absolute coordinates; returns (node, contributed box)
fn item_inner(rng: &mut Rng, sc: &mut Scene, depth: usize) -> (X, Option<B>) {
    sc.n += 1;
    let id = format!("i{}", sc.n);
    let g = |rng: &mut Rng| rng.range(-60, 60) as f64 / 2.0;
    let s = |rng: &mut Rng| 2.0 * rng.range(1, 15) as f64;
    match rng.below(if depth >= 2 { 9 } else { 14 }) {
        0 | 1 => { let (x, y, w, h) = (g(rng), g(rng), s(rng), s(rng)); (X::leaf("rect", &[("id", &id), ("x", &f(x)), ("y", &f(y)), ("width", &f(w)), ("height", &f(h))]), Some([x, y, x + w, y + h])) }
        2 => { let (x, y, r) = (g(rng), g(rng), s(rng) / 2.0); (X::leaf("circle", &[("id", &id), ("cx", &f(x)), ("cy", &f(y)), ("r", &f(r))]), Some([x - r, y - r, x + r, y + r])) }
        3 => { let (x, y, rx, ry) = (g(rng), g(rng), s(rng) / 2.0, s(rng) / 2.0); (X::leaf("ellipse", &[("id", &id), ("cx", &f(x)), ("cy", &f(y)), ("rx", &f(rx)), ("ry", &f(ry))]), Some([x - rx, y - ry, x + rx, y + ry])) }
        4 => { let (a, b, c, d) = (g(rng), g(rng), g(rng), g(rng)); (X::leaf("line", &[("id", &id), ("x1", &f(a)), ("y1", &f(b)), ("x2", &f(c)), ("y2", &f(d))]), Some([a.min(c), b.min(d), a.max(c), b.max(d)])) }
        5 => {
            let pts: Vec<(f64, f64)> = (0..3 + rng.below(3)).map(|_| (g(rng), g(rng))).collect();
            let name = if rng.chance(1, 2) { "polyline" } else { "polygon" };
            let sep = if rng.chance(1, 2) { ", " } else { " " };
            let txt = pts.iter().map(|(x, y)| format!("{} {}", f(*x), f(*y))).collect::<Vec<_>>().join(sep);
            let bx = pts.iter().fold(None, |acc, (x, y)| union(acc, Some([*x, *y, *x, *y])));
            (X::leaf(name, &[("id", &id), ("points", &txt)]), bx)
        }
        6 => {
            let pts: Vec<(f64, f64)> = (0..2 + rng.below(3)).map(|_| (g(rng), g(rng))).collect();
            let mut d = format!("M {} {}", f(pts[0].0), f(pts[0].1));
            for p in &pts[1..] { d.push_str(&format!(" L {} {}", f(p.0), f(p.1))); }
            if rng.chance(1, 3) { d.push_str(" Z"); }
            let bx = pts.iter().fold(None, |acc, (x, y)| union(acc, Some([*x, *y, *x, *y])));
            (X::leaf("path", &[("id", &id), ("d", &d)]), bx)
        }
        7 => { let (x, y, w, h) = (g(rng), g(rng), s(rng), s(rng)); (X::leaf("box", &[("id", &id), ("x", &f(x)), ("y", &f(y)), ("width", &f(w)), ("height", &f(h))]), Some([x, y, x + w, y + h])) }
        // a point adds nothing to the extent, with or without a label (generated text adds nothing either)
        8 => { let (x, y) = (g(rng), g(rng)); if rng.chance(1, 2) { (X::leaf("point", &[("id", &id), ("x", &f(x)), ("y", &f(y)), ("text", "p")]), None) } else { (X::leaf("point", &[("id", &id), ("x", &f(x)), ("y", &f(y))]), None) } }
        9 | 10 => {
            // group with optional translate / scale and optional clip-path
            let k = 1 + rng.below(3);
            let mut kids = vec![];
            let mut bx = None;
            for _ in 0..k { let (n, b) = item(rng, sc, depth + 1); kids.push(n); bx = union(bx, b); }
            let mut attrs: Vec<(String, String)> = vec![("id".into(), id.clone())];
            if rng.chance(2, 3) {
                let mut ts = vec![];
                let mut apply: Vec<Box<dyn Fn(B) -> B>> = vec![];
                for _ in 0..1 + rng.below(2) {
                    if rng.chance(1, 2) {
                        let (tx, ty) = (g(rng), g(rng));
                        ts.push(if rng.chance(1, 2) { format!("translate({} {})", f(tx), f(ty)) } else { format!("translate({}, {})", f(tx), f(ty)) });
                        apply.push(Box::new(move |b: B| [b[0] + tx, b[1] + ty, b[2] + tx, b[3] + ty]));
                    } else {
                        let (sx, sy) = (*rng.pick(&[2.0, 0.5, -1.0, 1.5, -2.0]), *rng.pick(&[1.0, 2.0, 0.5, -1.0]));
                        ts.push(format!("scale({} {})", f(sx), f(sy)));
                        apply.push(Box::new(move |b: B| { let (a, c) = (b[0] * sx, b[2] * sx); let (d, e) = (b[1] * sy, b[3] * sy); [a.min(c), d.min(e), a.max(c), d.max(e)] }));
                    }
                }
                attrs.push(("transform".into(), ts.join(" ")));
                // SVG applies the list right-to-left to the content
                bx = bx.map(|mut b| { for t in apply.iter().rev() { b = t(b); } b });
            }
            if let (Some((cid, cb)), true) = (&sc.clip_id, rng.chance(1, 4)) {
                attrs.push(("clip-path".into(), format!("url(#{cid})")));
                bx = bx.and_then(|b| { let r = [b[0].max(cb[0]), b[1].max(cb[1]), b[2].min(cb[2]), b[3].min(cb[3])]; if r[2] - r[0] >= 0.0 && r[3] - r[1] >= 0.0 { Some(r) } else { None } });
            }
            (X::El { name: "g".into(), attrs, kids: Some(kids) }, bx)
        }
        11 => {
            // content that is never rendered in place: adds nothing
            let (n, _) = item(rng, sc, depth + 2);
            let wrapper = *rng.pick(&["defs", "symbol", "specs", "marker", "pattern", "mask"]);
            (X::node(wrapper, &[("id", &id)], vec![n]), None)
        }
        12 => {
            // a standalone text counts by its anchor point - also when that point is the origin, where its
            // box is (0, 0, 0, 0): a box like any other, wherever it stands among its siblings
            let (x, y) = if rng.chance(1, 3) { (0.0, 0.0) } else { (g(rng), g(rng)) };
            if (x, y) == (0.0, 0.0) && rng.chance(1, 2) { (X::leaf("rect", &[("id", &id), ("x", "0"), ("y", "0"), ("width", "0"), ("height", "0")]), Some([0.0, 0.0, 0.0, 0.0])) }
            else { (X::leaf("text", &[("id", &id), ("x", &f(x)), ("y", &f(y)), ("text", "label")]), Some([x, y, x, y])) }
        }
        _ => {
            // a shape with text: the generated text adds nothing
            let (x, y, w, h) = (g(rng), g(rng), s(rng), s(rng));
            (X::leaf("rect", &[("id", &id), ("x", &f(x)), ("y", &f(y)), ("width", &f(w)), ("height", &f(h)), ("text", "inside"), ("text-loc", *rng.pick(&["t", "br", "c"]))]), Some([x, y, x + w, y + h]))
        }
    }
}

/// as `item_inner`, and sometimes a `<use>` of an earlier rect / line / polyline / path with x and / or y
/// (a missing one is 0): the instance's box is the target's own box moved by (x, y)
fn item(rng: &mut Rng, sc: &mut Scene, depth: usize) -> (X, Option<B>) {
    if !sc.targets.is_empty() && rng.chance(1, 7) {
        sc.n += 1;
        let id = format!("i{}", sc.n);
        let (tid, tb) = sc.targets[rng.below(sc.targets.len())].clone();
        let (dx, dy) = (rng.range(-40, 40) as f64 / 2.0, rng.range(-40, 40) as f64 / 2.0);
        let href = format!("#{tid}");
        let mut attrs: Vec<(&str, String)> = vec![("id", id.clone()), ("href", href)];
        let (mut mx, mut my) = (0.0, 0.0);
        match rng.below(4) {
            0 => { attrs.push(("x", f(dx))); mx = dx; }
            1 => { attrs.push(("y", f(dy))); my = dy; }
            2 => {}
            _ => { attrs.push(("x", f(dx))); attrs.push(("y", f(dy))); mx = dx; my = dy; }
        }
        let mut bx = [tb[0] + mx, tb[1] + my, tb[2] + mx, tb[3] + my];
        // a transform on the <use> itself applies to the instance, outside the x / y shift
        if rng.chance(1, 3) {
            if rng.chance(1, 2) {
                let (tx, ty) = (rng.range(-30, 30) as f64 / 2.0, rng.range(-30, 30) as f64 / 2.0);
                attrs.push(("transform", format!("translate({} {})", f(tx), f(ty))));
                bx = [bx[0] + tx, bx[1] + ty, bx[2] + tx, bx[3] + ty];
            } else {
                let (sx, sy) = (*rng.pick(&[2.0, 0.5, -1.0, 1.5]), *rng.pick(&[1.0, 2.0, -1.0]));
                attrs.push(("transform", format!("scale({} {})", f(sx), f(sy))));
                let (a, c) = (bx[0] * sx, bx[2] * sx); let (d, e) = (bx[1] * sy, bx[3] * sy);
                bx = [a.min(c), d.min(e), a.max(c), d.max(e)];
            }
        }
        let av: Vec<(&str, &str)> = attrs.iter().map(|(k, v)| (*k, v.as_str())).collect();
        return (X::leaf("use", &av), Some(bx));
    }
    let (mut n, mut b) = item_inner(rng, sc, depth);
    // a clip path on a plain shape (not one that will serve as a <use> target)
    if let (X::El { name, attrs, kids: None }, Some(bx), Some((cid, cb))) = (&mut n, b, sc.clip_id.clone()) {
        if matches!(name.as_str(), "circle" | "ellipse") && rng.chance(1, 3) {
            attrs.push(("clip-path".into(), format!("url(#{cid})")));
            let r = [bx[0].max(cb[0]), bx[1].max(cb[1]), bx[2].min(cb[2]), bx[3].min(cb[3])];
            b = if r[2] - r[0] >= 0.0 && r[3] - r[1] >= 0.0 { Some(r) } else { None };
        }
    }
    if let (X::El { name, attrs, kids: None }, Some(bx)) = (&n, b) {
        if matches!(name.as_str(), "rect" | "line" | "polyline" | "polygon" | "path") && !attrs.iter().any(|(k, _)| k == "text") {
            if let Some((_, id)) = attrs.iter().find(|(k, _)| k == "id") {
                sc.targets.push((id.clone(), bx));
            }
        }
    }
    (n, b)
}

struct Case {
    doc: Vec<X>,
    border: u16,
    scale: f32,
    /// what the TransformConfig says (the document may set either again)
    given_border: u16,
    given_scale: f32,
    root_attrs: Vec<(String, String)>,
    extent: Option<B>,
}

fn gen_case(rng: &mut Rng) -> Case {
    let mut sc = Scene { nodes: vec![], extent: None, clip_id: None, n: 0, targets: vec![] };
    if rng.chance(1, 3) {
        let (x, y, w, h) = (rng.range(-20, 20) as f64, rng.range(-20, 20) as f64, 2.0 * rng.range(3, 20) as f64, 2.0 * rng.range(3, 20) as f64);
        let inner = X::leaf("rect", &[("x", &f(x)), ("y", &f(y)), ("width", &f(w)), ("height", &f(h))]);
        if rng.chance(1, 2) {
            // a clip path that is itself clipped by a second one (written before or after it): the region
            // is the intersection; the second one always covers the centre of the first
            let (cx, cy) = (x + w / 2.0, y + h / 2.0);
            let (w2, h2) = (2.0 * rng.range(2, 12) as f64, 2.0 * rng.range(2, 12) as f64);
            let (x2, y2) = (cx - rng.range(1, (w2 as i64) - 1) as f64, cy - rng.range(1, (h2 as i64) - 1) as f64);
            let c1 = X::node("clipPath", &[("id", "clip"), ("clip-path", "url(#clip2)")], vec![inner]);
            let c2 = X::node("clipPath", &[("id", "clip2")], vec![X::leaf("rect", &[("x", &f(x2)), ("y", &f(y2)), ("width", &f(w2)), ("height", &f(h2))])]);
            sc.nodes.push(X::node("defs", &[], if rng.chance(1, 2) { vec![c1, c2] } else { vec![c2, c1] }));
            sc.clip_id = Some(("clip".into(), [x.max(x2), y.max(y2), (x + w).min(x2 + w2), (y + h).min(y2 + h2)]));
        } else {
            sc.nodes.push(X::node("defs", &[], vec![X::node("clipPath", &[("id", "clip")], vec![inner])]));
            sc.clip_id = Some(("clip".into(), [x, y, x + w, y + h]));
        }
    }
    let k = 1 + rng.below(6);
    if rng.chance(1, 8) {
        // the first thing with a box is a text anchored at the origin
        sc.n += 1;
        sc.nodes.push(X::leaf("text", &[("id", &format!("o{}", sc.n)), ("x", "0"), ("y", "0"), ("text", "origin")]));
        sc.extent = union(sc.extent, Some([0.0, 0.0, 0.0, 0.0]));
    }
    for _ in 0..k {
        let (n, b) = item(rng, &mut sc, 0);
        sc.nodes.push(n);
        sc.extent = union(sc.extent, b);
    }
    let mut root_attrs: Vec<(String, String)> = vec![];
    match rng.below(8) {
        0 => root_attrs.push(("width".into(), format!("{}{}", rng.range(2, 40) * 5, rng.pick(&["mm", "px", "cm", ""])))),
        1 => root_attrs.push(("height".into(), format!("{}{}", rng.range(2, 40) * 5, rng.pick(&["mm", "px", "in", ""])))),
        2 => { root_attrs.push(("width".into(), "120mm".into())); root_attrs.push(("height".into(), "80mm".into())); }
        3 => root_attrs.push(("viewBox".into(), "0 0 100 50".into())),
        4 => { root_attrs.push(("viewBox".into(), "-10 -10 60 60".into())); root_attrs.push(("width".into(), "30cm".into())); }
        _ => {}
    }
    if rng.chance(1, 5) { root_attrs.push(("version".into(), "1.2".into())); }
    if rng.chance(1, 5) { root_attrs.push(("data-author".into(), "me".into())); }
    if rng.chance(1, 5) { root_attrs.push(("xmlns:xlink".into(), "http://www.w3.org/1999/xlink".into())); }
    // border and scale as the configuration gives them ... and, one case in four, one or both of them set
    // again by <config> elements in the document: a <config> changes what it names and nothing else
    let (given_border, given_scale) = (*rng.pick(&[0u16, 5, 5, 10, 3]), *rng.pick(&[1.0f32, 1.0, 2.0, 0.5, 1.5]));
    let (mut border, mut scale) = (given_border, given_scale);
    let mut nodes = sc.nodes;
    if rng.chance(1, 4) {
        let mut cfgs: Vec<X> = vec![];
        let which = rng.below(3);
        if which != 1 { border = *rng.pick(&[2u16, 7, 0]); cfgs.push(X::leaf("config", &[("border", &border.to_string())])); }
        if which != 0 { scale = *rng.pick(&[2.0f32, 0.5, 3.0]); cfgs.push(X::leaf("config", &[("scale", &f(scale as f64))])); }
        if rng.chance(1, 2) { cfgs.reverse(); }
        for (i, c) in cfgs.into_iter().enumerate() { nodes.insert(i.min(nodes.len()), c); }
    }
    let doc = vec![X::El { name: "svg".into(), attrs: root_attrs.clone(), kids: Some(nodes) }];
    Case { doc, border, scale, given_border, given_scale, root_attrs, extent: sc.extent }
}

/// the property evaluated on the implementation's root element
fn oracle(case: &Case, root: &El) -> Option<String> {
    let get = |k: &str| root.get(k).map(|s| s.to_string());
    let author = |k: &str| case.root_attrs.iter().find(|(a, _)| a == k).map(|(_, v)| v.clone());
    for k in ["width", "height", "viewBox", "version", "data-author", "xmlns:xlink"] {
        if let Some(v) = author(k) {
            if get(k).as_deref() != Some(v.as_str()) { return Some(format!("author-supplied {k}=\"{v}\" not kept verbatim: {:?}", get(k))); }
        }
    }
    if author("version").is_none() && get("version").is_none() { return Some("version missing".into()); }
    if get("xmlns").as_deref() != Some("http://www.w3.org/2000/svg") { return Some("namespace missing".into()); }
    let Some(e) = case.extent else {
        // nothing rendered: no geometry is synthesised
        return None;
    };
    let b = case.border as f64;
    let ex = [(e[0] - b).floor(), (e[1] - b).floor(), (e[2] + b).ceil(), (e[3] + b).ceil()];
    let (w, h) = (ex[2] - ex[0], ex[3] - ex[1]);
    if author("viewBox").is_none() {
        let want = format!("{} {} {} {}", f(ex[0]), f(ex[1]), f(w), f(h));
        if get("viewBox").as_deref() != Some(want.as_str()) { return Some(format!("viewBox is {:?}, drawn content grown by border {} and rounded outward is \"{want}\"", get("viewBox"), case.border)); }
    }
    let num_unit = |s: &str| -> (f64, String) { let i = s.find(|c: char| !(c.is_ascii_digit() || c == '.' || c == '-')).unwrap_or(s.len()); (s[..i].parse().unwrap_or(f64::NAN), s[i..].to_string()) };
    match (author("width"), author("height")) {
        (None, None) => {
            let (ww, wh) = (format!("{}mm", f(w * case.scale as f64)), format!("{}mm", f(h * case.scale as f64)));
            if get("width").as_deref() != Some(ww.as_str()) || get("height").as_deref() != Some(wh.as_str()) { return Some(format!("width/height are {:?}/{:?}, extent {w}x{h} times scale {} is {ww}/{wh}", get("width"), get("height"), case.scale)); }
        }
        // a degenerate extent has no aspect ratio: nothing can be derived
        (Some(_), None) | (None, Some(_)) if w <= 0.0 || h <= 0.0 => {}
        (Some(aw), None) => {
            let (v, u) = num_unit(&aw);
            let (gv, gu) = num_unit(&get("height").unwrap_or_default());
            if gu != u || (gv - v * h / w).abs() > 0.0011 { return Some(format!("height {:?} does not follow width {aw} by the aspect ratio {w}:{h}", get("height"))); }
        }
        (None, Some(ah)) => {
            let (v, u) = num_unit(&ah);
            let (gv, gu) = num_unit(&get("width").unwrap_or_default());
            if gu != u || (gv - v * w / h).abs() > 0.0011 { return Some(format!("width {:?} does not follow height {ah} by the aspect ratio {w}:{h}", get("width"))); }
        }
        _ => {}
    }
    None
}

/// The model flags (field 1 = "2") a derived root dimension that the code's f32 arithmetic does not
/// hold exactly (e.g. 135 * 75 / 77): there the last printed digit may differ by rounding, so the
/// root's width / height are compared numerically to 0.001 (same unit), everything else exactly.
fn agree_mod_derived(imp: &[String], mdl: &[String]) -> bool {
    if imp.len() != mdl.len() { return false; }
    for (a, b) in imp.iter().zip(mdl.iter()) {
        if a == b { continue; }
        if !(a.starts_with("S svg") || a.starts_with("L svg")) || a[..2] != b[..2] { return false; }
        let (ea, eb) = (El::decode(&a[2..]), El::decode(&b[2..]));
        if ea.name != eb.name || ea.attrs.len() != eb.attrs.len() { return false; }
        for ((ka, va), (kb, vb)) in ea.attrs.iter().zip(eb.attrs.iter()) {
            if ka != kb { return false; }
            if va == vb { continue; }
            if ka != "width" && ka != "height" { return false; }
            let split = |v: &str| { let i = v.find(|c: char| !(c.is_ascii_digit() || c == '.' || c == '-')).unwrap_or(v.len()); (v[..i].parse::<f64>().ok(), v[i..].to_string()) };
            match (split(va), split(vb)) {
                ((Some(x), ua), (Some(y), ub)) if ua == ub && (x - y).abs() <= 0.0011 => {}
                _ => return false,
            }
        }
    }
    true
}

pub fn run(rep: &mut Report, tier: &str, seed: u64) -> Result<(), String> {
    let mut rng = Rng::new(seed);
    let mut drv = Driver::start()?;
    let n = if tier == "thorough" { 60_000 } else { 2_000 };
    let mut corr = Stream::new(
        "doc/root-and-extent",
        "correspondence",
        "documents <svg …>content</svg> with 1-6 top-level items: rect / circle / ellipse / line / polyline / polygon / path / box / point / standalone text / shape with text, groups (nested up to 3) with translate / scale lists incl. negative factors and clip-path, content inside defs / symbol / specs / marker / pattern / mask; border in {0,3,5,10}, scale in {0.5,1,1.5,2}, author root attributes drawn from subsets of {width with unit, height with unit, viewBox} plus version / data-*; all output elements including the synthesised root vs the Lean whole-document model (control skeleton + root attributes), attribute for attribute; non-trivial = every case",
    );
    let mut orc = Stream::new(
        "oracle/extent",
        "oracle",
        "same documents; E = union of the boxes of what is rendered (computed by the generator from the scene: shapes by attributes, text by anchor, groups through translate/scale and clip-path, boxes included, points / defs / symbol / specs / marker / pattern / mask content and generated text excluded), grown by the border, rounded outward: viewBox = E, width/height = size x scale in mm, author-supplied values verbatim, a single supplied dimension determines the other by E's aspect ratio with the same unit, version and namespace added only when missing",
    );
    for _ in 0..n {
        let case = gen_case(&mut rng);
        let xml = doc_xml(&case.doc);
        let cfg = svgdx::TransformConfig { border: case.given_border, scale: case.given_scale, add_auto_styles: false, ..Default::default() };
        corr.case(&xml, true, || json!({"document": xml, "border": case.border, "scale": case.scale}));
        orc.case(&xml, true, || json!({"document": xml, "extent": case.extent.map(|b| b.to_vec())}));
        corr.tally(&format!("root-attrs={}", case.root_attrs.iter().map(|(k, _)| k.as_str()).collect::<Vec<_>>().join("+")));
        let mut args: Vec<String> = // the model's root computation takes border and scale as arguments and its <config> has no border / scale of
        // its own: it is handed the values in force after the document's <config> elements (named keys replace,
        // the others keep what the configuration gave)
        vec![case.border.to_string(), f(case.scale as f64), "1000".into(), "1024".into(), "100".into()];
        args.extend(doc_toks(&case.doc));
        let argr: Vec<&str> = args.iter().map(|s| s.as_str()).collect();
        let m = drv.call("doc_transform", &argr)?;
        match transform(&xml, &cfg) {
            Err(p) => rep.violation(Violation { kind: "oracle", stream: orc.name.clone(), signature: "C08:panic".into(), what: format!("panic: {p}"), replay: json!({"input": xml}), confirmed_on_impl: true }),
            Ok(Err(e)) => {
                if m[0].starts_with("err") { corr.errors_agreed += 1; } else if m.get(1).map(|s| s.as_str()) == Some("1") { corr.skipped += 1; } else {
                    rep.violation(Violation { kind: "correspondence", stream: corr.name.clone(), signature: "doc:impl-error".into(), what: format!("implementation fails ({e}), model succeeds"), replay: json!({"input": xml}), confirmed_on_impl: false });
                }
                rep.violation(Violation { kind: "oracle", stream: orc.name.clone(), signature: format!("C08:error:{}", err_kind(&e)), what: format!("valid document rejected: {e}"), replay: json!({"input": xml}), confirmed_on_impl: true });
            }
            Ok(Ok(out)) => {
                let imp_evs = element_events(&out).unwrap_or_default();
                if m.get(1).map(|s| s.as_str()) == Some("1") { corr.skipped += 1; } else {
                    let mdl: Vec<String> = m[2..].iter().filter(|e| e.starts_with("S ") || e.starts_with("L ") || e.starts_with("E ")).cloned().collect();
                    if m[0] == "ok" && imp_evs == mdl { corr.exact += 1; }
                    else if m[0] == "ok" && m.get(1).map(|s| s.as_str()) == Some("2") && agree_mod_derived(&imp_evs, &mdl) { corr.tally("derived-dimension-inexact-in-f32:compared-to-0.001"); corr.exact += 1; }
                    else {
                        let idx = imp_evs.iter().zip(mdl.iter()).position(|(a, b)| a != b).unwrap_or(imp_evs.len().min(mdl.len()));
                        rep.violation(Violation { kind: "correspondence", stream: corr.name.clone(), signature: format!("doc:event:{}", imp_evs.get(idx).map(|e| e.split('\u{1f}').next().unwrap_or("").to_string()).unwrap_or_default()), what: format!("status {} event {idx}: impl {:?} vs model {:?}", m[0], imp_evs.get(idx), mdl.get(idx)), replay: json!({"input": xml, "border": case.border, "scale": case.scale}), confirmed_on_impl: false });
                    }
                }
                let root = imp_evs.iter().find(|e| e.starts_with("S svg") || e.starts_with("L svg")).map(|e| El::decode(&e[2..]));
                match root.as_ref().and_then(|r| oracle(&case, r).map(|w| (w, r.xml()))) {
                    Some((what, rx)) => rep.violation(Violation { kind: "oracle", stream: orc.name.clone(), signature: format!("C08:{}", what.split(' ').next().unwrap_or("")), what: format!("{what}; root: {rx}"), replay: json!({"input": xml, "border": case.border, "scale": case.scale, "extent": case.extent.map(|b| b.to_vec())}), confirmed_on_impl: true }),
                    None if root.is_some() => orc.exact += 1,
                    None => rep.violation(Violation { kind: "oracle", stream: orc.name.clone(), signature: "C08:no-root".into(), what: "no root <svg> in the output".into(), replay: json!({"input": xml}), confirmed_on_impl: true }),
                }
            }
        }
    }
    rep.streams.push(corr);
    rep.streams.push(orc);
    Ok(())
}
