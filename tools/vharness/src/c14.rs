//! C14 — `{{…}}` expressions follow conventional semantics.
//!
//! Streams:
//!  * `expr/tree`      correspondence: generated expression trees, implementation (hook) vs Lean model
//!  * `expr/malformed` correspondence + oracle: malformed expressions must fail, with the same error class
//!  * `expr/soup`      correspondence: random character / token strings (tokenizer and scanner quirks)
//!  * `expr/entry`     correspondence: `eval_vars`, `eval_condition`, `eval_list`
//!  * `oracle/tree`    oracle: the same trees evaluated by the reference evaluator below (written from
//!                     docs/mdbook/src/reference/expressions.md and the documented function list, in f32)
//!  * `oracle/doc`     oracle: expressions placed in attribute contexts of whole documents; values and
//!                     the number of random draws (once per occurrence per rendered element)
use crate::driver::Driver;
use crate::report::*;
use crate::rng::Rng;
use crate::util::*;
use serde_json::json;

// ---------------------------------------------------------------------------------------------
// Reference random source: PCG32 (XSH-RR 64/32) seeded as rand_core's `seed_from_u64` documents,
// `random::<f32>()` = top 24 bits · 2⁻²⁴, `random_range(lo..=hi)` = widening multiply with one
// bias-reducing redraw (rand 0.9). Written from the algorithm descriptions, not from svgdx.
// ---------------------------------------------------------------------------------------------
#[derive(Clone)]
pub struct RefPcg {
    state: u64,
    inc: u64,
    pub draws: u32,
}

const PCG_MUL: u64 = 6364136223846793005;

fn pcg_out(state: u64) -> u32 {
    let xsh = (((state >> 18) ^ state) >> 27) as u32;
    xsh.rotate_right((state >> 59) as u32)
}

impl RefPcg {
    pub fn seed(seed: u64) -> Self {
        let mut s = seed;
        let mut w = [0u32; 4];
        for x in w.iter_mut() {
            s = s.wrapping_mul(PCG_MUL).wrapping_add(11634580027462260723);
            *x = pcg_out(s);
        }
        let st = (w[0] as u64) | ((w[1] as u64) << 32);
        let inc = ((w[2] as u64) | ((w[3] as u64) << 32)) | 1;
        let mut p = RefPcg { state: st.wrapping_add(inc), inc, draws: 0 };
        p.state = p.state.wrapping_mul(PCG_MUL).wrapping_add(p.inc);
        p
    }
    pub fn next_u32(&mut self) -> u32 {
        let s = self.state;
        self.state = s.wrapping_mul(PCG_MUL).wrapping_add(self.inc);
        self.draws += 1;
        pcg_out(s)
    }
    pub fn random_f32(&mut self) -> f32 {
        (self.next_u32() >> 8) as f32 * (1.0 / 16777216.0)
    }
    pub fn range_i32(&mut self, lo: i32, hi: i32) -> i32 {
        let range = (hi.wrapping_sub(lo).wrapping_add(1)) as u32;
        if range == 0 {
            return self.next_u32() as i32;
        }
        let m = (self.next_u32() as u64) * (range as u64);
        let (mut res, lo_w) = ((m >> 32) as u32, m as u32);
        if lo_w > range.wrapping_neg() {
            let new_hi = (((self.next_u32() as u64) * (range as u64)) >> 32) as u32;
            if lo_w.checked_add(new_hi).is_none() {
                res += 1;
            }
        }
        lo.wrapping_add(res as i32)
    }
}

/// documented output format: at most 3 decimals, trailing zeros trimmed, tiny values are 0
pub fn fstr32(x: f32) -> String {
    if x.abs() < 0.0001 {
        return "0".into();
    }
    let s = format!("{:.3}", x as f64);
    if s.contains('.') {
        s.trim_end_matches('0').trim_end_matches('.').to_string()
    } else {
        s
    }
}

// ---------------------------------------------------------------------------------------------
// Expression trees
// ---------------------------------------------------------------------------------------------
#[derive(Clone, Debug)]
pub enum E {
    Num(String),
    Str(String, char),
    Var(String, bool), // name, braced
    Neg(Box<E>),
    Bin(char, Box<E>, Box<E>),
    Cmp(&'static str, Box<E>, Box<E>),
    Log(&'static str, Box<E>, Box<E>),
    Call(&'static str, Vec<E>),
    Tuple(Vec<E>),
}

#[derive(Clone, Debug)]
pub enum VarKind {
    /// literal number or list of numbers: textual substitution = value semantics in the contexts used
    Lit(Vec<String>),
    /// a quoted string literal
    StrLit(String),
    /// an expression; only reached through a `Ref` (value semantics via `lookup`)
    Expr(Vec<E>),
    /// `$other`
    Ref(String),
}

#[derive(Clone, Debug)]
pub struct VarDef {
    pub name: String,
    pub text: String,
    pub kind: VarKind,
}

pub const FUNCS: [&str; 53] = [
    "abs", "ceil", "floor", "fract", "sign", "divmod", "sqrt", "log", "exp", "pow", "sin", "cos", "tan", "asin", "acos",
    "atan", "random", "randint", "min", "max", "sum", "product", "mean", "clamp", "mix", "eq", "ne", "lt", "le", "gt",
    "ge", "if", "not", "and", "or", "xor", "swap", "r2p", "p2r", "select", "addv", "subv", "scalev", "head", "tail",
    "empty", "count", "in", "split", "splitw", "trim", "join", "_",
];
const LIBM: [&str; 13] = ["log", "exp", "pow", "sin", "cos", "tan", "asin", "acos", "atan", "r2p", "p2r", "sqrt_never", "hypot_never"];

fn prec(e: &E) -> u8 {
    match e {
        E::Bin('+', ..) | E::Bin('-', ..) => 3,
        E::Bin(..) => 4,
        E::Cmp(..) => 2,
        E::Log(..) => 1,
        _ => 5,
    }
}

fn sp(rng: &mut Rng) -> &'static str {
    match rng.below(10) {
        0..=5 => "",
        6..=8 => " ",
        _ => *rng.pick(&["  ", "\t", " \t "]),
    }
}

fn quote(s: &str, q: char) -> String {
    let mut o = String::new();
    o.push(q);
    for c in s.chars() {
        match c {
            '\\' => o.push_str("\\\\"),
            '\n' => o.push_str("\\n"),
            c if c == q => {
                o.push('\\');
                o.push(c)
            }
            c => o.push(c),
        }
    }
    o.push(q);
    o
}

/// print with the parentheses precedence requires, plus redundant ones and random spacing
pub fn print(e: &E, min: u8, rng: &mut Rng, redundant: usize) -> String {
    let raw = match e {
        E::Num(s) => s.clone(),
        E::Str(s, q) => quote(s, *q),
        E::Var(n, braced) => {
            if *braced {
                format!("${{{n}}}")
            } else {
                format!("${n}")
            }
        }
        E::Neg(x) => format!("-{}{}", sp(rng), print(x, 5, rng, redundant)),
        E::Bin(op, l, r) => {
            let p = prec(e);
            format!("{}{}{}{}{}", print(l, p, rng, redundant), sp(rng), op, sp(rng), print(r, p + 1, rng, redundant))
        }
        E::Cmp(op, l, r) => format!("{} {}{} {}", print(l, 3, rng, redundant), op, sp(rng), print(r, 3, rng, redundant)),
        E::Log(op, l, r) => format!("{} {}{} {}", print(l, 1, rng, redundant), op, sp(rng), print(r, 2, rng, redundant)),
        E::Call(f, args) => {
            let a: Vec<String> = args.iter().map(|a| format!("{}{}{}", sp(rng), print(a, 1, rng, redundant), sp(rng))).collect();
            format!("{}{}({})", f, sp(rng), a.join(","))
        }
        E::Tuple(items) => {
            let a: Vec<String> = items.iter().map(|a| format!("{}{}{}", sp(rng), print(a, 1, rng, redundant), sp(rng))).collect();
            format!("({})", a.join(","))
        }
    };
    let needs = prec(e) < min;
    // a word operator next to a parenthesis is fine; redundant parentheses only add List wrappers
    if needs || (redundant > 0 && rng.chance(1, redundant)) {
        format!("({}{}{})", sp(rng), raw, sp(rng))
    } else {
        raw
    }
}

pub fn print_top(items: &[E], rng: &mut Rng, redundant: usize) -> String {
    let a: Vec<String> = items.iter().map(|a| format!("{}{}{}", sp(rng), print(a, 1, rng, redundant), sp(rng))).collect();
    a.join(",")
}

fn walk(e: &E, f: &mut dyn FnMut(&E)) {
    f(e);
    match e {
        E::Neg(x) => walk(x, f),
        E::Bin(_, l, r) | E::Cmp(_, l, r) | E::Log(_, l, r) => {
            walk(l, f);
            walk(r, f)
        }
        E::Call(_, a) | E::Tuple(a) => a.iter().for_each(|x| walk(x, f)),
        _ => {}
    }
}

fn depth(e: &E) -> usize {
    match e {
        E::Neg(x) => 1 + depth(x),
        E::Bin(_, l, r) | E::Cmp(_, l, r) | E::Log(_, l, r) => 1 + depth(l).max(depth(r)),
        E::Call(_, a) | E::Tuple(a) => 1 + a.iter().map(depth).max().unwrap_or(0),
        _ => 1,
    }
}

// ---------------------------------------------------------------------------------------------
// Reference evaluator (the oracle): conventional semantics on f32, every value a flat list of atoms
// ---------------------------------------------------------------------------------------------
#[derive(Clone, Debug, PartialEq)]
pub enum V {
    N(f32),
    S(String),
    T(String),
}

#[derive(Debug)]
pub enum Stop {
    /// the expression is malformed / ill-typed: the implementation must fail
    Fail(String),
    /// outside the documented domain (NaN ordering, non-integer index …): nothing is claimed
    Undef(String),
}

pub struct Cx<'a> {
    pub env: &'a [VarDef],
    pub rng: RefPcg,
    pub active: Vec<String>,
    pub occurrences: u32,
}

fn fail<T>(s: &str) -> Result<T, Stop> {
    Err(Stop::Fail(s.to_string()))
}
fn undef<T>(s: &str) -> Result<T, Stop> {
    Err(Stop::Undef(s.to_string()))
}

fn one(v: &[V]) -> Result<f32, Stop> {
    match v {
        [V::N(x)] => Ok(*x),
        _ => fail("a single number is required"),
    }
}
fn nums(v: &[V]) -> Result<Vec<f32>, Stop> {
    v.iter().map(|a| if let V::N(x) = a { Ok(*x) } else { fail("numbers are required") }).collect()
}
fn strs(v: &[V]) -> Result<Vec<String>, Stop> {
    v.iter().map(|a| match a { V::S(s) | V::T(s) => Ok(s.clone()), _ => fail("strings are required") }).collect()
}
fn b(x: bool) -> Vec<V> {
    vec![V::N(if x { 1.0 } else { 0.0 })]
}
fn n1(x: f32) -> Vec<V> {
    vec![V::N(x)]
}
fn index(x: f32) -> Result<usize, Stop> {
    if x.is_finite() && x >= 0.0 && x == x.trunc() && x < 1e6 { Ok(x as usize) } else { undef("index is not a small non-negative integer") }
}

pub fn eval(e: &E, cx: &mut Cx) -> Result<Vec<V>, Stop> {
    Ok(match e {
        E::Num(s) => match s.parse::<f32>() {
            Ok(x) => n1(x),
            Err(_) => return fail("not a number"),
        },
        E::Str(s, _) => vec![V::S(s.clone())],
        E::Var(name, _) => {
            let Some(def) = cx.env.iter().find(|d| &d.name == name) else { return fail("undefined variable") };
            match &def.kind {
                VarKind::Lit(items) => {
                    let mut out = vec![];
                    for it in items {
                        match it.parse::<f32>() {
                            Ok(x) => out.push(V::N(x)),
                            Err(_) => return fail("not a number"),
                        }
                    }
                    out
                }
                VarKind::StrLit(s) => vec![V::S(s.clone())],
                // referred to directly only where the generators know the value is evaluated as an expression of
                // its own (conditions): value semantics, as through a reference variable
                VarKind::Expr(items) => {
                    if cx.active.contains(name) { return fail("circular variable reference"); }
                    cx.active.push(name.clone());
                    let mut out = vec![];
                    for it in items {
                        out.extend(eval(it, cx)?);
                    }
                    cx.active.pop();
                    out
                }
                VarKind::Ref(target) => {
                    // value semantics of the referenced variable; a reference chain that comes back is circular
                    let mut cur = target.clone();
                    let mut seen = vec![name.clone()];
                    loop {
                        if seen.contains(&cur) || cx.active.contains(&cur) {
                            return fail("circular variable reference");
                        }
                        let Some(d) = cx.env.iter().find(|d| d.name == cur) else { return fail("undefined variable") };
                        match &d.kind {
                            VarKind::Ref(t) => {
                                seen.push(cur.clone());
                                cur = t.clone();
                            }
                            VarKind::Expr(items) => {
                                cx.active.push(cur.clone());
                                let mut out = vec![];
                                for it in items {
                                    out.extend(eval(it, cx)?);
                                }
                                cx.active.pop();
                                break out;
                            }
                            _ => {
                                let r = eval(&E::Var(cur.clone(), false), cx)?;
                                break r;
                            }
                        }
                    }
                }
            }
        }
        E::Neg(x) => n1(-one(&eval(x, cx)?)?),
        E::Bin(op, l, r) => {
            let a = one(&eval(l, cx)?)?;
            let c = one(&eval(r, cx)?)?;
            n1(match op {
                '+' => a + c,
                '-' => a - c,
                '*' => a * c,
                '/' => a / c,
                _ => a.rem_euclid(c),
            })
        }
        E::Cmp(op, l, r) => {
            let a = one(&eval(l, cx)?)?;
            let c = one(&eval(r, cx)?)?;
            b(match *op {
                "eq" => a == c,
                "ne" => a != c,
                "gt" => a > c,
                "ge" => a >= c,
                "lt" => a < c,
                _ => a <= c,
            })
        }
        E::Log(op, l, r) => {
            // both operands are always evaluated (no short circuit)
            let a = one(&eval(l, cx)?)? != 0.0;
            let c = one(&eval(r, cx)?)? != 0.0;
            b(match *op {
                "and" => a && c,
                "or" => a || c,
                _ => a != c,
            })
        }
        E::Tuple(items) => {
            let mut out = vec![];
            for it in items {
                out.extend(eval(it, cx)?);
            }
            out
        }
        E::Call(f, args) => {
            let mut a = vec![];
            for it in args {
                a.extend(eval(it, cx)?);
            }
            call(f, &a, cx)?
        }
    })
}

fn call(f: &str, a: &[V], cx: &mut Cx) -> Result<Vec<V>, Stop> {
    let un = |g: &dyn Fn(f32) -> f32| -> Result<Vec<V>, Stop> { Ok(n1(g(one(a)?))) };
    let two = || -> Result<(f32, f32), Stop> {
        let v = nums(a)?;
        if v.len() == 2 { Ok((v[0], v[1])) } else { fail("two numbers are required") }
    };
    let three = || -> Result<(f32, f32, f32), Stop> {
        let v = nums(a)?;
        if v.len() == 3 { Ok((v[0], v[1], v[2])) } else { fail("three numbers are required") }
    };
    Ok(match f {
        "abs" => un(&|x| x.abs())?,
        "ceil" => un(&|x| x.ceil())?,
        "floor" => un(&|x| x.floor())?,
        "fract" => un(&|x| x - x.trunc())?,
        "sign" => {
            let x = one(a)?;
            if x.is_nan() { return undef("sign of NaN"); }
            n1(if x < 0.0 { -1.0 } else if x > 0.0 { 1.0 } else { 0.0 })
        }
        "sqrt" => un(&|x| x.sqrt())?,
        "log" => un(&|x| x.ln())?,
        "exp" => un(&|x| x.exp())?,
        "sin" => un(&|x| x.to_radians().sin())?,
        "cos" => un(&|x| x.to_radians().cos())?,
        "tan" => un(&|x| x.to_radians().tan())?,
        "asin" => un(&|x| x.asin().to_degrees())?,
        "acos" => un(&|x| x.acos().to_degrees())?,
        "atan" => un(&|x| x.atan().to_degrees())?,
        "not" => un(&|x| if x == 0.0 { 1.0 } else { 0.0 })?,
        "pow" => { let (x, y) = two()?; n1(x.powf(y)) }
        "divmod" => { let (x, n) = two()?; vec![V::N(x.div_euclid(n)), V::N(x.rem_euclid(n))] }
        "lt" => { let (x, y) = two()?; b(x < y) }
        "le" => { let (x, y) = two()?; b(x <= y) }
        "gt" => { let (x, y) = two()?; b(x > y) }
        "ge" => { let (x, y) = two()?; b(x >= y) }
        "and" => { let (x, y) = two()?; b(x != 0.0 && y != 0.0) }
        "or" => { let (x, y) = two()?; b(x != 0.0 || y != 0.0) }
        "xor" => { let (x, y) = two()?; b((x != 0.0) != (y != 0.0)) }
        "r2p" => { let (x, y) = two()?; vec![V::N(x.hypot(y)), V::N(y.atan2(x).to_degrees())] }
        "p2r" => { let (r, t) = two()?; let t = t.to_radians(); vec![V::N(r * t.cos()), V::N(r * t.sin())] }
        "eq" | "ne" => {
            if a.len() != 2 { return fail("two values are required"); }
            b((a[0] == a[1]) == (f == "eq"))
        }
        "swap" => {
            if a.len() != 2 { return fail("two values are required"); }
            vec![a[1].clone(), a[0].clone()]
        }
        "random" => {
            if !a.is_empty() { return undef("random() takes no arguments"); }
            cx.occurrences += 1;
            n1(cx.rng.random_f32())
        }
        "randint" => {
            let (lo, hi) = two()?;
            if !(lo.is_finite() && hi.is_finite() && lo.abs() < 2e9 && hi.abs() < 2e9 && lo == lo.trunc() && hi == hi.trunc()) {
                return undef("randint bounds are not integers");
            }
            if lo > hi { return fail("randint: min > max"); }
            cx.occurrences += 1;
            n1(cx.rng.range_i32(lo as i32, hi as i32) as f32)
        }
        "min" | "max" => {
            let v = nums(a)?;
            if v.is_empty() { return fail("at least one value is required"); }
            if v.iter().any(|x| x.is_nan()) { return undef("ordering with NaN"); }
            let mut m = v[0];
            for &x in &v[1..] {
                if (f == "min" && x < m) || (f == "max" && x > m) { m = x; }
            }
            // -0 and +0 compare equal: which of them is "the" extremum is not specified
            if m == 0.0 && v.iter().any(|x| *x == 0.0 && x.is_sign_negative() != m.is_sign_negative()) {
                return undef("extremum among zeros of both signs");
            }
            n1(m)
        }
        // the IEEE additive identity is -0.0 (x + -0.0 = x for every x, including -0.0)
        "sum" => n1(nums(a)?.iter().fold(-0.0f32, |s, x| s + x)),
        "product" => n1(nums(a)?.iter().fold(1.0f32, |s, x| s * x)),
        "mean" => {
            let v = nums(a)?;
            if v.is_empty() { return fail("at least one value is required"); }
            n1(v.iter().fold(-0.0f32, |s, x| s + x) / v.len() as f32)
        }
        "clamp" => {
            let (x, lo, hi) = three()?;
            if x.is_nan() || lo.is_nan() || hi.is_nan() { return undef("clamp with NaN"); }
            if lo > hi { return fail("clamp: min > max"); }
            n1(if x < lo { lo } else if x > hi { hi } else { x })
        }
        "mix" => { let (s, e, t) = three()?; n1(s * (1.0 - t) + e * t) }
        "if" => {
            if a.len() != 3 { return fail("three values are required"); }
            let c = one(&a[0..1])?;
            vec![if c != 0.0 { a[1].clone() } else { a[2].clone() }]
        }
        "select" => {
            if a.len() < 2 { return fail("select needs an index and at least one value"); }
            let i = index(one(&a[0..1])?)?;
            match a[1..].get(i) { Some(v) => vec![v.clone()], None => return fail("select index out of range") }
        }
        "addv" | "subv" => {
            let v = nums(a)?;
            if v.len() % 2 != 0 { return fail("an even number of values is required"); }
            let h = v.len() / 2;
            (0..h).map(|i| V::N(if f == "addv" { v[i] + v[i + h] } else { v[i] - v[i + h] })).collect()
        }
        "scalev" => {
            let v = nums(a)?;
            if v.len() < 2 { return fail("a scale and at least one value are required"); }
            v[1..].iter().map(|x| V::N(v[0] * x)).collect()
        }
        "head" => a.first().map(|x| vec![x.clone()]).unwrap_or_default(),
        "tail" => a.iter().skip(1).cloned().collect(),
        "empty" => b(a.is_empty()),
        "count" => n1(a.len() as f32),
        "in" => {
            if a.is_empty() { return fail("in needs a value"); }
            b(a[1..].contains(&a[0]))
        }
        "split" => {
            let s = strs(a)?;
            if s.len() != 2 { return fail("two strings are required"); }
            if s[0].is_empty() { return undef("split on the empty string"); }
            s[1].split(s[0].as_str()).map(|p| V::S(p.to_string())).collect()
        }
        "splitw" => {
            let s = strs(a)?;
            if s.len() != 1 { return fail("one string is required"); }
            s[0].split_ascii_whitespace().map(|p| V::S(p.to_string())).collect()
        }
        "trim" => {
            let s = strs(a)?;
            if s.len() != 1 { return fail("one string is required"); }
            vec![V::S(s[0].trim().to_string())]
        }
        "join" => {
            let s = strs(a)?;
            if s.is_empty() { return fail("join needs a separator"); }
            vec![V::S(s[1..].join(&s[0]))]
        }
        "_" => {
            let s = strs(a)?;
            if s.len() != 1 { return fail("one string is required"); }
            vec![V::T(s[0].clone())]
        }
        _ => return fail("unknown function"),
    })
}

/// displayed result; `None` when a string atom would have to be shown (its quoting is not documented)
pub fn show(v: &[V]) -> Option<String> {
    let mut parts = vec![];
    for a in v {
        match a {
            V::N(x) => parts.push(fstr32(*x)),
            V::T(t) => parts.push(t.clone()),
            V::S(_) => return None,
        }
    }
    Some(parts.join(", "))
}

pub fn eval_top(items: &[E], env: &[VarDef], seed: u64) -> (Result<Vec<V>, Stop>, u32, u32) {
    let mut cx = Cx { env, rng: RefPcg::seed(seed), active: vec![], occurrences: 0 };
    let mut out = vec![];
    for it in items {
        match eval(it, &mut cx) {
            Ok(v) => out.extend(v),
            Err(s) => return (Err(s), cx.rng.draws, cx.occurrences),
        }
    }
    (Ok(out), cx.rng.draws, cx.occurrences)
}

// ---------------------------------------------------------------------------------------------
// Generators
// ---------------------------------------------------------------------------------------------
pub struct Gen<'a> {
    pub rng: &'a mut Rng,
    pub env: Vec<VarDef>,
    pub allow_random: bool,
    pub allow_strings: bool,
    /// expression variables may be referred to directly (not only through a reference variable): right
    /// where the value of a variable is evaluated as a sub-expression - conditions - and wrong where `$v` is
    /// substituted textually before the expression is read (attributes)
    pub direct_expr_vars: bool,
}

fn lit(rng: &mut Rng) -> String {
    match rng.below(12) {
        0..=3 => format!("{}", rng.below(21)),
        4 => format!("{}", rng.below(2000)),
        5 => format!("{}.{}", rng.below(50), rng.below(10)),
        6 => format!("{}.{:03}", rng.below(10), rng.below(1000)),
        7 => format!("{}.5", rng.below(100)),
        8 => rng.pick(&["0.25", ".5", "2.", "0.125", "0.001", "0.0004", "100.75", "7.", ".75"]).to_string(),
        9 => rng.pick(&["1e3", "2E2", "1.5e2", "25e1", "1e0", "3e4"]).to_string(),
        10 => rng.pick(&["0", "1", "2", "3", "10", "90", "180", "360", "45", "30", "60"]).to_string(),
        _ => format!("{}", rng.below(7)),
    }
}

const WORDS: [&str; 10] = ["a", "bc", "hello", "x y", " pad ", "a,b,c", "one two  three", "", "it's", "back\\slash"];

impl<'a> Gen<'a> {
    pub fn new(rng: &'a mut Rng) -> Self {
        Gen { rng, env: vec![], allow_random: true, allow_strings: true, direct_expr_vars: false }
    }

    /// scalar / list / string literal variables, expression variables and references to them
    pub fn make_env(&mut self) {
        let n = self.rng.below(5);
        for i in 0..n {
            let name = format!("{}{}", self.rng.pick(&["v", "w", "k_", "n", "Val"]), i);
            match self.rng.below(10) {
                0..=3 => {
                    let neg = self.rng.chance(1, 4);
                    let l = lit(self.rng);
                    let t = if neg { format!("-{l}") } else { l };
                    self.env.push(VarDef { name, text: t.clone(), kind: VarKind::Lit(vec![t]) });
                }
                4..=5 => {
                    let k = 1 + self.rng.below(4);
                    let items: Vec<String> = (0..k).map(|_| if self.rng.chance(1, 5) { format!("-{}", lit(self.rng)) } else { lit(self.rng) }).collect();
                    let sep = *self.rng.pick(&[", ", ",", " , "]);
                    self.env.push(VarDef { name, text: items.join(sep), kind: VarKind::Lit(items) });
                }
                6 if self.allow_strings => {
                    let w = self.rng.pick(&WORDS).to_string();
                    self.env.push(VarDef { name, text: quote(&w, '\''), kind: VarKind::StrLit(w) });
                }
                _ => {
                    // expression variable + a reference to it
                    let d = self.rng.below(4) + 1;
                    let k = if self.rng.chance(1, 4) { 2 } else { 1 };
                    let items: Vec<E> = (0..k).map(|_| self.num(d)).collect();
                    let text = print_top(&items, self.rng, 8);
                    let braced = self.rng.chance(1, 2);
                    let rname = format!("r{i}");
                    self.env.push(VarDef { name: name.clone(), text, kind: VarKind::Expr(items) });
                    self.env.push(VarDef { name: rname, text: if braced { format!("${{{name}}}") } else { format!("${name}") }, kind: VarKind::Ref(name) });
                }
            }
        }
    }

    fn vars_where(&self, p: impl Fn(&VarDef) -> bool) -> Vec<String> {
        self.env.iter().filter(|d| p(d)).map(|d| d.name.clone()).collect()
    }

    fn var(&mut self, names: &[String]) -> E {
        let n = names[self.rng.below(names.len())].clone();
        E::Var(n, self.rng.chance(1, 3))
    }

    fn scalar_vars(&self) -> Vec<String> {
        let env = &self.env;
        let direct = self.direct_expr_vars;
        self.vars_where(|d| match &d.kind {
            VarKind::Expr(items) if direct => items.len() == 1,
            VarKind::Lit(v) => v.len() == 1,
            VarKind::Ref(t) => env.iter().any(|e| &e.name == t && matches!(&e.kind, VarKind::Expr(items) if items.len() == 1)),
            _ => false,
        })
    }
    fn list_vars(&self) -> Vec<String> {
        self.vars_where(|d| matches!(&d.kind, VarKind::Lit(_) | VarKind::Ref(_)))
    }
    fn str_vars(&self) -> Vec<String> {
        self.vars_where(|d| matches!(&d.kind, VarKind::StrLit(_)))
    }

    fn bx(&mut self, d: usize) -> Box<E> {
        Box::new(self.num(d))
    }

    /// an expression denoting one number
    pub fn num(&mut self, d: usize) -> E {
        if d == 0 || self.rng.chance(1, 6) {
            let sv = self.scalar_vars();
            return match self.rng.below(10) {
                0..=1 if !sv.is_empty() => self.var(&sv),
                2 if self.allow_random => E::Call("random", vec![]),
                _ => E::Num(lit(self.rng)),
            };
        }
        let d = d - 1;
        match self.rng.below(40) {
            0..=3 => E::Bin('+', self.bx(d), self.bx(d)),
            4..=7 => E::Bin('-', self.bx(d), self.bx(d)),
            8..=10 => E::Bin('*', self.bx(d), self.bx(d)),
            11..=12 => E::Bin('/', self.bx(d), self.bx(d)),
            13..=14 => E::Bin('%', self.bx(d), self.bx(d)),
            15..=16 => E::Neg(self.bx(d)),
            17..=18 => E::Cmp(*self.rng.pick(&["eq", "ne", "gt", "ge", "lt", "le"]), self.bx(d), self.bx(d)),
            19..=20 => E::Log(*self.rng.pick(&["and", "or", "xor"]), self.bx(d), self.bx(d)),
            21..=24 => {
                let f = *self.rng.pick(&["abs", "ceil", "floor", "fract", "sign", "sqrt", "log", "exp", "sin", "cos", "tan", "asin", "acos", "atan", "not"]);
                E::Call(f, vec![self.num(d)])
            }
            25..=26 => {
                let f = *self.rng.pick(&["pow", "lt", "le", "gt", "ge", "and", "or", "xor", "eq", "ne"]);
                E::Call(f, vec![self.num(d), self.num(d)])
            }
            27 => {
                let f = *self.rng.pick(&["clamp", "mix", "if"]);
                if f == "clamp" && self.rng.chance(3, 4) {
                    let lo = self.rng.below(10);
                    E::Call(f, vec![self.num(d), E::Num(format!("{lo}")), E::Num(format!("{}", lo + self.rng.below(10)))])
                } else {
                    E::Call(f, vec![self.num(d), self.num(d), self.num(d)])
                }
            }
            28..=30 => {
                let f = *self.rng.pick(&["min", "max", "sum", "product", "mean", "count", "empty"]);
                E::Call(f, self.items(d, true))
            }
            31 => {
                let mut a = vec![self.num(d)];
                a.extend(self.items(d, false));
                E::Call("in", a)
            }
            32 => {
                let vals = self.items(d, true);
                let n = vals.len().max(1);
                let mut a = vec![E::Num(format!("{}", self.rng.below(n + 1)))];
                a.extend(vals);
                E::Call("select", a)
            }
            33 => {
                let mut a = vec![self.num(d)];
                a.extend(self.items(d, false));
                E::Call("head", a)
            }
            34 if self.allow_random => {
                let lo = self.rng.range(-5, 20);
                let hi = lo + self.rng.range(0, 12);
                let mk = |v: i64| if v < 0 { E::Neg(Box::new(E::Num(format!("{}", -v)))) } else { E::Num(format!("{v}")) };
                if self.rng.chance(1, 12) { E::Call("randint", vec![self.num(d), self.num(d)]) } else { E::Call("randint", vec![mk(lo), mk(hi)]) }
            }
            35 if self.allow_random => E::Call("random", vec![]),
            36 if self.allow_strings => {
                // numbers out of strings
                match self.rng.below(4) {
                    0 => E::Call("count", vec![self.strlist(d)]),
                    1 => E::Call("eq", vec![self.string(d), self.string(d)]),
                    2 => E::Call("ne", vec![self.string(d), self.string(d)]),
                    _ => { let mut a = vec![self.string(d)]; a.push(self.strlist(d)); E::Call("in", a) }
                }
            }
            37 => {
                // first / second of a pair-valued function
                let pair = self.pair(d);
                E::Call(*self.rng.pick(&["head", "sum", "max"]), vec![pair])
            }
            _ => E::Num(lit(self.rng)),
        }
    }

    /// a pair-valued call
    fn pair(&mut self, d: usize) -> E {
        let f = *self.rng.pick(&["divmod", "r2p", "p2r", "swap"]);
        E::Call(f, vec![self.num(d), self.num(d)])
    }

    /// a list of numbers as one expression
    pub fn list(&mut self, d: usize) -> E {
        let lv = self.list_vars();
        match self.rng.below(10) {
            0..=1 if !lv.is_empty() => self.var(&lv),
            2 => self.pair(d),
            3 => {
                let k = self.rng.below(4);
                let mut a = vec![];
                for _ in 0..2 * k { a.push(self.num(d)); }
                E::Call(*self.rng.pick(&["addv", "subv"]), a)
            }
            4 => {
                let mut a = vec![self.num(d)];
                a.extend(self.items(d, false));
                E::Call("scalev", a)
            }
            5 => E::Call("tail", self.items(d, true)),
            6 => E::Tuple(vec![]),
            _ => E::Tuple(self.items(d, true)),
        }
    }

    /// argument items: numbers and lists of numbers
    fn items(&mut self, d: usize, may_be_empty: bool) -> Vec<E> {
        let k = if may_be_empty && self.rng.chance(1, 12) { 0 } else { 1 + self.rng.below(4) };
        (0..k).map(|_| if d > 0 && self.rng.chance(1, 5) { self.list(d - 1) } else { self.num(d.saturating_sub(1)) }).collect()
    }

    pub fn string(&mut self, d: usize) -> E {
        let sv = self.str_vars();
        match self.rng.below(10) {
            0 if !sv.is_empty() => self.var(&sv),
            1 if d > 0 => E::Call("trim", vec![self.string(d - 1)]),
            2 if d > 0 => { let mut a = vec![E::Str(self.rng.pick(&[",", "-", " ", "", "::"]).to_string(), '\'')]; a.push(self.strlist(d - 1)); E::Call("join", a) }
            3 if d > 0 => E::Call("if", vec![self.num(d - 1), self.string(d - 1), self.string(d - 1)]),
            4 if d > 0 => E::Call("head", vec![self.string(d - 1), self.strlist(d - 1)]),
            _ => {
                let w = self.rng.pick(&WORDS).to_string();
                E::Str(w, *self.rng.pick(&['\'', '\'', '"']))
            }
        }
    }

    pub fn strlist(&mut self, d: usize) -> E {
        match self.rng.below(6) {
            0 => E::Call("split", vec![E::Str(self.rng.pick(&[",", " ", "l", "ab"]).to_string(), '\''), self.string(d.saturating_sub(1))]),
            1 => E::Call("splitw", vec![self.string(d.saturating_sub(1))]),
            2 if d > 0 => E::Call("tail", vec![self.strlist(d - 1)]),
            _ => {
                let k = self.rng.below(4);
                E::Tuple((0..k).map(|_| self.string(d.saturating_sub(1))).collect())
            }
        }
    }

    /// a whole `{{…}}` body: one or several comma separated items
    pub fn top(&mut self, d: usize) -> Vec<E> {
        match self.rng.below(12) {
            0..=6 => vec![self.num(d)],
            7 => (0..1 + self.rng.below(3)).map(|_| self.num(d.saturating_sub(1))).collect(),
            8 => vec![self.list(d.saturating_sub(1))],
            9 => { let mut v = vec![self.num(d.saturating_sub(1))]; v.push(self.list(d.saturating_sub(1))); v }
            10 if self.allow_strings => vec![E::Call("_", vec![self.string(d.saturating_sub(1))])],
            11 if self.allow_strings => { if self.rng.chance(1, 2) { vec![self.string(d.saturating_sub(1))] } else { vec![self.strlist(d.saturating_sub(1))] } }
            _ => vec![self.num(d)],
        }
    }
}

/// a `${v}` or `$v` directly before the closing `}}` would be cut by the `}}` scan: keep them apart
fn pad(body: &str) -> &'static str {
    let tail: String = body.chars().rev().take_while(|c| c.is_ascii_alphanumeric() || *c == '_' || *c == '}').collect();
    let before = body.chars().rev().nth(tail.chars().count());
    if body.ends_with('}') || before == Some('$') || before == Some('{') { " " } else { "" }
}

fn tally_tree(st: &mut Stream, items: &[E]) {
    let mut d = 0;
    for it in items {
        d = d.max(depth(it));
        let mut names: Vec<String> = vec![];
        walk(it, &mut |e| match e {
            E::Bin(op, ..) => names.push(format!("op={op}")),
            E::Cmp(op, ..) => names.push(format!("op={op}")),
            E::Log(op, ..) => names.push(format!("op={op}")),
            E::Neg(_) => names.push("op=neg".into()),
            E::Call(f, _) => names.push(format!("fn={f}")),
            E::Var(..) => names.push("leaf=var".into()),
            E::Num(_) => names.push("leaf=num".into()),
            E::Str(..) => names.push("leaf=str".into()),
            E::Tuple(_) => names.push("node=tuple".into()),
        });
        for n in names {
            st.tally(&n);
        }
    }
    st.tally(&format!("depth={}", if d >= 12 { "12+".to_string() } else { format!("{d:02}") }));
    if items.len() > 1 {
        st.tally("top=list");
    }
}

fn uses_libm(items: &[E], env: &[VarDef]) -> bool {
    let mut hit = false;
    for it in items {
        walk(it, &mut |e| {
            if let E::Call(f, _) = e {
                if LIBM.contains(f) { hit = true; }
            }
        });
    }
    for d in env {
        if let VarKind::Expr(items) = &d.kind {
            for it in items {
                walk(it, &mut |e| {
                    if let E::Call(f, _) = e {
                        if LIBM.contains(f) { hit = true; }
                    }
                });
            }
        }
    }
    hit
}

// ---------------------------------------------------------------------------------------------
// Implementation and model access
// ---------------------------------------------------------------------------------------------
#[derive(Debug, Clone, PartialEq)]
pub enum Out {
    Ok(String, u32),
    Err(String),
    Panic(String),
}

fn pairs(env: &[VarDef]) -> Vec<(String, String)> {
    env.iter().map(|d| (d.name.clone(), d.text.clone())).collect()
}

fn panic_msg(p: Box<dyn std::any::Any + Send>) -> String {
    if let Some(s) = p.downcast_ref::<String>() { s.clone() } else if let Some(s) = p.downcast_ref::<&str>() { s.to_string() } else { "panic".into() }
}

pub fn impl_eval_attr(vars: &[(String, String)], seed: u64, value: &str) -> Out {
    let (v, s) = (vars.to_vec(), value.to_string());
    match std::panic::catch_unwind(move || svgdx::verif_hooks::eval_attr_with(&v, seed, &s)) {
        Ok((Ok(s), d)) => Out::Ok(s, d.unwrap_or(u32::MAX)),
        Ok((Err(e), _)) => Out::Err(err_kind(&e)),
        Err(p) => Out::Panic(panic_msg(p)),
    }
}

fn driver_args(seed: u64, vars: &[(String, String)], values: &[&str]) -> Vec<String> {
    let mut a = vec![seed.to_string(), vars.len().to_string()];
    for (k, v) in vars {
        a.push(k.clone());
        a.push(v.clone());
    }
    for v in values {
        a.push(v.to_string());
    }
    a
}

pub fn model_eval_attr(drv: &mut Driver, vars: &[(String, String)], seed: u64, value: &str) -> Result<Out, String> {
    let a = driver_args(seed, vars, &[value]);
    let ar: Vec<&str> = a.iter().map(|s| s.as_str()).collect();
    let r = drv.call("expr_eval_attr", &ar)?;
    match r.first().map(|s| s.as_str()) {
        Some("ok") if r.len() >= 3 => Ok(Out::Ok(r[1].clone(), r[2].parse().unwrap_or(u32::MAX))),
        Some("err") if r.len() >= 2 && r[1] == "panic" => Ok(Out::Panic("model: panic site".into())),
        Some("err") if r.len() >= 2 => Ok(Out::Err(r[1].clone())),
        _ => Err(format!("driver answered {:?} to eval_attr {:?}", r, value)),
    }
}

fn same_err(i: &str, m: &str) -> bool {
    i == m || (m == "ReferenceError" && i == "MissingBoundingBox")
}

fn close(a: &str, b: &str) -> bool {
    let pa: Vec<&str> = a.split(", ").collect();
    let pb: Vec<&str> = b.split(", ").collect();
    pa.len() == pb.len()
        && pa.iter().zip(pb.iter()).all(|(x, y)| {
            x == y
                || match (x.parse::<f64>(), y.parse::<f64>()) {
                    (Ok(p), Ok(q)) => (p - q).abs() <= 0.0015 + 1e-5 * p.abs().max(q.abs()),
                    _ => false,
                }
        })
}

/// compare implementation and model on one attribute value; returns a violation text
fn compare(st: &mut Stream, imp: &Out, mdl: &Out, libm: bool) -> Option<(String, String)> {
    match (imp, mdl) {
        (Out::Ok(a, da), Out::Ok(b, db)) => {
            if da != db {
                return Some(("draws".into(), format!("implementation took {da} random words, model {db} (values {a:?} / {b:?})")));
            }
            if a == b {
                st.exact += 1;
                None
            } else if libm && close(a, b) {
                st.tolerance += 1;
                None
            } else {
                Some(("value".into(), format!("implementation {a:?} vs model {b:?}")))
            }
        }
        (Out::Err(a), Out::Err(b)) => {
            if same_err(a, b) {
                st.errors_agreed += 1;
                st.tally(&format!("error={a}"));
                None
            } else {
                Some(("error-kind".into(), format!("implementation fails with {a}, model with {b}")))
            }
        }
        (Out::Panic(_), Out::Panic(_)) => {
            st.errors_agreed += 1;
            st.tally("error=panic-site");
            None
        }
        (a, b) => Some(("outcome".into(), format!("implementation {a:?} vs model {b:?}"))),
    }
}

fn env_json(env: &[VarDef]) -> serde_json::Value {
    json!(env.iter().map(|d| json!([d.name, d.text])).collect::<Vec<_>>())
}

// ---------------------------------------------------------------------------------------------
// Stream a + c: generated trees — correspondence and oracle on the same cases
// ---------------------------------------------------------------------------------------------
fn tree_streams(rep: &mut Report, drv: &mut Driver, rng: &mut Rng, n: usize) -> Result<(), String> {
    let mut corr = Stream::new(
        "expr/tree",
        "correspondence",
        "expression trees over number literals (integers, decimals, exponents), scalar / list / string / expression variables (direct, braced, by reference), + - * / %, unary minus, eq ne gt ge lt le, and or xor, all 53 functions, tuples, nested to depth 12+, printed with minimal or redundant parentheses and random spacing, inside an attribute value with surrounding text; implementation eval_attr vs Lean model (Float32), value text, error class and random words compared; non-trivial = depth >= 3",
    );
    let mut orc = Stream::new(
        "oracle/tree",
        "oracle",
        "the same trees evaluated by the reference evaluator (conventional semantics in f32, written from the reference documentation): value, failure of ill-typed / malformed trees, and one random draw per random()/randint() occurrence (randint may take a second word); cases outside the documented domain (NaN ordering, shown strings, non-integer indices) are counted as skipped",
    );
    for case in 0..n {
        let mut g = Gen::new(rng);
        g.allow_random = !g.rng.chance(1, 3);
        g.allow_strings = !g.rng.chance(1, 3);
        g.make_env();
        let d = match g.rng.below(10) { 0..=4 => 2 + g.rng.below(3), 5..=7 => 5 + g.rng.below(4), _ => 9 + g.rng.below(5) };
        let items = g.top(d);
        let env = std::mem::take(&mut g.env);
        let redundant = *g.rng.pick(&[0usize, 0, 12, 5, 3]);
        let body = print_top(&items, g.rng, redundant);
        let (pre, post) = match g.rng.below(6) { 0 => ("x ", " y"), 1 => ("", " px"), 2 => ("rgb(", ")"), _ => ("", "") };
        let value = format!("{pre}{{{{{body}{}}}}}{post}", pad(&body));
        let seed = g.rng.below(5) as u64;
        let vars = pairs(&env);
        let libm = uses_libm(&items, &env);
        let dmax = items.iter().map(depth).max().unwrap_or(0);
        let key = format!("{value}|{:?}", vars);
        corr.case(&key, dmax >= 3, || json!({"value": value, "vars": env_json(&env), "seed": seed}));
        tally_tree(&mut corr, &items);
        corr.tally(&format!("vars={}", env.len()));
        if redundant > 0 { corr.tally("print=redundant-parens"); } else { corr.tally("print=minimal-parens"); }

        let imp = impl_eval_attr(&vars, seed, &value);
        let mdl = model_eval_attr(drv, &vars, seed, &value)?;
        let replay = json!({"input": value, "vars": env_json(&env), "seed": seed, "kind": "eval_attr"});
        if let Out::Err(k) = &mdl {
            if k == "nanOrder" {
                corr.skipped += 1;
                corr.tally("skipped=min/max over NaN (sign bit of NaN is a platform detail)");
            }
            if k == "outOfFuel" || k == "unmodelled" {
                rep.violation(Violation { kind: "correspondence", stream: corr.name.clone(), signature: format!("tree:model-{k}"), what: format!("the model answered {k}"), replay: replay.clone(), confirmed_on_impl: false });
                continue;
            }
        }
        if mdl != Out::Err("nanOrder".into()) {
            if let Some((sig, what)) = compare(&mut corr, &imp, &mdl, libm) {
                rep.violation(Violation { kind: "correspondence", stream: corr.name.clone(), signature: format!("tree:{sig}"), what, replay: replay.clone(), confirmed_on_impl: false });
            }
        }

        // oracle
        let (want, draws, _occ) = eval_top(&items, &env, seed);
        let expect = match &want {
            Ok(v) => json!({"value": show(v).map(|w| format!("{pre}{w}{post}")), "random_words": draws}),
            Err(Stop::Fail(w)) => json!({"must_fail": w}),
            Err(Stop::Undef(w)) => json!({"undefined": w}),
        };
        let replay = json!({"input": value, "vars": env_json(&env), "seed": seed, "kind": "eval_attr", "expect": expect});
        orc.case(&key, dmax >= 3, || json!({"value": value, "vars": env_json(&env), "seed": seed}));
        if draws > 0 { orc.tally("random-words>0"); }
        if let Out::Panic(p) = &imp {
            let sig = if p.contains("min > max, or either was NaN") { "C14:panic:clamp-nan".to_string() } else { "C14:panic".to_string() };
            rep.violation(Violation { kind: "oracle", stream: orc.name.clone(), signature: sig, what: format!("the implementation panics instead of yielding a value or failing the transform: {p}"), replay: replay.clone(), confirmed_on_impl: true });
            continue;
        }
        match (&want, &imp) {
            (Err(Stop::Undef(why)), _) => {
                orc.skipped += 1;
                orc.tally(&format!("skipped={why}"));
            }
            (Err(Stop::Fail(why)), Out::Err(_)) => {
                orc.errors_agreed += 1;
                orc.tally(&format!("fails={why}"));
            }
            (Err(Stop::Fail(why)), Out::Ok(s, _)) => {
                rep.violation(Violation { kind: "oracle", stream: orc.name.clone(), signature: format!("C14:accepted:{why}"), what: format!("ill-formed expression ({why}) yields {s:?} instead of failing"), replay: replay.clone(), confirmed_on_impl: true });
            }
            (Ok(v), Out::Ok(s, d)) => match show(v) {
                None => {
                    orc.skipped += 1;
                    orc.tally("skipped=string shown");
                    if *d != draws {
                        rep.violation(Violation { kind: "oracle", stream: orc.name.clone(), signature: "C14:draws".into(), what: format!("{d} random words taken, {draws} expected from the random()/randint() occurrences"), replay: replay.clone(), confirmed_on_impl: true });
                    }
                }
                Some(w) => {
                    let w = format!("{pre}{w}{post}");
                    if &w == s && *d == draws {
                        orc.exact += 1;
                    } else if &w != s {
                        rep.violation(Violation { kind: "oracle", stream: orc.name.clone(), signature: "C14:value".into(), what: format!("conventional value {w:?}, implementation {s:?}"), replay: replay.clone(), confirmed_on_impl: true });
                    } else {
                        rep.violation(Violation { kind: "oracle", stream: orc.name.clone(), signature: "C14:draws".into(), what: format!("{d} random words taken, {draws} expected from the random()/randint() occurrences"), replay: replay.clone(), confirmed_on_impl: true });
                    }
                }
            },
            (Ok(v), Out::Err(k)) => {
                rep.violation(Violation { kind: "oracle", stream: orc.name.clone(), signature: "C14:rejected".into(), what: format!("well-formed expression with conventional value {:?} fails with {k}", show(v)), replay: replay.clone(), confirmed_on_impl: true });
            }
            (_, Out::Panic(_)) => {}
        }
        let _ = case;
    }
    rep.streams.push(corr);
    rep.streams.push(orc);
    Ok(())
}

/// re-run one recorded case: implementation vs model, and vs the recorded expectation of the oracle
pub fn replay(rep: &mut Report, v: &serde_json::Value) {
    if let Ok(spec) = std::env::var("VERIF_C14_DEEP") {
        deep_child(&spec);
        std::process::exit(0);
    }
    let r = v.get("replay").unwrap_or(v);
    let Some(input) = r.get("input").and_then(|x| x.as_str()) else {
        rep.notes.push("replay file has no input".into());
        return;
    };
    let mut st = Stream::new("replay", "oracle", "the replay input");
    st.case(input, true, || json!({"input": input}));
    if r.get("kind").and_then(|k| k.as_str()) == Some("deep") {
        let kind = r.get("generator").and_then(|g| g.get("nesting")).and_then(|x| x.as_str()).unwrap_or("parens").to_string();
        let d = r.get("generator").and_then(|g| g.get("depth")).and_then(|x| x.as_u64()).unwrap_or(10) as usize;
        let want = format!("ok {}", r.get("expect").and_then(|e| e.get("value")).and_then(|x| x.as_str()).unwrap_or("1"));
        if let Ok(exe) = std::env::current_exe() {
            match std::process::Command::new(&exe).env("VERIF_C14_DEEP", format!("{kind}:{d}")).arg("C14").output() {
                Ok(o) => {
                    let text = String::from_utf8_lossy(&o.stdout).trim().to_string();
                    // up to 100 levels an expression has its value: the nesting limit must not reach
                    // down into what people write
                    if o.status.success() && text.starts_with("err ") && d <= 100 {
                        rep.violation(Violation { kind: "oracle", stream: "replay".into(), signature: format!("C14:shallow-rejected:{kind}"), what: format!("expression nested only {d} deep ({kind}) is rejected: {text}"), replay: json!({"input": deep_input(&kind, d), "generator": {"nesting": kind, "depth": d}, "kind": "deep", "expect": {"value": &want[3..]}}), confirmed_on_impl: true });
                    } else if o.status.success() && (text == want || text.starts_with("err ")) {
                        st.exact += 1;
                    } else {
                        rep.violation(Violation { kind: "oracle", stream: "replay".into(), signature: format!("C14:deep-nesting:{kind}"), what: format!("expression nested {d} deep ({kind}): status {:?}, output {text:?}, stderr {:?}", o.status, String::from_utf8_lossy(&o.stderr).lines().last().unwrap_or("")), replay: r.clone(), confirmed_on_impl: true });
                    }
                }
                Err(e) => rep.notes.push(format!("cannot run child: {e}")),
            }
        }
        rep.streams.push(st);
        return;
    }
    if r.get("kind").and_then(|k| k.as_str()) == Some("document") {
        let want_draws = r.get("expect").and_then(|e| e.get("random_words")).and_then(|x| x.as_u64());
        let want_vals: Vec<String> = r.get("expect").and_then(|e| e.get("values")).and_then(|x| x.as_array()).map(|a| a.iter().filter_map(|x| x.as_str().map(|s| s.to_string())).collect()).unwrap_or_default();
        let seed = r.get("seed").and_then(|x| x.as_u64()).unwrap_or(0);
        match run_doc(input, seed) {
            DocOut::Panic(p) => rep.violation(Violation { kind: "oracle", stream: "replay".into(), signature: "C14:panic".into(), what: p, replay: r.clone(), confirmed_on_impl: true }),
            DocOut::Err(e) => {
                if r.get("expect").and_then(|e| e.get("must_fail")).is_none() {
                    rep.violation(Violation { kind: "oracle", stream: "replay".into(), signature: "C14:doc".into(), what: format!("document fails: {e}"), replay: r.clone(), confirmed_on_impl: true });
                } else { st.errors_agreed += 1; }
            }
            DocOut::Ok(out, d) => {
                let missing: Vec<&String> = want_vals.iter().filter(|w| !out.contains(w.as_str())).collect();
                if !missing.is_empty() || want_draws.is_some_and(|w| w != d as u64) || r.get("expect").and_then(|e| e.get("must_fail")).is_some() {
                    rep.violation(Violation { kind: "oracle", stream: "replay".into(), signature: "C14:doc".into(), what: format!("expected values {missing:?} absent or random words {d} != {want_draws:?}"), replay: r.clone(), confirmed_on_impl: true });
                } else { st.exact += 1; }
            }
        }
        rep.streams.push(st);
        return;
    }
    let vars: Vec<(String, String)> = r.get("vars").and_then(|x| x.as_array()).map(|a| a.iter().filter_map(|p| Some((p.get(0)?.as_str()?.to_string(), p.get(1)?.as_str()?.to_string()))).collect()).unwrap_or_default();
    let seed = r.get("seed").and_then(|x| x.as_u64()).unwrap_or(0);
    let imp = impl_eval_attr(&vars, seed, input);
    rep.notes.push(format!("implementation: {imp:?}"));
    if let Ok(mut drv) = Driver::start() {
        if let Ok(m) = model_eval_attr(&mut drv, &vars, seed, input) {
            rep.notes.push(format!("model: {m:?}"));
            if let Some((sig, what)) = compare(&mut st, &imp, &m, true) {
                rep.violation(Violation { kind: "correspondence", stream: "replay".into(), signature: format!("tree:{sig}"), what, replay: r.clone(), confirmed_on_impl: false });
            }
        }
    }
    if let Out::Panic(p) = &imp {
        let sig = if p.contains("min > max, or either was NaN") { "C14:panic:clamp-nan" } else { "C14:panic" };
        rep.violation(Violation { kind: "oracle", stream: "replay".into(), signature: sig.into(), what: format!("the implementation panics: {p}"), replay: r.clone(), confirmed_on_impl: true });
    }
    if let Some(exp) = r.get("expect") {
        let bad = if exp.get("must_fail").is_some() {
            matches!(imp, Out::Ok(..)).then(|| format!("must fail ({}) but yields {imp:?}", exp["must_fail"]))
        } else if let Some(w) = exp.get("value").and_then(|x| x.as_str()) {
            match &imp {
                Out::Ok(s, d) if s == w && exp.get("random_words").and_then(|x| x.as_u64()).is_none_or(|x| x == *d as u64) => None,
                other => Some(format!("expected {w:?} with {} random words, got {other:?}", exp["random_words"])),
            }
        } else { None };
        if let Some(what) = bad {
            rep.violation(Violation { kind: "oracle", stream: "replay".into(), signature: "C14:replay".into(), what, replay: r.clone(), confirmed_on_impl: true });
        }
    }
    rep.streams.push(st);
}

pub enum DocOut {
    Ok(String, u32),
    Err(String),
    Panic(String),
}

pub fn run_doc(doc: &str, seed: u64) -> DocOut {
    let cfg = svgdx::TransformConfig { seed, ..Default::default() };
    let d = doc.as_bytes().to_vec();
    match std::panic::catch_unwind(move || svgdx::verif_hooks::transform_probe(&d, &cfg)) {
        Err(p) => DocOut::Panic(panic_msg(p)),
        Ok(p) => match p.result {
            Ok(bytes) => DocOut::Ok(String::from_utf8_lossy(&bytes).to_string(), p.rng_draws.unwrap_or(u32::MAX)),
            Err(e) => DocOut::Err(e),
        },
    }
}

/// "to any nesting depth": deeply nested but perfectly regular expressions, each evaluated in a child
/// process (a stack overflow aborts the process and cannot be caught in-process)
fn deep_input(kind: &str, d: usize) -> String {
    match kind {
        "parens" => format!("{{{{{}1{}}}}}", "(".repeat(d), ")".repeat(d)),
        "minus" => format!("{{{{{}1}}}}", "-".repeat(d)),
        _ => format!("{{{{{}1{}}}}}", "abs(".repeat(d), ")".repeat(d)),
    }
}

fn deep_child(spec: &str) {
    let mut it = spec.split(':');
    let kind = it.next().unwrap_or("parens").to_string();
    let d: usize = it.next().and_then(|x| x.parse().ok()).unwrap_or(10);
    let value = deep_input(&kind, d);
    let r = impl_eval_attr(&[], 0, &value);
    match r {
        Out::Ok(s, _) => println!("ok {s}"),
        Out::Err(e) => println!("err {e}"),
        Out::Panic(p) => println!("panic {p}"),
    }
}

fn deep_stream(rep: &mut Report, thorough: bool) {
    let mut st = Stream::new(
        "oracle/deep",
        "oracle",
        "regular expressions nested d levels deep — d opening parentheses, d unary minus signs, d nested abs( — for d = 50 … 30000 (thorough: … 100000), each evaluated in a child process; the value must be 1 (an even number of minus signs) or -1 — up to d = 100 it must be the value — or the transform may fail, but the process must not crash; non-trivial = every case",
    );
    let exe = match std::env::current_exe() { Ok(e) => e, Err(_) => { rep.notes.push("deep stream: cannot find own executable".into()); return; } };
    let depths: Vec<usize> = if thorough { vec![50, 100, 101, 200, 600, 1000, 3000, 10_000, 30_000, 100_000] } else { vec![50, 100, 101, 200, 600, 1000, 3000, 30_000] };
    for kind in ["parens", "minus", "call"] {
        for &d in &depths {
            let key = format!("{kind}:{d}");
            st.case(&key, true, || json!({"nesting": kind, "depth": d}));
            st.tally(&format!("nesting={kind}"));
            let out = std::process::Command::new(&exe).env("VERIF_C14_DEEP", &key).arg("C14").output();
            let want = if kind == "minus" && d % 2 == 1 { "ok -1" } else { "ok 1" };
            match out {
                Err(e) => rep.notes.push(format!("deep stream: cannot run child: {e}")),
                Ok(o) => {
                    let text = String::from_utf8_lossy(&o.stdout).trim().to_string();
                    // up to 100 levels an expression has its value: the nesting limit must not reach
                    // down into what people write
                    if o.status.success() && text.starts_with("err ") && d <= 100 {
                        rep.violation(Violation { kind: "oracle", stream: st.name.clone(), signature: format!("C14:shallow-rejected:{kind}"), what: format!("expression nested only {d} deep ({kind}) is rejected: {text}"), replay: json!({"input": deep_input(kind, d), "generator": {"nesting": kind, "depth": d}, "kind": "deep", "expect": {"value": &want[3..]}}), confirmed_on_impl: true });
                    } else if o.status.success() && (text == want || text.starts_with("err ")) {
                        if text == want { st.exact += 1; } else { st.errors_agreed += 1; st.tally(&format!("{kind}:{d} -> {text}")); }
                    } else {
                        let err = String::from_utf8_lossy(&o.stderr);
                        let how = if err.contains("overflowed its stack") { "stack overflow (process aborted)".to_string() } else { format!("status {:?}, output {text:?}", o.status) };
                        let value = deep_input(kind, d);
                        let shown = if value.len() > 400 { format!("{}…[{} characters]…{}", &value[..60], value.len(), &value[value.len() - 60..]) } else { value.clone() };
                        rep.violation(Violation { kind: "oracle", stream: st.name.clone(), signature: format!("C14:deep-nesting:{kind}"), what: format!("expression nested {d} deep ({kind}): {how}; expected {want:?} or a failed transform"), replay: json!({"input": shown, "generator": {"nesting": kind, "depth": d}, "kind": "deep", "expect": {"value": &want[3..]}}), confirmed_on_impl: true });
                        break; // deeper ones fail the same way
                    }
                }
            }
        }
    }
    rep.streams.push(st);
}

/// The nesting limit, at its edge: expressions built from runs of `(`, unary `-`, `abs(` / `max(`
/// calls and variables whose values nest again, with a total nesting of 85 … 115 levels. The outcome
/// (value or DepthLimitExceeded, and which) must be the model's: the limit is part of the language now.
fn nesting_stream(rep: &mut Report, drv: &mut Driver, rng: &mut Rng, n: usize) -> Result<(), String> {
    let mut st = Stream::new(
        "expr/nesting-limit",
        "correspondence",
        "expressions nesting 85 - 115 levels through random runs of parentheses, unary minus signs, abs( / max( calls, binary operators between groups and up to three variables whose values nest further (each variable costs a level): eval_attr of the implementation vs the Lean model, value and error kind; non-trivial = every case",
    );
    for _ in 0..n {
        let total = 85 + rng.below(31);
        let nvars = rng.below(4);
        // split the total over the pieces: the expression itself and the values of the variables
        let mut parts = vec![0usize; nvars + 1];
        for _ in 0..total { let i = rng.below(nvars + 1); parts[i] += 1; }
        let mut vars: Vec<(String, String)> = vec![];
        let mut inner = String::from("1");
        // innermost value first; variable k's value refers to variable k+1
        for k in (0..=nvars).rev() {
            let mut open = String::new();
            let mut close = String::new();
            let mut left = parts[k];
            while left > 0 {
                match rng.below(5) {
                    0 => { open.push('-'); left -= 1; }
                    1 => { open.push_str("abs("); close.insert(0, ')'); left -= 1; }
                    2 => { open.push_str("max(0, "); close.insert(0, ')'); left -= 1; }
                    3 => { open.push_str("(2 * "); close.insert_str(0, " - 1)"); left -= 1; }
                    _ => { open.push('('); close.insert(0, ')'); left -= 1; }
                }
                if rng.chance(1, 6) { open.push(' '); }
            }
            let body = format!("{open}{inner}{close}");
            if k == 0 {
                inner = body;
            } else {
                vars.push((format!("v{k}"), body));
                inner = format!("$v{k}");
            }
        }
        let value = format!("{{{{{inner}}}}}");
        st.case(&value, true, || json!({"value": value, "vars": vars, "levels": parts}));
        st.tally(&format!("levels={}", if total < 100 - nvars { "below" } else if total > 100 { "above" } else { "edge" }));
        st.tally(&format!("variables={nvars}"));
        let imp = impl_eval_attr(&vars, 0, &value);
        let mdl = model_eval_attr(drv, &vars, 0, &value)?;
        match &imp { Out::Ok(..) => st.tally("impl=value"), Out::Err(e) => st.tally(&format!("impl=err:{e}")), Out::Panic(_) => st.tally("impl=panic") }
        if let Some((sig, what)) = compare(&mut st, &imp, &mdl, false) {
            rep.violation(Violation { kind: "correspondence", stream: st.name.clone(), signature: format!("nesting:{sig}"), what, replay: json!({"value": value, "vars": vars}), confirmed_on_impl: false });
        }
    }
    rep.streams.push(st);
    Ok(())
}

pub fn run(rep: &mut Report, tier: &str, seed: u64) -> Result<(), String> {
    if let Ok(spec) = std::env::var("VERIF_C14_DEEP") {
        deep_child(&spec);
        std::process::exit(0);
    }
    let mut rng = Rng::new(seed);
    let mut drv = Driver::start()?;
    let thorough = tier == "thorough";
    tree_streams(rep, &mut drv, &mut rng.fork(), if thorough { 1_500_000 } else { 30_000 })?;
    malformed_stream(rep, &mut drv, &mut rng.fork(), if thorough { 200_000 } else { 6_000 })?;
    soup_stream(rep, &mut drv, &mut rng.fork(), if thorough { 600_000 } else { 20_000 })?;
    entry_stream(rep, &mut drv, &mut rng.fork(), if thorough { 300_000 } else { 9_000 })?;
    doc_stream(rep, &mut rng.fork(), if thorough { 40_000 } else { 1_500 })?;
    nesting_stream(rep, &mut drv, &mut rng.fork(), if thorough { 60_000 } else { 2_000 })?;
    deep_stream(rep, thorough);
    Ok(())
}

// ---------------------------------------------------------------------------------------------
// Stream b: malformed expressions must fail (oracle) and fail with the same class in the model
// ---------------------------------------------------------------------------------------------
const FIXED_ARITY: [(&str, usize); 34] = [
    ("abs", 1), ("ceil", 1), ("floor", 1), ("fract", 1), ("sign", 1), ("sqrt", 1), ("log", 1), ("exp", 1), ("sin", 1),
    ("cos", 1), ("tan", 1), ("asin", 1), ("acos", 1), ("atan", 1), ("not", 1), ("pow", 2), ("divmod", 2), ("lt", 2),
    ("le", 2), ("gt", 2), ("ge", 2), ("eq", 2), ("ne", 2), ("and", 2), ("or", 2), ("xor", 2), ("swap", 2), ("r2p", 2),
    ("p2r", 2), ("randint", 2), ("clamp", 3), ("mix", 3), ("if", 3), ("trim", 1),
];

/// positions of characters outside string quotes
fn outside_quotes(s: &str, want: char) -> Vec<usize> {
    let mut out = vec![];
    let mut q: Option<char> = None;
    let mut esc = false;
    for (i, c) in s.char_indices() {
        match q {
            Some(qc) => {
                if esc { esc = false; } else if c == '\\' { esc = true; } else if c == qc { q = None; }
            }
            None => {
                if c == '\'' || c == '"' { q = Some(c); } else if c == want { out.push(i); }
            }
        }
    }
    out
}

fn malformed_stream(rep: &mut Report, drv: &mut Driver, rng: &mut Rng, n: usize) -> Result<(), String> {
    let mut st = Stream::new(
        "expr/malformed",
        "correspondence",
        "a well-formed generated expression damaged in one way: a parenthesis removed or added, a function renamed to an unknown name, a fixed-arity function called with another number of arguments, an undefined or circular variable, a dangling / doubled operator, two comparisons in a row, an exponent sign, an empty body, a missing comma, an unterminated quote; implementation vs model (error class); non-trivial = every case",
    );
    let mut orc = Stream::new(
        "oracle/malformed",
        "oracle",
        "the same damaged expressions: the transform of the attribute must fail instead of yielding a value (for the damage kinds the property names: unbalanced parentheses, unknown function, wrong arity, undefined variable, circular variable, and the grammar's own rules)",
    );
    // fixed corner inputs first: (value, vars, must_fail)
    let fixed: Vec<(&str, Vec<(&str, &str)>)> = vec![
        ("{{clamp(1, 0/0, 2)}}", vec![]),
        ("{{clamp(1, 0, 0/0)}}", vec![]),
        ("{{clamp(1, nan, 2)}}", vec![]),
        ("{{(1 + 2}}", vec![]),
        ("{{1 + 2)}}", vec![]),
        ("{{sine(30)}}", vec![]),
        ("{{abs(1, 2)}}", vec![]),
        ("{{pow(2)}}", vec![]),
        ("{{$nosuch + 1}}", vec![]),
        ("{{$a}}", vec![("a", "$b"), ("b", "$a")]),
        ("{{$a}}", vec![("a", "$a + 1")]),
        ("{{1e-3}}", vec![]),
        ("{{1 lt 2 lt 3}}", vec![]),
        ("{{}}", vec![]),
        ("{{1 2}}", vec![]),
        ("{{1 +}}", vec![]),
        ("{{* 2}}", vec![]),
        ("{{'abc}}", vec![]),
        ("{{count(,,,,)}}", vec![]),
        ("{{min()}}", vec![]),
        ("{{select(3, 1, 2)}}", vec![]),
        ("{{randint(5, 1)}}", vec![]),
        ("{{clamp(1, 3, 2)}}", vec![]),
        ("{{addv(1, 2, 3)}}", vec![]),
        ("{{1 + (2, 3)}}", vec![]),
        ("{{-'a'}}", vec![]),
        ("{{abs}}", vec![]),
        ("{{abs 1}}", vec![]),
        ("{{#nosuch~w}}", vec![]),
    ];
    let mut cases: Vec<(String, Vec<(String, String)>, &'static str, u64)> = fixed
        .iter()
        .map(|(v, vars)| (v.to_string(), vars.iter().map(|(a, b)| (a.to_string(), b.to_string())).collect(), "fixed", 0u64))
        .collect();
    for _ in 0..n {
        let mut g = Gen::new(rng);
        g.allow_strings = g.rng.chance(1, 3);
        g.make_env();
        // the base expression must itself be fine: no random failure sources
        let d = 1 + g.rng.below(5);
        let items = vec![g.num(d)];
        let env = std::mem::take(&mut g.env);
        let seed = g.rng.below(3) as u64;
        let base_ok = matches!(eval_top(&items, &env, seed).0, Ok(_));
        if !base_ok {
            continue;
        }
        let body = print_top(&items, g.rng, 6);
        let mut vars = pairs(&env);
        let rng = &mut *g.rng;
        let (kind, text): (&'static str, String) = match rng.below(14) {
            0 => {
                let pos = outside_quotes(&body, ')');
                if pos.is_empty() { ("unbalanced-open", format!("({body}")) } else { let i = pos[rng.below(pos.len())]; ("unbalanced-open", format!("{}{}", &body[..i], &body[i + 1..])) }
            }
            1 => {
                let pos = outside_quotes(&body, '(');
                if pos.is_empty() { ("unbalanced-close", format!("{body})")) } else { let i = pos[rng.below(pos.len())]; ("unbalanced-close", format!("{}{}", &body[..i], &body[i + 1..])) }
            }
            2 => ("unbalanced-close", format!("{body} )")),
            3 => ("unbalanced-open", format!("( {body}")),
            4 => {
                let name = *rng.pick(&["foo", "sine", "Abs", "cosine", "sqr", "ln", "rand", "length", "floor_", "MAX"]);
                ("unknown-function", format!("{body} + {name}({})", lit(rng)))
            }
            5 => {
                let (f, k) = *rng.pick(&FIXED_ARITY);
                let mut m = rng.below(5);
                if m == k { m = k + 1; }
                let args: Vec<String> = (0..m).map(|_| if f == "trim" { "'a'".to_string() } else { lit(rng) }).collect();
                ("wrong-arity", format!("{body} - {f}({})", args.join(", ")))
            }
            6 => ("undefined-variable", format!("{body} * {}", rng.pick(&["$nosuch", "${undefined}", "$x9"]))),
            7 => {
                let k = 1 + rng.below(3);
                for i in 0..k {
                    vars.push((format!("c{i}"), format!("{} ${}c{} ", if rng.chance(1, 2) { "1 +" } else { "" }, if false { "{" } else { "" }, (i + 1) % k)));
                }
                ("circular-variable", format!("{body} + $c0"))
            }
            8 => ("dangling-operator", format!("{body} {}", rng.pick(&["+", "-", "*", "/", "%", "lt", "and", ","]))),
            9 => ("doubled-operator", format!("{body} {} {} 2", rng.pick(&["+", "*", "/", "%", "lt", "or"]), rng.pick(&["*", "/", "%", "lt", "and", ")"]))),
            10 => ("two-comparisons", format!("1 {} {body} {} 3", rng.pick(&["lt", "eq", "ge"]), rng.pick(&["lt", "ne", "gt"]))),
            11 => ("exponent-sign", format!("{body} + {}", rng.pick(&["1e-3", "2.5e+2", "1E-1"]))),
            12 => ("missing-operator", format!("{body} {}", lit(rng))),
            _ => ("unterminated-quote", format!("{body} + count('abc)")),
        };
        let needs_value = kind == "two-comparisons";
        // `1 lt X lt 3`: X is an additive-or-tighter expression only if printed so; wrap to be sure
        let text = if needs_value { text.replace(&body, &format!("({body})")) } else { text };
        cases.push((format!("{{{{{text}{}}}}}", pad(&text)), vars, kind, seed));
    }
    for (value, vars, kind, seed) in cases {
        let key = format!("{value}|{vars:?}");
        st.case(&key, true, || json!({"value": value, "vars": vars, "damage": kind}));
        orc.case(&key, true, || json!({"value": value, "vars": vars, "damage": kind}));
        st.tally(&format!("damage={kind}"));
        let imp = impl_eval_attr(&vars, seed, &value);
        let mdl = model_eval_attr(drv, &vars, seed, &value)?;
        let vj: Vec<serde_json::Value> = vars.iter().map(|(a, b)| json!([a, b])).collect();
        let replay = json!({"input": value, "vars": vj, "seed": seed, "kind": "eval_attr", "expect": {"must_fail": kind}});
        if mdl == Out::Err("nanOrder".into()) {
            st.skipped += 1;
        } else if let Some((sig, what)) = compare(&mut st, &imp, &mdl, false) {
            rep.violation(Violation { kind: "correspondence", stream: st.name.clone(), signature: format!("malformed:{kind}:{sig}"), what, replay: replay.clone(), confirmed_on_impl: false });
        }
        match &imp {
            Out::Err(k) => {
                orc.errors_agreed += 1;
                orc.tally(&format!("{kind} -> {k}"));
            }
            Out::Ok(s, _) => rep.violation(Violation { kind: "oracle", stream: orc.name.clone(), signature: format!("C14:accepted:{kind}"), what: format!("malformed expression ({kind}) yields {s:?} instead of failing the transform"), replay, confirmed_on_impl: true }),
            Out::Panic(p) => {
                let sig = if p.contains("min > max, or either was NaN") { "C14:panic:clamp-nan".to_string() } else { "C14:panic".to_string() };
                rep.violation(Violation { kind: "oracle", stream: orc.name.clone(), signature: sig, what: format!("the implementation panics instead of failing the transform: {p}"), replay, confirmed_on_impl: true })
            }
        }
    }
    rep.streams.push(st);
    rep.streams.push(orc);
    Ok(())
}

// ---------------------------------------------------------------------------------------------
// Stream: character / token soup — scanner and tokenizer quirks, implementation vs model only
// ---------------------------------------------------------------------------------------------
fn soup_stream(rep: &mut Report, drv: &mut Driver, rng: &mut Rng, n: usize) -> Result<(), String> {
    let mut st = Stream::new(
        "expr/soup",
        "correspondence",
        "attribute values made of random token sequences (numbers in every literal form incl. inf/nan/1e5, names of functions and operators, $vars, ${vars}, #refs with '-', quotes with escapes, operators, brackets) and of random characters around / inside / instead of {{ }}, with \\$ escapes and unterminated braces; implementation vs model: value text, error class, random words; non-trivial = every distinct input",
    );
    let toks: Vec<&str> = vec![
        "1", "2", "0", "3.5", ".5", "7.", "1e3", "1E2", "inf", "nan", "NaN", "infinity", "1e", "0x10", "1_0", "1e99999", "0e99999", "1e00002", "16777217", "1e39", "0.0000000000000000000000000000000000000000000001", "12345678.9", "\u{2192}", "\u{20ac}5", "+", "-", "*", "/", "%", ",", "(", ")",
        "lt", "gt", "eq", "ne", "le", "ge", "and", "or", "xor", "abs", "min", "max", "count", "sum", "if", "not", "random", "randint", "head", "tail",
        "select", "in", "_", "swap", "divmod", "empty", "join", "split", "$a", "$b", "${a}", "${b}", "$l", "${l}", "$s", "$u", "${u", "$", "${}", "$1", "#id~w", "#a-b~h", "^~w", "#x", "'a'", "\"b\"", "'it\\'s'", "'a\\nb'", "'", "\"",
        "\\", "'a b'", "foo", "x1", "_x", "a.b", "{", "}", "{{", "}}", "\n", "\t", " ", "  ",
    ];
    let env: Vec<(String, String)> = vec![("a".into(), "3".into()), ("b".into(), "-2.5".into()), ("l".into(), "1, 2, 3".into()), ("s".into(), "'str'".into()), ("e".into(), "$a * 2".into()), ("r".into(), "$e".into())];
    let chars: Vec<char> = "0123456789.eE+-*/%,() \t$'{}#^~\"\\nabltxor_\n".chars().collect();
    for i in 0..n {
        let value = if i % 3 == 2 {
            let k = 1 + rng.below(14);
            let body: String = (0..k).map(|_| *rng.pick(&chars)).collect();
            match rng.below(4) { 0 => body, 1 => format!("{{{{{body}"), _ => format!("{{{{{body}}}}}") }
        } else {
            let k = 1 + rng.below(9);
            let mut body = String::new();
            for _ in 0..k {
                let t: &str = *rng.pick(&toks[..]); body.push_str(t);
                if rng.chance(2, 3) { body.push(' '); }
            }
            match rng.below(8) { 0 => body, 1 => format!("a {{{{{body}}}}} b {{{{{}}}}}", rng.pick(&toks[..])), 2 => format!("\\{body} {{{{1}}}}"), _ => format!("{{{{{body}}}}}") }
        };
        let nvars = rng.below(env.len() + 1);
        let vars = &env[..nvars];
        let seed = rng.below(2) as u64;
        let key = format!("{value}|{nvars}");
        st.case(&key, true, || json!({"value": value, "vars": vars}));
        st.tally(if i % 3 == 2 { "kind=characters" } else { "kind=tokens" });
        let imp = impl_eval_attr(vars, seed, &value);
        let mdl = model_eval_attr(drv, vars, seed, &value)?;
        if mdl == Out::Err("nanOrder".into()) {
            st.skipped += 1;
            continue;
        }
        let vj: Vec<serde_json::Value> = vars.iter().map(|(a, b)| json!([a, b])).collect();
        let replay = json!({"input": value, "vars": vj, "seed": seed, "kind": "eval_attr"});
        if let Out::Panic(p) = &imp {
            if !matches!(mdl, Out::Panic(_)) {
                rep.violation(Violation { kind: "correspondence", stream: st.name.clone(), signature: "soup:panic".into(), what: format!("implementation panics ({p}), model {mdl:?}"), replay, confirmed_on_impl: false });
                continue;
            }
        }
        if let Some((sig, what)) = compare(&mut st, &imp, &mdl, true) {
            rep.violation(Violation { kind: "correspondence", stream: st.name.clone(), signature: format!("soup:{sig}"), what, replay, confirmed_on_impl: false });
        }
    }
    rep.streams.push(st);
    Ok(())
}

// ---------------------------------------------------------------------------------------------
// Stream: the other entry points — eval_vars, eval_condition, eval_list
// ---------------------------------------------------------------------------------------------
fn entry_stream(rep: &mut Report, drv: &mut Driver, rng: &mut Rng, n: usize) -> Result<(), String> {
    let mut st = Stream::new(
        "expr/entry",
        "correspondence",
        "eval_condition (loop while/until, if test; with and without {{ }}), eval_list (for data) on generated trees and damaged inputs, eval_vars on texts with $name, ${name}, \\$ escapes, unterminated braces and undefined names; implementation vs model; non-trivial = every distinct input",
    );
    let texts = ["$a", "${a}", "x$a", "$a$b", "${a}0", "$a0", "\\$a", "a\\$b $a", "\\x $a", "${a", "${}", "$", "$$a", "$ a", "${nosuch}", "$nosuch.", "$a.b", "100%", "$a-$b", "{{$a}}", "$_", "${a}}", "$a}", "\\\\$a", "$a\\$b"];
    let env: Vec<(String, String)> = vec![("a".into(), "3".into()), ("b".into(), "-2.5".into()), ("l".into(), "1, 2, 3".into()), ("a0".into(), "zero".into()), ("_".into(), "u".into())];
    for i in 0..n {
        match i % 3 {
            0 => {
                // eval_vars
                let k = 1 + rng.below(4);
                let mut value = String::new();
                for _ in 0..k {
                    let t: &str = *rng.pick(&texts[..]);
                    value.push_str(t);
                    if rng.chance(1, 2) { let t: &str = *rng.pick(&[" ", ",", "-", "}", "{", "\\", "$"]); value.push_str(t); }
                }
                let nvars = rng.below(env.len() + 1);
                let vars = &env[..nvars];
                st.case(&format!("vars|{value}|{nvars}"), true, || json!({"eval_vars": value}));
                st.tally("entry=eval_vars");
                let imp = svgdx::verif_hooks::eval_vars_with(vars, &value);
                let a = driver_args(0, vars, &[&value]);
                let ar: Vec<&str> = a[1..].iter().map(|s| s.as_str()).collect();
                let m = drv.call("expr_eval_vars", &ar)?;
                if m.len() == 2 && m[0] == "ok" && m[1] == imp {
                    st.exact += 1;
                } else {
                    let vj: Vec<serde_json::Value> = vars.iter().map(|(a, b)| json!([a, b])).collect();
                    rep.violation(Violation { kind: "correspondence", stream: st.name.clone(), signature: "entry:eval_vars".into(), what: format!("implementation {imp:?} vs model {m:?}"), replay: json!({"input": value, "vars": vj, "kind": "eval_vars"}), confirmed_on_impl: false });
                }
            }
            which => {
                let mut g = Gen::new(rng);
                // a condition evaluates the value of `$v` as an expression of its own: `$sum * 2` with
                // sum = "1 + 1" is 4, not 1 + 1 * 2
                g.direct_expr_vars = which == 1;
                g.make_env();
                let d = 1 + g.rng.below(5);
                let items = if which == 1 { vec![g.num(d)] } else { g.top(d) };
                let env = std::mem::take(&mut g.env);
                let mut body = print_top(&items, g.rng, 6);
                if g.rng.chance(1, 8) { let t: &str = *g.rng.pick(&[" )", " +", " 1", ",", " lt 2 lt 3"]); body.push_str(t); }
                let value = match g.rng.below(4) { 0 => format!("{{{{{body}{}}}}}", pad(&body)), 1 => format!("{{{{{body}"), _ => body.clone() };
                let seed = g.rng.below(3) as u64;
                let vars = pairs(&env);
                let op = if which == 1 { "eval_condition" } else { "eval_list" };
                st.case(&format!("{op}|{value}|{vars:?}"), true, || json!({op: value, "vars": env_json(&env)}));
                st.tally(&format!("entry={op}"));
                let (v2, s2) = (vars.clone(), value.clone());
                let imp: Result<Result<String, String>, String> = std::panic::catch_unwind(move || {
                    if which == 1 {
                        svgdx::verif_hooks::eval_condition_with(&v2, seed, &s2).map(|b| if b { "1".to_string() } else { "0".to_string() })
                    } else {
                        svgdx::verif_hooks::eval_list_with(&v2, seed, &s2).map(|l| l.join("\u{1f}"))
                    }
                })
                .map_err(panic_msg);
                let a = driver_args(seed, &vars, &[&value]);
                let ar: Vec<&str> = a.iter().map(|s| s.as_str()).collect();
                let m = drv.call(&format!("expr_{op}"), &ar)?;
                let replay = json!({"input": value, "vars": env_json(&env), "seed": seed, "kind": op});
                let agree = match (&imp, m.first().map(|s| s.as_str())) {
                    (_, Some("err")) if m.get(1).map(|s| s.as_str()) == Some("nanOrder") => { st.skipped += 1; true }
                    (Ok(Ok(s)), Some("ok")) => {
                        let mv = if which == 1 { m.get(1).cloned().unwrap_or_default() } else { m[3..].join("\u{1f}") };
                        if &mv == s { st.exact += 1; true } else { false }
                    }
                    (Ok(Err(e)), Some("err")) => {
                        let ok = same_err(&err_kind(e), m.get(1).map(|s| s.as_str()).unwrap_or(""));
                        if ok { st.errors_agreed += 1; }
                        ok
                    }
                    (Err(_), Some("err")) => { let ok = m.get(1).map(|s| s.as_str()) == Some("panic"); if ok { st.errors_agreed += 1; } ok }
                    _ => false,
                };
                if !agree {
                    rep.violation(Violation { kind: "correspondence", stream: st.name.clone(), signature: format!("entry:{op}"), what: format!("implementation {imp:?} vs model {m:?}"), replay, confirmed_on_impl: false });
                }
            }
        }
    }
    rep.streams.push(st);
    Ok(())
}

// ---------------------------------------------------------------------------------------------
// Stream d: expressions in the attribute contexts of whole documents
// ---------------------------------------------------------------------------------------------
fn eval_items(items: &[E], env: &[VarDef], rng: &mut RefPcg) -> Result<Vec<V>, Stop> {
    let mut cx = Cx { env, rng: rng.clone(), active: vec![], occurrences: 0 };
    let mut out = vec![];
    let mut res = Ok(());
    for it in items {
        match eval(it, &mut cx) {
            Ok(v) => out.extend(v),
            Err(s) => { res = Err(s); break; }
        }
    }
    *rng = cx.rng;
    res.map(|_| out)
}

/// a displayed value usable inside a document: finite numbers / plain text only
fn doc_value(v: &[V]) -> Option<String> {
    if v.is_empty() { return None; }
    for a in v {
        match a {
            V::N(x) if !x.is_finite() || x.abs() > 1e6 => return None,
            V::T(t) if t.contains(['{', '}', '$', '<', '&']) || t.trim() != t || t.contains("  ") || t.is_empty() => return None,
            V::S(_) => return None,
            _ => {}
        }
    }
    show(v)
}

struct DocGen<'a> {
    rng: &'a mut Rng,
    env: Vec<VarDef>,
    pcg: RefPcg,
    xml: Vec<String>,
    data: Vec<String>,     // expected data-v values in document order
    texts: Vec<String>,    // expected text contents in order
    comments: Vec<String>, // expected comments in order
    nvar: usize,
    contexts: Vec<&'static str>,
    /// the next expression may refer to expression-valued variables directly (conditions only)
    direct_next: bool,
}

impl<'a> DocGen<'a> {
    /// an expression that evaluates (with the current variables and random source) to a usable value
    fn expr(&mut self, numeric: bool, allow_random: bool) -> Option<(String, String, Vec<V>)> {
        for _ in 0..20 {
            let mut g = Gen::new(self.rng);
            g.env = self.env.clone();
            g.allow_random = allow_random;
            g.allow_strings = !numeric;
            g.direct_expr_vars = self.direct_next;
            let d = 1 + g.rng.below(4);
            let items = if numeric { vec![g.num(d)] } else { g.top(d) };
            let body = print_top(&items, g.rng, 8);
            let mut trial = self.pcg.clone();
            match eval_items(&items, &self.env, &mut trial) {
                Ok(v) => {
                    if let Some(s) = doc_value(&v) {
                        if numeric && v.len() != 1 { continue; }
                        self.pcg = trial;
                        return Some((format!("{{{{{body}{}}}}}", pad(&body)), s, v));
                    }
                }
                Err(_) => continue,
            }
        }
        None
    }

    /// one block; a block that cannot be completed leaves no trace (in particular not on the random source)
    fn block(&mut self, depth: usize) {
        let snap = (self.pcg.clone(), self.xml.len(), self.data.len(), self.texts.len(), self.comments.len(), self.env.clone(), self.contexts.len());
        if !self.block_inner(depth) {
            self.pcg = snap.0;
            self.xml.truncate(snap.1);
            self.data.truncate(snap.2);
            self.texts.truncate(snap.3);
            self.comments.truncate(snap.4);
            self.env = snap.5;
            self.contexts.truncate(snap.6);
        }
    }

    fn block_inner(&mut self, depth: usize) -> bool {
        let which = self.rng.below(10);
        let before = self.contexts.len();
        match which {
            0 | 1 => {
                // <var>
                let numeric = self.rng.chance(2, 3);
                if let Some((src, val, v)) = self.expr(numeric, true) {
                    if !v.iter().all(|a| matches!(a, V::N(_))) { return false; }
                    let name = format!("d{}", self.nvar);
                    self.nvar += 1;
                    self.xml.push(format!("<var {name}=\"{}\"/>", xml_escape_attr(&src)));
                    let items: Vec<String> = val.split(", ").map(|s| s.to_string()).collect();
                    self.env.retain(|d| d.name != name);
                    self.env.push(VarDef { name, text: val, kind: VarKind::Lit(items) });
                    self.contexts.push("var");
                }
            }
            2 | 3 => {
                // geometry attributes + a pass-through attribute
                let with_random = self.rng.below(3);
                let x = self.expr(true, with_random == 0);
                let y = self.expr(true, with_random == 1);
                let dv = self.expr(false, with_random == 2);
                if let (Some(x), Some(y), Some(dv)) = (x, y, dv) {
                    self.xml.push(format!("<rect x=\"{}\" y=\"{}\" width=\"4\" height=\"2\" data-v=\"{}\"/>", xml_escape_attr(&x.0), xml_escape_attr(&y.0), xml_escape_attr(&dv.0)));
                    // geometry attributes are re-read as numbers by the layout: a shown "-0" becomes "0"
                    let z = |s: &str| if s == "-0" { "0".to_string() } else { s.to_string() };
                    self.data.push(format!("{}|{}|{}", z(&x.1), z(&y.1), dv.1));
                    self.contexts.push("geometry");
                }
            }
            4 => {
                if let Some((src, val, _)) = self.expr(false, true) {
                    if self.rng.chance(1, 2) {
                        self.xml.push(format!("<text x=\"1\" y=\"2\">v={}</text>", xml_escape_text(&src)));
                        self.contexts.push("text-content");
                    } else {
                        self.xml.push(format!("<rect xy=\"0\" wh=\"10\" text=\"v={}\"/>", xml_escape_attr(&src)));
                        self.contexts.push("text-attr");
                    }
                    self.texts.push(format!("v={val}"));
                }
            }
            5 => {
                if let Some((src, val, _)) = self.expr(false, true) {
                    if val.contains("--") { return false; }
                    self.xml.push(format!("<circle r=\"1\" _=\"note {}\"/>", xml_escape_attr(&src)));
                    self.comments.push(format!(" note {val} "));
                    self.contexts.push("comment");
                }
            }
            6 if depth == 0 => {
                // <loop count>
                let k = self.rng.below(4);
                let src = match self.rng.below(3) { 0 => format!("{k}"), 1 => format!("{{{{{} + {}}}}}", k + 2, -2), _ => format!("{{{{count({})}}}}", vec!["7"; k].join(", ")) };
                self.xml.push(format!("<loop count=\"{}\">", xml_escape_attr(&src)));
                let start = self.xml.len();
                let snapshot: Vec<String> = vec![];
                let _ = snapshot;
                // the body is generated once and must evaluate k times: generate by simulation of the first
                // iteration, then replay the same source for the others
                let body = self.loop_body(k);
                if body.is_none() { self.xml.truncate(start - 1); return false; }
                self.xml.push("</loop>".into());
                self.contexts.push("loop-count");
            }
            7 if depth == 0 => {
                // <loop while> over a counter variable
                let k = self.rng.below(4);
                let name = format!("i{}", self.nvar);
                self.nvar += 1;
                let with_random = self.rng.chance(1, 2);
                self.xml.push(format!("<var {name}=\"0\"/>"));
                self.env.retain(|d| d.name != name);
                self.env.push(VarDef { name: name.clone(), text: "0".into(), kind: VarKind::Lit(vec!["0".into()]) });
                let cond = if with_random { format!("${name} lt {k} and random() lt 2") } else { format!("${name} lt {k}") };
                let cond_src = if self.rng.chance(1, 2) { format!("{{{{{cond}}}}}") } else { cond };
                self.xml.push(format!("<loop while=\"{cond_src}\">"));
                let dv = format!("{{{{${name} * 2 + random()}}}}");
                self.xml.push(format!("<var {name}=\"{{{{${name} + 1}}}}\"/><circle r=\"1\" data-v=\"{dv}\"/>"));
                self.xml.push("</loop>".into());
                for it in 0..=k {
                    if with_random { self.pcg.random_f32(); }
                    if it == k { break; }
                    let i = (it + 1) as f32;
                    let r = self.pcg.random_f32();
                    self.data.push(format!("||{}", fstr32(i * 2.0 + r)));
                }
                let t = format!("{k}");
                self.env.retain(|d| d.name != name);
                self.env.push(VarDef { name, text: t.clone(), kind: VarKind::Lit(vec![t]) });
                self.contexts.push("loop-while");
            }
            8 if depth == 0 => {
                // <if test>
                let allow_random = self.rng.chance(1, 2);
                // one test in two is preceded by a variable whose value is a compound expression written
                // without parentheses (`<var e3="1 + 2"/>`): a test evaluates `$e3` as an expression of its
                // own, so `$e3 * 2` is 6
                if self.rng.chance(1, 2) {
                    let mut g = Gen::new(self.rng);
                    g.allow_random = false;
                    g.allow_strings = false;
                    let it = vec![g.num(2)];
                    let text = print_top(&it, g.rng, 8);
                    if !text.contains('$') && !text.contains('{') {
                        self.nvar += 1;
                        let name = format!("e{}", self.nvar);
                        self.xml.push(format!("<var {name}=\"{}\"/>", xml_escape_attr(&text)));
                        self.env.push(VarDef { name, text, kind: VarKind::Expr(it) });
                    }
                }
                self.direct_next = true;
                let pcg0 = self.pcg.clone();
                let mut got = self.expr(true, allow_random);
                self.direct_next = false;
                // ... and when such a variable exists, half of the tests use it as the operand of an operator
                // that binds tighter than the ones inside its value: `$e3 * 2`, `7 % $e3`, `-$e3`, `4 - $e3`
                let evars: Vec<String> = self.env.iter().filter(|d| matches!(&d.kind, VarKind::Expr(it) if it.len() == 1)).map(|d| d.name.clone()).collect();
                if !evars.is_empty() && self.rng.chance(1, 2) {
                    let v = E::Var(evars[self.rng.below(evars.len())].clone(), self.rng.chance(1, 3));
                    let k = E::Num((2 + self.rng.below(4)).to_string());
                    let arith = match self.rng.below(4) {
                        0 => E::Bin('*', Box::new(v), Box::new(k)),
                        1 => E::Bin('-', Box::new(k), Box::new(v)),
                        2 => E::Neg(Box::new(v)),
                        _ => E::Bin('/', Box::new(k), Box::new(v)),
                    };
                    let items = vec![E::Cmp(*self.rng.pick(&["lt", "ge", "eq", "ne"]), Box::new(arith), Box::new(E::Num(self.rng.below(9).to_string())))];
                    let body = print_top(&items, self.rng, 8);
                    // (the test generated above is dropped, and with it the random words it drew)
                    let mut trial = pcg0.clone();
                    if let Ok(vv) = eval_items(&items, &self.env, &mut trial) {
                        if let Some(sv) = doc_value(&vv) {
                            if vv.len() == 1 { self.pcg = trial; got = Some((format!("{{{{{body}}}}}"), sv, vv)); }
                        }
                    }
                }
                if let Some((src, val, _v)) = got {
                    // a test is judged on the value as the document shows it (3 decimals): 0.0003 is "0"
                    let truth = val.parse::<f32>().map(|x| x != 0.0).unwrap_or(false);
                    let test = if self.rng.chance(1, 2) { src.clone() } else { src.trim_start_matches("{{").trim_end_matches("}}").to_string() };
                    self.xml.push(format!("<if test=\"{}\">", xml_escape_attr(&test)));
                    let start = self.xml.len();
                    if truth {
                        self.block(1);
                        self.block(1);
                    } else {
                        // generated but never evaluated: must not draw and must not appear
                        let saved = (self.pcg.clone(), self.data.len(), self.texts.len(), self.comments.len(), self.env.clone());
                        self.block(1);
                        self.pcg = saved.0;
                        self.data.truncate(saved.1);
                        self.texts.truncate(saved.2);
                        self.comments.truncate(saved.3);
                        self.env = saved.4;
                    }
                    let _ = start;
                    self.xml.push("</if>".into());
                    self.contexts.push(if truth { "if-true" } else { "if-false" });
                }
            }
            _ => {
                // <for data>
                if depth > 0 { return false; }
                let k = 1 + self.rng.below(3);
                let vals: Vec<String> = (0..k).map(|_| lit(self.rng)).collect();
                let name = format!("q{}", self.nvar);
                self.nvar += 1;
                let data = if self.rng.chance(1, 2) { format!("{{{{{}}}}}", vals.join(", ")) } else { vals.join(", ") };
                self.xml.push(format!("<for data=\"{data}\" var=\"{name}\"><circle r=\"1\" data-v=\"{{{{${name} + random()}}}}\"/></for>"));
                let mut last = String::new();
                for v in &vals {
                    let x: f32 = v.parse().unwrap_or(0.0);
                    // the loop variable holds the list item as the string eval_list produced (3 decimals)
                    let item = fstr32(x);
                    let xi: f32 = item.parse().unwrap_or(0.0);
                    let r = self.pcg.random_f32();
                    self.data.push(format!("||{}", fstr32(xi + r)));
                    last = item;
                }
                self.env.retain(|d| d.name != name);
                self.env.push(VarDef { name, text: last.clone(), kind: VarKind::Lit(vec![last]) });
                self.contexts.push("for-data");
            }
        }
        self.contexts.len() > before
    }

    /// body of a counted loop: one element whose data-v expression is evaluated once per iteration
    fn loop_body(&mut self, k: usize) -> Option<()> {
        // deterministic part + explicit random part so every iteration is predictable from the same source
        let mut g = Gen::new(self.rng);
        g.env = self.env.clone();
        g.allow_random = true;
        g.allow_strings = false;
        let item = g.num(2);
        let body = print_top(std::slice::from_ref(&item), g.rng, 8);
        let src = format!("{{{{{body}{}}}}}", pad(&body));
        let mut trial = self.pcg.clone();
        let mut vals = vec![];
        for _ in 0..k {
            match eval_items(std::slice::from_ref(&item), &self.env, &mut trial) {
                Ok(v) => vals.push(doc_value(&v)?),
                Err(_) => return None,
            }
        }
        self.pcg = trial;
        self.xml.push(format!("<circle r=\"1\" data-v=\"{}\"/>", xml_escape_attr(&src)));
        for v in vals { self.data.push(format!("||{v}")); }
        Some(())
    }
}

fn doc_stream(rep: &mut Report, rng: &mut Rng, n: usize) -> Result<(), String> {
    let mut st = Stream::new(
        "oracle/doc",
        "oracle",
        "documents without forward references with expressions in geometry attributes (x, y), pass-through attributes, text content, text=, the _ comment, <var>, <loop count>, <loop while> with a counter variable, <if test> (true and false), <for data>; variables defined by earlier <var> elements are used by later expressions; checked against the reference evaluator threading one random source through the document: every evaluated value, the number of rendered elements, and the total number of random words = one per random()/randint() occurrence per rendered element / loop iteration / test; plus damaged expressions in each context, which must fail the transform; non-trivial = every document",
    );
    for case in 0..n {
        let seed = rng.below(4) as u64;
        let mut dg = DocGen { rng, env: vec![], pcg: RefPcg::seed(seed), xml: vec![], data: vec![], texts: vec![], comments: vec![], nvar: 0, contexts: vec![], direct_next: false };
        let blocks = 2 + dg.rng.below(6);
        for _ in 0..blocks { dg.block(0); }
        let damaged = case % 10 == 9;
        if damaged {
            let bad = *dg.rng.pick(&["{{(1 + 2}}", "{{sine(3)}}", "{{abs(1, 2)}}", "{{$nosuch}}", "{{1 +}}", "{{2 ) }}"]);
            let el = match dg.rng.below(5) {
                0 => format!("<rect x=\"{bad}\" y=\"0\" width=\"1\" height=\"1\"/>"),
                1 => format!("<text x=\"1\" y=\"1\">{bad}</text>"),
                2 => format!("<var z=\"{bad}\"/>"),
                3 => format!("<loop count=\"{bad}\"><circle r=\"1\"/></loop>"),
                _ => format!("<if test=\"{bad}\"><circle r=\"1\"/></if>"),
            };
            let at = dg.rng.below(dg.xml.len() + 1);
            // only at top level: insert between complete blocks is not tracked, so append
            let _ = at;
            dg.xml.push(el);
        }
        let doc = format!("<svg>\n{}\n</svg>", dg.xml.join("\n"));
        let (data, texts, comments, want_draws, contexts) = (dg.data, dg.texts, dg.comments, dg.pcg.draws, dg.contexts);
        st.case(&doc, true, || json!({"document": doc, "seed": seed}));
        for c in &contexts { st.tally(&format!("context={c}")); }
        if damaged { st.tally("damaged"); }
        let mut expect_vals: Vec<String> = data.iter().map(|d| d.rsplit('|').next().unwrap_or("").to_string()).collect();
        expect_vals.extend(texts.iter().cloned());
        let replay = if damaged { json!({"input": doc, "seed": seed, "kind": "document", "expect": {"must_fail": "damaged expression"}}) } else { json!({"input": doc, "seed": seed, "kind": "document", "expect": {"values": expect_vals, "random_words": want_draws}}) };
        let mut bad = |sig: &str, what: String, rep: &mut Report| {
            rep.violation(Violation { kind: "oracle", stream: "oracle/doc".into(), signature: format!("C14:doc:{sig}"), what, replay: replay.clone(), confirmed_on_impl: true });
        };
        match run_doc(&doc, seed) {
            DocOut::Panic(p) => bad("panic", format!("panic: {p}"), rep),
            DocOut::Err(e) => {
                if damaged { st.errors_agreed += 1; } else { bad("rejected", format!("document with well-formed expressions fails: {e}"), rep) }
            }
            DocOut::Ok(out, draws) => {
                if damaged {
                    bad("accepted", "a damaged expression did not fail the transform".to_string(), rep);
                    continue;
                }
                let els = match parse_elements(&out) { Ok(e) => e, Err(e) => { bad("unparseable", e, rep); continue; } };
                let got: Vec<String> = els.iter().filter(|o| o.el.get("data-v").is_some()).map(|o| {
                    if o.el.name == "rect" { format!("{}|{}|{}", o.el.get("x").unwrap_or("0"), o.el.get("y").unwrap_or("0"), o.el.get("data-v").unwrap_or("")) } else { format!("||{}", o.el.get("data-v").unwrap_or("")) }
                }).collect();
                // a zero coordinate may be dropped or printed as 0
                let norm = |s: &String| s.clone();
                let got_texts: Vec<String> = els.iter().filter(|o| (o.el.name == "text" || o.el.name == "tspan") && o.text.starts_with("v=")).map(|o| o.text.clone()).collect();
                let mut pos = 0usize;
                let mut comments_ok = true;
                for c in &comments {
                    match out[pos..].find(&format!("<!--{c}-->")) { Some(i) => pos += i + 1, None => { comments_ok = false; break; } }
                }
                if got.iter().map(norm).collect::<Vec<_>>() != data {
                    bad("value", format!("evaluated attribute values {got:?}, conventional values {data:?}"), rep);
                } else if got_texts != texts {
                    bad("text", format!("text contents {got_texts:?}, conventional {texts:?}"), rep);
                } else if !comments_ok {
                    bad("comment", format!("comments {comments:?} not found in order"), rep);
                } else if draws != want_draws {
                    bad("draws", format!("{draws} random words taken by the document, {want_draws} = one per occurrence per rendered element"), rep);
                } else {
                    st.exact += 1;
                }
            }
        }
    }
    rep.streams.push(st);
    Ok(())
}
