//! C15 — variable scoping is lexical and unaffected by evaluation order.
use crate::ctl::*;
use crate::driver::Driver;
use crate::report::*;
use crate::rng::Rng;
use serde_json::json;
use std::collections::HashMap;

const VARS: [&str; 3] = ["a", "b", "c"];

/// lexical reference: scopes as a stack of maps; returns the probe values in document order
struct Lex {
    scopes: Vec<HashMap<String, String>>,
    probes: Vec<String>,
    /// reuse templates (content of the groups written inside <specs>), by id
    templates: HashMap<String, (Vec<(String, String)>, Vec<X>)>,
}

impl Lex {
    fn get(&self, k: &str) -> Option<String> {
        self.scopes.iter().rev().find_map(|s| s.get(k).cloned())
    }
    /// `$name` / `${name}` substitution, undefined names left verbatim
    fn subst(&self, v: &str) -> String {
        let mut out = String::new();
        let cs: Vec<char> = v.chars().collect();
        let mut i = 0;
        while i < cs.len() {
            if cs[i] == '$' {
                if i + 1 < cs.len() && cs[i + 1] == '{' {
                    if let Some(end) = cs[i + 2..].iter().position(|c| *c == '}') {
                        let name: String = cs[i + 2..i + 2 + end].iter().collect();
                        match self.get(&name) { Some(x) => out.push_str(&x), None => out.push_str(&format!("${{{name}}}")) }
                        i += end + 3;
                        continue;
                    }
                }
                let mut j = i + 1;
                while j < cs.len() && (cs[j].is_alphanumeric() || cs[j] == '_') { j += 1; }
                let name: String = cs[i + 1..j].iter().collect();
                match self.get(&name) { Some(x) => out.push_str(&x), None => { out.push('$'); out.push_str(&name); } }
                i = j;
            } else {
                out.push(cs[i]);
                i += 1;
            }
        }
        out
    }
    fn set(&mut self, k: &str, v: String) {
        self.scopes.last_mut().unwrap().insert(k.to_string(), v);
    }
    fn run(&mut self, nodes: &[X]) {
        for n in nodes {
            if let X::El { name, attrs, kids } = n {
                match name.as_str() {
                    "var" => {
                        let vals: Vec<(String, String)> = attrs.iter().map(|(k, v)| (k.clone(), self.subst(v))).collect();
                        for (k, v) in vals { self.set(&k, v); }
                    }
                    "g" => {
                        let mut m = HashMap::new();
                        for (k, v) in attrs { m.insert(k.clone(), v.clone()); }
                        self.scopes.push(m);
                        if let Some(ks) = kids { self.run(ks); }
                        self.scopes.pop();
                    }
                    "specs" => {
                        // never rendered; its groups are templates
                        for k in kids.iter().flatten() {
                            if let X::El { attrs, kids: Some(ks), .. } = k {
                                if let Some((_, id)) = attrs.iter().find(|(a, _)| a == "id") { self.templates.insert(id.clone(), (attrs.clone(), ks.clone())); }
                            }
                        }
                    }
                    "reuse" => {
                        // the reuse element's attributes are a scope around a fresh copy of the template
                        let mut m = HashMap::new();
                        let mut tpl = None;
                        for (k, v) in attrs { if k == "href" { tpl = self.templates.get(v.trim_start_matches('#')).cloned(); } else { m.insert(k.clone(), self.subst(v)); } }
                        // the copy is a group: a scope of its own, holding the template group's attributes -
                        // those the reuse element also carries take the reuse element's value, which was
                        // evaluated where the reuse element stands (outside its own bindings)
                        let mut gs = HashMap::new();
                        if let Some((ta, _)) = &tpl {
                            for (k, v) in ta { if k != "id" { gs.insert(k.clone(), m.get(k).cloned().unwrap_or_else(|| v.clone())); } }
                        }
                        self.scopes.push(m);
                        self.scopes.push(gs);
                        if let Some((_, ks)) = tpl { self.run(&ks); }
                        self.scopes.pop();
                        self.scopes.pop();
                    }
                    "loop" => {
                        let count: usize = attrs.iter().find(|(k, _)| k == "count").and_then(|(_, v)| v.parse().ok()).unwrap_or(0);
                        let lv = attrs.iter().find(|(k, _)| k == "loop-var").map(|(_, v)| v.clone());
                        for i in 0..count {
                            if let Some(lv) = &lv { self.set(lv, i.to_string()); }
                            if let Some(ks) = kids { self.run(ks); }
                        }
                    }
                    "if" => {
                        let t = attrs.iter().find(|(k, _)| k == "test").map(|(_, v)| v.as_str()).unwrap_or("0");
                        if t != "0" { if let Some(ks) = kids { self.run(ks); } }
                    }
                    _ => {
                        if let Some((_, p)) = attrs.iter().find(|(k, _)| k == "data-p") {
                            let v = self.subst(p);
                            self.probes.push(v);
                        }
                    }
                }
            }
        }
    }
}

struct Gen<'a> {
    rng: &'a mut Rng,
    n_probe: usize,
    forward: bool,
    /// no variable is defined at the start: assignments are plain values only (a value containing `$x`
    /// of an undefined x would be re-substituted by the second attribute pass)
    plain_only: bool,
    /// variables that may no longer be assigned at outer levels (a retried unit has read them)
    frozen: Vec<String>,
}

impl<'a> Gen<'a> {
    fn value(&mut self) -> String {
        format!("{}{}", self.rng.pick(&["x", "y", "zz", "q"]), self.rng.below(9))
    }
    fn probe(&mut self, with_forward: bool) -> X {
        let a = *self.rng.pick(&VARS);
        let b = *self.rng.pick(&VARS);
        self.n_probe += 1;
        let p = match self.rng.below(3) { 0 => format!("${a}"), 1 => format!("${{{a}}}|${b}"), _ => format!("[{}]-${b}-$nope", format!("${a}")) };
        let mut attrs = vec![("wh".to_string(), "1".to_string()), ("data-p".to_string(), p)];
        if with_forward {
            attrs.push(("xy".to_string(), "#z|h 1".to_string()));
        }
        X::El { name: "rect".into(), attrs, kids: None }
    }
    /// a list of nodes at nesting `depth`; `in_unit_forward`: we are inside a top-level unit that will be retried
    fn body(&mut self, depth: usize, len: usize, in_retried: bool, scoped: bool) -> (Vec<X>, bool) {
        let mut out = vec![];
        let mut has_forward = false;
        for _ in 0..len {
            match self.rng.below(if depth >= 3 { 4 } else { 9 }) {
                8 if self.plain_only => out.push(self.probe(false)),
                8 => {
                    // <reuse>: its attributes are locals of the copy; one template holds a forward reference,
                    // so the whole instantiation (and what encloses it) fails first and is attempted again
                    let k = *self.rng.pick(&VARS);
                    let v = self.value();
                    let fwd = self.forward && self.rng.chance(1, 2);
                    has_forward |= fwd;
                    let mut attrs = vec![("href".to_string(), if fwd { "#tplF" } else { "#tplA" }.to_string())];
                    if self.rng.chance(3, 4) { attrs.push((k.to_string(), v)); }
                    // an attribute the template group has as well, written in terms of a variable that this very
                    // reuse element binds: it is evaluated where the reuse element stands, not inside its bindings
                    if !fwd && self.rng.chance(1, 2) {
                        let q = match self.rng.below(3) { 0 => format!("${k}"), 1 => format!("<${{{k}}}>"), _ => self.value() };
                        if self.rng.chance(1, 2) { attrs.push(("q".to_string(), q)); } else { attrs.insert(1, ("q".to_string(), q)); }
                    }
                    out.push(X::El { name: "reuse".into(), attrs, kids: None });
                }
                0 | 1 => out.push(self.probe(false)),
                2 => {
                    // assignment: plain or in terms of current values; all attributes in parallel
                    let k = *self.rng.pick(&VARS);
                    if self.frozen.iter().any(|f| f == k) && !scoped { continue; }
                    if in_retried && !scoped { continue; }
                    let k2 = *self.rng.pick(&VARS);
                    let attrs: Vec<(String, String)> = match if self.plain_only { 0 } else { self.rng.below(5) } {
                        0 => vec![(k.to_string(), self.value())],
                        // a literal for one name next to a read of that name: the read sees the value in force
                        // before the <var>, whichever attribute is written first
                        3 | 4 if k != k2 && !(self.frozen.iter().any(|f| f == k2) && !scoped) => {
                            let lit = (k.to_string(), self.value());
                            let read = (k2.to_string(), if self.rng.chance(1, 2) { format!("${k}") } else { format!("<${{{k}}}>") });
                            if self.rng.chance(1, 2) { vec![lit, read] } else { vec![read, lit] }
                        }
                        1 => vec![(k.to_string(), format!("${k2}+"))],
                        _ if k != k2 && !(self.frozen.iter().any(|f| f == k2) && !scoped) => vec![(k.to_string(), format!("${k2}")), (k2.to_string(), format!("${k}"))],
                        _ => vec![(k.to_string(), self.value())],
                    };
                    out.push(X::El { name: "var".into(), attrs, kids: None });
                }
                3 => {
                    if self.forward && self.rng.chance(1, 2) {
                        out.push(self.probe(true));
                        has_forward = true;
                    } else {
                        out.push(self.probe(false));
                    }
                }
                4 | 5 => {
                    let k = *self.rng.pick(&VARS);
                    let v = self.value();
                    let n = 1 + self.rng.below(3);
                    let (ks, f) = self.body(depth + 1, n, in_retried, true);
                    has_forward |= f;
                    let attrs = if self.rng.chance(3, 4) { vec![(k.to_string(), v)] } else { vec![] };
                    // a self-closing group binds its attributes for nothing: what follows must not see them,
                    // and the enclosing element must still close its own scope
                    if self.rng.chance(1, 6) {
                        let k0 = *self.rng.pick(&VARS);
                        let v0 = self.value();
                        out.push(X::El { name: "g".into(), attrs: vec![(k0.to_string(), v0)], kids: None });
                    }
                    out.push(X::El { name: "g".into(), attrs, kids: Some(ks) });
                }
                6 => {
                    let n = 1 + self.rng.below(2);
                    let (ks, f) = self.body(depth + 1, n, in_retried, scoped);
                    has_forward |= f;
                    let c = self.rng.below(3);
                    let mut attrs = vec![("count".to_string(), c.to_string())];
                    if self.rng.chance(1, 2) && !(in_retried && !scoped) && !self.frozen.iter().any(|f| f == "c") { attrs.push(("loop-var".to_string(), "c".to_string())); }
                    out.push(X::El { name: "loop".into(), attrs, kids: Some(ks) });
                }
                _ => {
                    let n = 1 + self.rng.below(2);
                    let (ks, f) = self.body(depth + 1, n, in_retried, scoped);
                    has_forward |= f;
                    out.push(X::El { name: "if".into(), attrs: vec![("test".to_string(), if self.rng.chance(2, 3) { "1" } else { "0" }.to_string())], kids: Some(ks) });
                }
            }
        }
        (out, has_forward)
    }
}

fn reads(n: &X, acc: &mut Vec<String>) {
    if let X::El { name, .. } = n { if name == "reuse" { for k in VARS { acc.push(k.to_string()); } } }
    if let X::El { attrs, kids, .. } = n {
        for (_, v) in attrs {
            for k in VARS { if v.contains(&format!("${k}")) || v.contains(&format!("${{{k}}}")) { acc.push(k.to_string()); } }
        }
        if let Some(ks) = kids { for k in ks { reads(k, acc); } }
    }
}

fn gen_doc(rng: &mut Rng, forward: bool, plain_only: bool) -> Vec<X> {
    let mut g = Gen { rng, n_probe: 0, forward, plain_only, frozen: vec![] };
    let mut top: Vec<X> = if plain_only { vec![] } else { vec![X::leaf("var", &[("a", "A0"), ("b", "B0"), ("c", "C0")])] };
    // (not in the empty-scope mode: there the document must begin without any scope having existed)
    if !plain_only { top.push(X::node("specs", &[], vec![
        X::node("g", &[("id", "tplA"), ("q", "q0")], vec![X::leaf("rect", &[("wh", "1"), ("data-p", "$a|$b|${c}|$q")])]),
        X::node("g", &[("id", "tplF")], vec![X::leaf("rect", &[("wh", "1"), ("data-p", "<$a>")]), X::leaf("rect", &[("wh", "1"), ("xy", "#z|h 1"), ("data-p", "$b-$c")])]),
    ])); }
    let units = 3 + g.rng.below(5);
    for _ in 0..units {
        // build one top-level unit; if it contains a forward reference it will be retried as a whole:
        // regenerate it under the "retried" discipline (no unscoped assignments inside)
        let save = g.rng.clone();
        let (mut unit, f) = g.body(0, 1, false, false);
        if f {
            *g.rng = save;
            let (u2, _) = g.body(0, 1, true, false);
            unit = u2;
            let mut r = vec![];
            for n in &unit { reads(n, &mut r); }
            g.frozen.extend(r);
        }
        top.extend(unit);
    }
    top.push(X::leaf("rect", &[("id", "z"), ("xy", "0 50"), ("wh", "2")]));
    // a last probe after everything
    top.push(X::leaf("rect", &[("wh", "1"), ("data-p", "$a/$b/$c")]));
    top
}

fn probes_of(events: &[String]) -> Vec<String> {
    let mut out = vec![];
    for e in events {
        let parts: Vec<&str> = e[2..].split('\u{1f}').collect();
        let mut i = 1;
        while i + 1 < parts.len() {
            if parts[i] == "data-p" { out.push(parts[i + 1].to_string()); }
            i += 2;
        }
    }
    out
}

fn check_doc(rep: &mut Report, drv: &mut Driver, corr: &mut Stream, orc: &mut Stream, nodes: &[X], tag: &str) -> Result<(), String> {
    let xml = doc_xml(nodes);
    let lim = Limits::default();
    let imp = run_impl(&xml, lim);
    let mdl = run_model(drv, nodes, lim)?;
    corr.case(&xml, true, || json!({"document": xml, "impl": imp.status, "model": mdl.status}));
    corr.tally(tag);
    corr.tally(&format!("impl={}", imp.status));
    if mdl.outside { corr.skipped += 1; } else {
        match agree(&imp, &mdl) {
            Ok(()) => corr.exact += 1,
            Err(what) => rep.violation(Violation { kind: "correspondence", stream: corr.name.clone(), signature: format!("scoping:{tag}"), what, replay: json!({"input": xml}), confirmed_on_impl: false }),
        }
    }
    let mut lex = Lex { scopes: vec![HashMap::new()], probes: vec![], templates: HashMap::new() };
    lex.run(nodes);
    orc.case(&xml, lex.probes.len() > 1, || json!({"document": xml, "lexical_probe_values": lex.probes}));
    let mut fail = None;
    if imp.status != "ok" {
        fail = Some(format!("transform of a valid document failed: {}", imp.status));
    } else {
        let got = probes_of(&imp.events);
        if got != lex.probes {
            let idx = got.iter().zip(&lex.probes).position(|(a, b)| a != b).unwrap_or(got.len().min(lex.probes.len()));
            fail = Some(format!("probe {idx} resolves to {:?}, the lexical binding is {:?}", got.get(idx), lex.probes.get(idx)));
        } else if imp.scope_height > 1 || imp.elem_stack != 0 || imp.depth != 0 {
            fail = Some(format!("stacks not restored at the end: scopes={} elements={} depth={}", imp.scope_height, imp.elem_stack, imp.depth));
        }
    }
    match fail {
        Some(what) => rep.violation(Violation { kind: "oracle", stream: orc.name.clone(), signature: format!("C15:{tag}"), what, replay: json!({"input": xml, "lexical_probe_values": lex.probes}), confirmed_on_impl: true }),
        None => orc.exact += 1,
    }
    Ok(())
}

/// `<defaults>`: scoped like variables (they live in the same scope stack), applied to empty-element tags
/// only. Not part of the property's statement (which speaks of variables), so correspondence only: the model of
/// context.rs `set_element_default` / `apply_defaults` vs the implementation, event for event.
fn gen_defaults_doc(rng: &mut Rng) -> Vec<X> {
    fn attrs_default(rng: &mut Rng) -> Vec<(String, String)> {
        let mut a: Vec<(String, String)> = vec![];
        if rng.chance(1, 2) {
            let toks: Vec<&str> = (0..rng.below(4)).map(|_| *rng.pick(&["init", "final", "rect", "circle", ".a", ".big", "rect.a", "circle.b", ".", "rect.", "_", "g", ".x-y"])).collect();
            a.push(("match".into(), toks.join(*rng.pick(&[" ", ",", ", ", "  "]))));
        }
        let pool: [(&str, &[&str]); 12] = [("fill", &["red", "blue"]), ("stroke", &["s1"]), ("rx", &["1", "2"]), ("id", &["zz"]), ("style", &["s:1", "q:2"]), ("text-style", &["t:1"]),
            ("transform", &["translate(1)", "scale(2)"]), ("class", &["a", "b a", "big", "a  b"]), ("x", &["5"]), ("width", &["7"]), ("opacity", &["0.5"]), ("r", &["3"])];
        for (k, vs) in pool.iter() { if rng.chance(3, 10) { a.push((k.to_string(), rng.pick(vs).to_string())); } }
        for i in (1..a.len()).rev() { let j = rng.below(i + 1); a.swap(i, j); }
        a
    }
    fn defaults_el(rng: &mut Rng) -> X {
        if rng.chance(1, 10) { return X::El { name: "defaults".into(), attrs: vec![], kids: None }; }
        let mut kids = vec![];
        for _ in 0..rng.below(4) {
            let n = *rng.pick(&["rect", "circle", "_", "text", "g"]);
            let a = attrs_default(rng);
            if rng.chance(3, 20) {
                let inner = X::El { name: rng.pick(&["rect", "_"]).to_string(), attrs: attrs_default(rng), kids: None };
                kids.push(X::El { name: n.into(), attrs: a, kids: Some(vec![inner]) });
            } else {
                kids.push(X::El { name: n.into(), attrs: a, kids: None });
            }
        }
        X::El { name: "defaults".into(), attrs: vec![], kids: Some(kids) }
    }
    fn shape(rng: &mut Rng) -> X {
        let n = *rng.pick(&["rect", "circle", "rect", "rect"]);
        let mut a: Vec<(String, String)> = vec![];
        if n == "rect" { a.push(("wh".into(), rng.pick(&["2", "3 4"]).to_string())); } else { a.push(("r".into(), "2".into())); }
        let pool: [(&str, &[&str]); 8] = [("fill", &["own"]), ("class", &["a", "big", "b x-y", "a big"]), ("style", &["o:1"]), ("transform", &["rotate(3)"]), ("text-style", &["ot:2"]), ("rx", &["9"]), ("text", &["hi"]), ("xy", &["1 2"])];
        for (k, vs) in pool.iter() { if rng.chance(1, 4) { a.push((k.to_string(), rng.pick(vs).to_string())); } }
        X::El { name: n.into(), attrs: a, kids: None }
    }
    fn seq(rng: &mut Rng, depth: usize) -> Vec<X> {
        let mut out = vec![];
        for _ in 0..1 + rng.below(5) {
            let r = rng.below(100);
            if r < 30 { out.push(defaults_el(rng)); }
            else if r < 45 && depth < 2 { let a = if rng.chance(3, 10) { vec![("class".to_string(), "big".to_string())] } else { vec![] }; out.push(X::El { name: "g".into(), attrs: a, kids: Some(seq(rng, depth + 1)) }); }
            else if r < 50 { out.push(X::El { name: "g".into(), attrs: vec![], kids: None }); }
            else if r < 55 { out.push(X::leaf("var", &[("v", "1")])); }
            else if r < 60 && depth < 2 { out.push(X::El { name: "if".into(), attrs: vec![("test".into(), rng.pick(&["1", "0"]).to_string())], kids: Some(seq(rng, depth + 1)) }); }
            else if r < 65 && depth < 2 { out.push(X::El { name: "loop".into(), attrs: vec![("count".into(), "2".into())], kids: Some(seq(rng, depth + 1)) }); }
            else if r < 70 { out.push(X::leaf("rect", &[("xy", "#late|h 1"), ("wh", "2")])); }
            else { out.push(shape(rng)); }
        }
        out
    }
    let mut doc = seq(rng, 0);
    doc.push(X::leaf("rect", &[("id", "late"), ("xy", "0 40"), ("wh", "2")]));
    doc
}

fn stream_defaults(rep: &mut Report, drv: &mut Driver, rng: &mut Rng, n: usize) -> Result<(), String> {
    let mut corr = Stream::new(
        "doc/defaults",
        "correspondence",
        "documents with <defaults> blocks (element / _ / .class / name.class patterns, init and final flags, style / text-style / transform augmentation, nested blocks) among shapes, groups, loops, conditionals, variables and elements that wait for a forward reference: transform_str (events + end-of-run probe) vs the Lean model of set_element_default / apply_defaults; non-trivial = every case",
    );
    let lim = Limits::default();
    for _ in 0..n {
        let doc = gen_defaults_doc(rng);
        let xml = doc_xml(&doc);
        let imp = run_impl(&xml, lim);
        let mdl = run_model(drv, &doc, lim)?;
        corr.case(&xml, true, || json!({"document": xml, "impl": imp.status, "model": mdl.status}));
        corr.tally(&format!("impl={}", imp.status));
        if mdl.outside { corr.skipped += 1; corr.tally("outside-model"); } else {
            match agree(&imp, &mdl) {
                Ok(()) => corr.exact += 1,
                Err(what) => rep.violation(Violation { kind: "correspondence", stream: corr.name.clone(), signature: "defaults".into(), what, replay: json!({"input": xml}), confirmed_on_impl: false }),
            }
        }
    }
    rep.streams.push(corr);
    Ok(())
}

/// known-finding inputs and minimised past failures; each file: {input, lexical_probe_values, signature}
fn corpus(rep: &mut Report) {
    let mut st = Stream::new("corpus", "oracle", "files of /verif/corpus/C15 (past failures and known findings): probe values must equal the recorded lexical bindings");
    if let Ok(rd) = std::fs::read_dir("/verif/corpus/C15") {
        let mut files: Vec<_> = rd.filter_map(|e| e.ok()).map(|e| e.path()).collect();
        files.sort();
        for f in files {
            let Ok(text) = std::fs::read_to_string(&f) else { continue };
            let Ok(v) = serde_json::from_str::<serde_json::Value>(&text) else { continue };
            let Some(doc) = v.get("input").and_then(|x| x.as_str()) else { continue };
            let want: Vec<String> = v.get("lexical_probe_values").and_then(|x| x.as_array()).map(|a| a.iter().filter_map(|s| s.as_str().map(|s| s.to_string())).collect()).unwrap_or_default();
            st.case(doc, true, || json!({"file": f.display().to_string()}));
            let imp = run_impl(doc, Limits::default());
            let got = probes_of(&imp.events);
            if imp.status != "ok" || got != want {
                let sig = v.get("signature").and_then(|x| x.as_str()).unwrap_or("C15:corpus").to_string();
                rep.violation(Violation { kind: "oracle", stream: "corpus".into(), signature: sig, what: format!("probes {:?} (status {}), lexical bindings {:?}", got, imp.status, want), replay: v.clone(), confirmed_on_impl: true });
            } else {
                st.exact += 1;
            }
        }
    }
    rep.streams.push(st);
}

pub fn replay(rep: &mut Report, v: &serde_json::Value) {
    let r = v.get("replay").unwrap_or(v);
    let Some(doc) = r.get("input").and_then(|x| x.as_str()) else { rep.notes.push("replay file has no input".into()); return; };
    let want: Vec<String> = r.get("lexical_probe_values").and_then(|x| x.as_array()).map(|a| a.iter().filter_map(|s| s.as_str().map(|s| s.to_string())).collect()).unwrap_or_default();
    let mut st = Stream::new("replay", "oracle", "the replay input");
    st.case(doc, true, || json!({"document": doc}));
    let imp = run_impl(doc, Limits::default());
    let got = probes_of(&imp.events);
    if imp.status != "ok" || got != want {
        rep.violation(Violation { kind: "oracle", stream: "replay".into(), signature: "C15:replay".into(), what: format!("probes {:?} (status {}), lexical bindings {:?}", got, imp.status, want), replay: r.clone(), confirmed_on_impl: true });
    } else { st.exact += 1; }
    rep.streams.push(st);
}

pub fn run(rep: &mut Report, tier: &str, seed: u64) -> Result<(), String> {
    let mut rng = Rng::new(seed);
    let mut drv = Driver::start()?;
    let n = if tier == "thorough" { 40_000 } else { 1_200 };
    corpus(rep);
    let mut corr = Stream::new(
        "doc/scoping",
        "correspondence",
        "fragments (with <reuse> of two group templates, one of which holds a forward reference; half of them with no variable defined before the first group, so that the scope stack starts empty) of nested g (with attribute locals) / loop (with loop-var) / if scopes, <var> assignments (plain, in terms of current values, two-attribute swaps, a literal next to a read of the same name in either order), probes <rect data-p=\"$a|${b}\"> and, in half of the documents, forward references #z that make the enclosing top-level unit fail and be re-evaluated; implementation (output elements + end-of-run stack heights) vs the Lean control-skeleton model; non-trivial = every case",
    );
    let mut orc = Stream::new(
        "oracle/lexical-binding",
        "oracle",
        "same documents; the sequence of probe values in the output must equal the one computed by a lexical-scoping reference interpreter (innermost definition; g attributes shadow for descendants only; var assignments in parallel; undefined $name verbatim); stacks empty at the end; non-trivial = more than one probe",
    );
    for i in 0..n {
        let forward = i % 2 == 1;
        let plain_only = i % 4 >= 2;
        let nodes = gen_doc(&mut rng, forward, plain_only);
        let tag = match (forward, plain_only) { (false, false) => "in-order", (true, false) => "forward-refs", (false, true) => "in-order/no-initial-scope", (true, true) => "forward-refs/no-initial-scope" };
        check_doc(rep, &mut drv, &mut corr, &mut orc, &nodes, tag)?;
    }
    rep.streams.push(corr);
    rep.streams.push(orc);
    stream_defaults(rep, &mut drv, &mut rng.fork(), n / 2)?;
    names_stream(rep, &mut rng.fork(), n / 6);
    Ok(())
}

/// variable names with letters outside ASCII, read in both spellings ($name and ${name}) next to defined and
/// undefined names that share an ASCII prefix with them (oracle only: the model's identifiers are ASCII)
fn names_stream(rep: &mut Report, rng: &mut Rng, n: usize) {
    let mut st = Stream::new("oracle/name-boundaries", "oracle",
        "documents binding variables whose names contain letters outside ASCII (größe, café, naïve_1, x²), through <var>, <g> attributes and <reuse> attributes, and reading them as $name and ${name}, followed by punctuation, next to a defined ASCII prefix of the name (gr, caf) and to undefined names: every read resolves to the innermost definition of exactly that name, the two spellings agree, an undefined name stays verbatim");
    const NAMES: [(&str, &str); 4] = [("größe", "gr"), ("café", "caf"), ("naïve_1", "na"), ("xé2", "x")];
    for _ in 0..n {
        let (name, prefix) = *rng.pick(&NAMES);
        let (v_outer, v_inner, v_pre) = (format!("o{}", rng.below(9)), format!("i{}", rng.below(9)), format!("p{}", rng.below(9)));
        let define_full = rng.chance(3, 4);
        let define_prefix = rng.chance(1, 2);
        let tail = *rng.pick(&["", "-", ".", " z", "|"]);
        let mut doc = String::from("<svg>");
        let mut vars: Vec<String> = vec![];
        if define_full { vars.push(format!("{name}=\"{v_outer}\"")); }
        if define_prefix { vars.push(format!("{prefix}=\"{v_pre}\"")); }
        if !vars.is_empty() { doc.push_str(&format!("<var {}/>", vars.join(" "))); }
        let shadow = rng.chance(1, 2);
        let probe = format!("<rect wh=\"1\" data-p=\"${name}{tail}\" data-q=\"${{{name}}}{tail}\"/>");
        if shadow { doc.push_str(&format!("<g {name}=\"{v_inner}\">{probe}</g>")); }
        doc.push_str(&probe);
        doc.push_str("</svg>");
        let outer = if define_full { v_outer.clone() } else { format!("${name}") };
        let outer_q = if define_full { v_outer.clone() } else { format!("${{{name}}}") };
        let mut want: Vec<(String, String)> = vec![];
        if shadow { want.push((format!("{v_inner}{tail}"), format!("{v_inner}{tail}"))); }
        want.push((format!("{outer}{tail}"), format!("{outer_q}{tail}")));
        st.case(&doc, true, || json!({"document": doc}));
        match crate::util::transform(&doc, &crate::util::default_cfg()) {
            Ok(Ok(out)) => {
                let got: Vec<(String, String)> = match crate::util::parse_elements(&out) {
                    Ok(els) => els.iter().filter(|o| o.el.get("data-p").is_some()).map(|o| (o.el.get("data-p").unwrap_or("").to_string(), o.el.get("data-q").unwrap_or("").to_string())).collect(),
                    Err(_) => vec![],
                };
                if got == want { st.exact += 1; } else {
                    rep.violation(Violation { kind: "oracle", stream: st.name.clone(), signature: "C15:name-boundary".into(), what: format!("reads of ${name} / ${{{name}}} give {got:?}, the innermost definitions give {want:?}"), replay: json!({"input": doc}), confirmed_on_impl: true });
                }
            }
            Ok(Err(e)) => rep.violation(Violation { kind: "oracle", stream: st.name.clone(), signature: "C15:name-boundary-error".into(), what: format!("transform fails: {e}"), replay: json!({"input": doc}), confirmed_on_impl: true }),
            Err(p) => rep.violation(Violation { kind: "oracle", stream: st.name.clone(), signature: "C15:panic".into(), what: format!("panic: {p}"), replay: json!({"input": doc}), confirmed_on_impl: true }),
        }
    }
    rep.streams.push(st);
}
