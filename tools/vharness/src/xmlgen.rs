//! Generators for the XML-layer properties: hostile strings, well-formed real-SVG documents and
//! svgdx-mode documents that route hostile strings into every output sink.
use crate::rng::Rng;

const PIECES: [&str; 41] = [
    // characters next to the ones XML excludes, in code point and in UTF-8 bytes (U+xFFE / U+xFFF end in BF BE / BF BF
    // like U+FFFE / U+FFFF; the plane-final non-characters are XML characters)
    "\u{6FFE}", "\u{5FFF}", "\u{FFE}", "\u{1FFFE}", "\u{FFFD}", "\u{D7FF}\u{E000}", "\u{10FFFF}",
    "a", "b", "Z", "1", " ", " ", "é", "😀", "&", "<", ">", "\"", "'", "-", "--", "]]>", "]]", "\u{85}", "\u{2028}",
    ";", "#", "(", ")", "&amp;", "&lt;", "&#60;", "&quot;", "x=y", "/*", "*/", "<!--", "-->", "<![CDATA[", "?>",
];

/// a string over an XML-hostile alphabet (no `$`, `{{` or backslash: evaluation is another property's business)
pub fn hostile(rng: &mut Rng, max_pieces: usize) -> String {
    let n = 1 + rng.below(max_pieces);
    let mut s = String::new();
    for _ in 0..n {
        s.push_str(*rng.pick(&PIECES));
    }
    s
}

/// escape character data for an INPUT document, choosing among equivalent spellings
pub fn in_text(rng: &mut Rng, s: &str) -> String {
    let mut o = String::new();
    let cs: Vec<char> = s.chars().collect();
    for (i, &c) in cs.iter().enumerate() {
        match c {
            '&' => o.push_str(*rng.pick(&["&amp;", "&#38;", "&#x26;"])),
            '<' => o.push_str(*rng.pick(&["&lt;", "&#60;", "&#x3C;"])),
            // "]]>" must not appear literally in character data
            '>' if i >= 2 && cs[i - 1] == ']' && cs[i - 2] == ']' => o.push_str("&gt;"),
            '>' => o.push_str(*rng.pick(&["&gt;", ">", ">"])),
            '"' => o.push_str(*rng.pick(&["&quot;", "\""])),
            '\'' => o.push_str(*rng.pick(&["&apos;", "'"])),
            // legal XML characters that Unicode classes as controls (C1) or that are often written as references
            '\u{85}' => o.push_str(*rng.pick(&["\u{85}", "&#x85;", "&#133;"])),
            'é' => o.push_str(*rng.pick(&["é", "é", "&#xE9;", "&#233;"])),
            c => o.push(c),
        }
    }
    o
}

/// an attribute (with its quotes) for an INPUT document
pub fn in_attr(rng: &mut Rng, k: &str, v: &str) -> String {
    let q = if rng.chance(1, 4) { '\'' } else { '"' };
    let mut o = format!("{k}={q}");
    for c in v.chars() {
        match c {
            '&' => o.push_str(*rng.pick(&["&amp;", "&#38;"])),
            '<' => o.push_str("&lt;"),
            '>' => o.push_str(*rng.pick(&["&gt;", ">"])),
            '"' if q == '"' => o.push_str("&quot;"),
            '\'' if q == '\'' => o.push_str("&apos;"),
            '\n' => o.push_str("&#10;"),
            '\t' => o.push_str("&#9;"),
            c => o.push(c),
        }
    }
    o.push(q);
    o
}

pub fn htext(rng: &mut Rng, n: usize) -> String {
    let h = hostile(rng, n);
    in_text(rng, &h)
}

pub fn hattr(rng: &mut Rng, k: &str, n: usize) -> String {
    let h = hostile(rng, n);
    in_attr(rng, k, &h)
}

pub fn comment_text(rng: &mut Rng) -> String {
    // well-formed comment content: no "--", no trailing '-'
    let mut s = hostile(rng, 6).replace("--", "- ").replace("-->", "");
    while s.contains("--") { s = s.replace("--", "-"); }
    if s.ends_with('-') { s.push(' '); }
    s
}

const SVG_NAMES: [&str; 14] = ["g", "rect", "circle", "path", "text", "tspan", "defs", "linearGradient", "stop", "a", "use", "style", "title", "loop"];
const ATTR_NAMES: [&str; 16] = ["id", "class", "x", "y", "width", "height", "d", "xy", "wh", "text", "style", "fill", "xlink:href", "data-x", "transform", "surround"];

fn gen_children(rng: &mut Rng, depth: usize, out: &mut String) {
    let n = rng.below(if depth > 3 { 2 } else { 5 });
    for _ in 0..n {
        match rng.below(9) {
            0 | 1 => out.push_str(&htext(rng, 5)),
            2 => out.push_str(&format!("<!--{}-->", comment_text(rng))),
            3 => {
                let body = hostile(rng, 5).replace("]]>", "]] >");
                out.push_str(&format!("<![CDATA[{body}]]>"));
            }
            4 => out.push_str(&format!("<?{} {}?>", rng.pick(&["pi", "xml-stylesheet", "x"]), hostile(rng, 3).replace("?>", "? >"))),
            5 => out.push_str(*rng.pick(&["\n", "\n  ", "  \n\n ", " \t "])),
            _ => gen_element(rng, depth + 1, out),
        }
    }
}

fn gen_element(rng: &mut Rng, depth: usize, out: &mut String) {
    let name = *rng.pick(&SVG_NAMES);
    out.push('<');
    out.push_str(name);
    let na = rng.below(4);
    let mut used: Vec<&str> = vec![];
    for _ in 0..na {
        let k = *rng.pick(&ATTR_NAMES);
        if used.contains(&k) { continue; }
        used.push(k);
        let v = match k {
            "class" => format!("{} {}  {}", rng.pick(&["a", "d-red", "b"]), rng.pick(&["a", "c"]), rng.pick(&["a", "e", ""])),
            "xy" | "wh" => format!("{} {}", rng.below(50), rng.below(50)),
            _ => hostile(rng, 4),
        };
        out.push_str(*rng.pick(&[" ", "  ", "\n   "]));
        out.push_str(&in_attr(rng, k, &v));
    }
    if rng.chance(1, 3) {
        out.push_str(*rng.pick(&["/>", " />"]));
    } else {
        out.push('>');
        gen_children(rng, depth, out);
        out.push_str(&format!("</{name}{}>", rng.pick(&["", "", " "])));
    }
}

/// a well-formed document rooted at a namespaced <svg>
pub fn real_svg_doc(rng: &mut Rng) -> String {
    let mut s = String::new();
    if rng.chance(1, 3) { s.push_str("<?xml version=\"1.0\" encoding=\"UTF-8\"?>\n"); }
    // the prolog: comments, processing instructions and one DOCTYPE, in any order
    let mut doctype_done = false;
    for _ in 0..rng.below(4) {
        match rng.below(4) {
            0 => s.push_str(&format!("<!--{}-->\n", comment_text(rng))),
            1 | 2 => s.push_str(&format!("<?{} {}?>{}", rng.pick(&["xml-stylesheet", "pi", "x"]), hostile(rng, 3).replace("?>", "? >"), rng.pick(&["\n", "", "\n\n"]))),
            _ if !doctype_done => { doctype_done = true; s.push_str("<!DOCTYPE svg PUBLIC \"-//W3C//DTD SVG 1.1//EN\" \"http://www.w3.org/Graphics/SVG/1.1/DTD/svg11.dtd\">\n") }
            _ => {}
        }
    }
    s.push_str(&real_svg_subtree(rng));
    // after the root: white space, comments, processing instructions
    for _ in 0..rng.below(3) {
        match rng.below(3) {
            0 => s.push('\n'),
            1 => s.push_str(&format!("<!--{}-->", comment_text(rng))),
            _ => s.push_str(&format!("<?{} {}?>", rng.pick(&["pi", "x"]), hostile(rng, 2).replace("?>", "? >"))),
        }
    }
    s
}

pub fn real_svg_subtree(rng: &mut Rng) -> String {
    let mut s = String::from("<svg");
    let mut attrs = vec![in_attr(rng, "xmlns", "http://www.w3.org/2000/svg")];
    if rng.chance(1, 2) { attrs.push(in_attr(rng, "xmlns:xlink", "http://www.w3.org/1999/xlink")); }
    if rng.chance(1, 2) { attrs.push(in_attr(rng, "viewBox", "0 0 10 10")); }
    if rng.chance(1, 3) { attrs.push(in_attr(rng, "class", "a b a")); }
    if rng.chance(1, 3) { attrs.push(hattr(rng, "data-t", 4)); }
    // xmlns need not come first
    let k = rng.below(attrs.len());
    attrs.swap(0, k);
    for a in attrs { s.push(' '); s.push_str(&a); }
    s.push('>');
    gen_children(rng, 0, &mut s);
    s.push_str("</svg>");
    s
}

/// an svgdx-mode document (root <svg> without namespace) with hostile strings in every sink
pub fn svgdx_doc(rng: &mut Rng, with_root: bool) -> String {
    let mut body = String::new();
    let n = 2 + rng.below(6);
    if rng.chance(1, 4) {
        let mut c = String::from("<config");
        if rng.chance(1, 2) { c.push(' '); c.push_str(&hattr(rng, "background", 4)); }
        if rng.chance(1, 2) { c.push(' '); c.push_str(&hattr(rng, "font-family", 3)); }
        if rng.chance(1, 3) { c.push(' '); c.push_str(&hattr(rng, "svg-style", 3)); }
        c.push_str("/>\n");
        body.push_str(&c);
    }
    // an embedded real SVG subtree, possibly the very first element of the document body
    let embedded = |rng: &mut Rng| format!("  <svg xmlns=\"http://www.w3.org/2000/svg\" {}><rect width=\"3\" height=\"3\" {}/><!--{}--></svg>\n", in_attr(rng, "viewBox", "0 0 3 3"), hattr(rng, "data-e", 3), comment_text(rng));
    if rng.chance(1, 8) { body = embedded(rng) + &body; }
    for i in 0..n {
        let xy = format!("{} {}", 12 * i, rng.below(30));
        match rng.below(11) {
            10 => body.push_str(&embedded(rng)),
            0 => body.push_str(&format!("  <rect {} {} {}{}/>\n", in_attr(rng, "xy", &xy), in_attr(rng, "wh", "10 6"), hattr(rng, "text", 6), if rng.chance(1, 3) { format!(" {}", hattr(rng, "class", 3)) } else { String::new() })),
            1 => body.push_str(&format!("  <text {}>{}</text>\n", in_attr(rng, "xy", &xy), htext(rng, 6))),
            2 => body.push_str(&format!("  <rect {} {}><![CDATA[{}]]></rect>\n", in_attr(rng, "xy", &xy), in_attr(rng, "wh", "8"), hostile(rng, 5).replace("]]>", "]] >"))),
            3 => body.push_str(&format!("  <circle {} {} {}/>\n", in_attr(rng, "cxy", &xy), in_attr(rng, "r", "4"), hattr(rng, "_", 5))),
            4 => body.push_str(&format!("  <rect {} {} {} {}/>\n", in_attr(rng, "xy", &xy), in_attr(rng, "wh", "5"), hattr(rng, "__", 5), hattr(rng, "data-x", 5))),
            5 => body.push_str(&format!("  <!--{}-->\n", comment_text(rng))),
            6 => { let css = format!("g > rect {{ fill: red; }} /* {} */", hostile(rng, 3)); body.push_str(&format!("  <style>{}</style>\n", in_text(rng, &css))) }
            7 => body.push_str(&format!("  <g {}><rect {} {} {}/> {} </g>\n", if rng.chance(1, 2) { in_attr(rng, "class", "d-red  x") } else { let h = format!("d-red {}", hostile(rng, 3)); in_attr(rng, "class", &h) }, in_attr(rng, "xy", &xy), in_attr(rng, "wh", "3"), in_attr(rng, "id", &format!("i{i}")), if rng.chance(1, 2) { htext(rng, 3) } else { format!("{}\n    {} \n  {}", htext(rng, 3), htext(rng, 2), htext(rng, 2)) })),
            8 => body.push_str(&format!("  <title>{}</title>\n", htext(rng, 4))),
            _ => body.push_str(&format!("  <line {} {} {} {}/>\n", in_attr(rng, "xy1", &xy), in_attr(rng, "xy2", "40 40"), hattr(rng, "text", 3), in_attr(rng, "class", "d-arrow d-dash"))),
        }
    }
    // a reference to a character XML cannot contain: the reader resolves it, the writer must refuse
    if rng.chance(1, 25) {
        body.push_str(*rng.pick(&["  <text xy=\"0 0\">x&#2;y</text>\n", "  <rect wh=\"2\" data-c=\"a&#xB;b\"/>\n", "  <rect wh=\"2\" text=\"p&#xFFFE;q\"/>\n", "  <!-- c --><g>t&#31;</g>\n"]));
    }
    if with_root {
        let mut root = String::from("<svg");
        if rng.chance(1, 4) { root.push(' '); root.push_str(&in_attr(rng, "width", "50mm")); }
        if rng.chance(1, 5) { root.push(' '); root.push_str(&hattr(rng, "data-r", 3)); }
        // what authors put on a root besides geometry: prefixed namespace declarations (needed for
        // xlink:href), a version, presentation attributes, an id, classes
        if rng.chance(1, 4) { root.push(' '); root.push_str(&in_attr(rng, "xmlns:xlink", "http://www.w3.org/1999/xlink")); }
        if rng.chance(1, 10) { root.push(' '); root.push_str(&in_attr(rng, "xmlns:x", "http://example.com/x")); }
        if rng.chance(1, 8) { let v = *rng.pick(&["1.1", "1.2", "2"]); root.push(' '); root.push_str(&in_attr(rng, "version", v)); }
        if rng.chance(1, 8) { root.push(' '); root.push_str(&in_attr(rng, "height", "30mm")); }
        if rng.chance(1, 8) { root.push(' '); root.push_str(&in_attr(rng, "viewBox", "-5 -5 120 60")); }
        if rng.chance(1, 8) { root.push(' '); root.push_str(&in_attr(rng, "id", "root")); }
        if rng.chance(1, 8) { root.push(' '); root.push_str(&in_attr(rng, "class", "doc  d-red")); }
        if rng.chance(1, 8) { root.push(' '); root.push_str(&hattr(rng, "style", 3)); }
        if rng.chance(1, 10) { root.push(' '); root.push_str(&in_attr(rng, "xml:space", "preserve")); }
        format!("{root}>\n{body}</svg>")
    } else {
        body
    }
}

pub fn random_cfg(rng: &mut Rng) -> svgdx::TransformConfig {
    let mut cfg = svgdx::TransformConfig::default();
    cfg.debug = rng.chance(1, 4);
    cfg.add_metadata = rng.chance(1, 4);
    cfg.add_auto_styles = !rng.chance(1, 4);
    cfg.border = *rng.pick(&[0u16, 5, 10]);
    cfg.scale = *rng.pick(&[1.0f32, 2.0, 0.5]);
    cfg.theme = rng.pick(&["default", "bold", "fine", "glass", "light", "dark"]).parse().unwrap();
    if rng.chance(1, 4) { cfg.background = hostile(rng, 3); }
    if rng.chance(1, 4) { cfg.font_family = hostile(rng, 3); }
    if rng.chance(1, 5) { cfg.svg_style = Some(hostile(rng, 3)); }
    cfg
}

pub fn cfg_desc(cfg: &svgdx::TransformConfig) -> String {
    format!("{:?}", cfg)
}
