//! Generators on the exactness grid (DESIGN §3.2): coordinates are multiples of 1/2, sizes even integers.
use crate::rng::Rng;
use crate::util::{half, El};

/// a box in half-units
#[derive(Clone, Copy, Debug, PartialEq, Eq)]
pub struct HBox {
    pub x1: i64,
    pub y1: i64,
    pub x2: i64,
    pub y2: i64,
}

impl HBox {
    pub fn w(&self) -> i64 { self.x2 - self.x1 }
    pub fn h(&self) -> i64 { self.y2 - self.y1 }
    pub fn cx(&self) -> i64 { (self.x1 + self.x2) / 2 }
    pub fn cy(&self) -> i64 { (self.y1 + self.y2) / 2 }
    pub fn f(&self) -> [f64; 4] {
        [self.x1 as f64 / 2.0, self.y1 as f64 / 2.0, self.x2 as f64 / 2.0, self.y2 as f64 / 2.0]
    }
}

/// random box: x1,y1 multiples of 1/2 in [-80,80]; width/height even integers in [2,60]
pub fn gen_box(rng: &mut Rng, square: bool) -> HBox {
    let x1 = rng.range(-160, 160);
    let y1 = rng.range(-160, 160);
    let w = 4 * rng.range(1, 30);
    let h = if square { w } else { 4 * rng.range(1, 30) };
    HBox { x1, y1, x2: x1 + w, y2: y1 + h }
}

#[derive(Clone, Copy, Debug, PartialEq, Eq)]
pub enum Pair { SE, SM, EM, SL, EL, ML }
pub const PAIRS: [Pair; 6] = [Pair::SE, Pair::SM, Pair::EM, Pair::SL, Pair::EL, Pair::ML];

impl Pair {
    pub fn has(&self) -> (bool, bool, bool, bool) {
        // start end mid len
        match self {
            Pair::SE => (true, true, false, false),
            Pair::SM => (true, false, true, false),
            Pair::EM => (false, true, true, false),
            Pair::SL => (true, false, false, true),
            Pair::EL => (false, true, false, true),
            Pair::ML => (false, false, true, true),
        }
    }
}

pub const SHAPES: [&str; 4] = ["rect", "circle", "ellipse", "line"];

/// attribute names per axis for a shape: (start, end, mid, len, len_is_radius)
fn axis_names(shape: &str, axis: char, rng: &mut Rng) -> (String, String, String, String, bool) {
    let start = if shape == "line" || rng.chance(1, 4) { format!("{axis}1") } else { axis.to_string() };
    let end = format!("{axis}2");
    let mid = format!("c{axis}");
    match shape {
        "ellipse" if rng.chance(1, 2) => (start, end, mid, format!("r{axis}"), true),
        _ => (start, end, mid, if axis == 'x' { "width".into() } else { "height".into() }, false),
    }
}

fn sep(rng: &mut Rng) -> &'static str {
    *rng.pick(&[" ", ",", ", ", "  ", " , ", "\t", " ,", ",\t "])
}

/// One spelling of `b` for `shape`: a sufficient constraint pair per axis, then optional shorthand
/// merging and separator choice. Returns the element and a description for the evidence.
pub fn spell(rng: &mut Rng, shape: &str, b: &HBox, px: Pair, py: Pair, shorthand: bool) -> (El, String) {
    let mut el = El::new(shape);
    let mut desc = format!("{shape}:{px:?}/{py:?}");
    let (sx, ex, mx, lx, lrx) = axis_names(shape, 'x', rng);
    let (sy, ey, my, ly, lry) = axis_names(shape, 'y', rng);
    let mut attrs: Vec<(String, String)> = vec![];
    if shape == "circle" {
        // a circle's size is one number: r, with one position per axis (or full extents, no r)
        let use_r = rng.chance(2, 3);
        if use_r {
            let pos = |p: Pair| match p { Pair::SE | Pair::SM | Pair::SL => 0, Pair::EM | Pair::EL => 1, Pair::ML => 2 };
            match pos(px) { 0 => attrs.push((sx.clone(), half(b.x1))), 1 => attrs.push((ex.clone(), half(b.x2))), _ => attrs.push((mx.clone(), half(b.cx()))) }
            match pos(py) { 0 => attrs.push((sy.clone(), half(b.y1))), 1 => attrs.push((ey.clone(), half(b.y2))), _ => attrs.push((my.clone(), half(b.cy()))) }
            attrs.push(("r".into(), half(b.w() / 2)));
            desc.push_str(":r");
        } else {
            let full = |p: Pair| match p { Pair::SL | Pair::SE => Pair::SE, Pair::EL | Pair::EM => Pair::EM, _ => Pair::SM };
            push_axis(&mut attrs, full(px), (&sx, &ex, &mx, &lx, lrx), b.x1, b.x2);
            push_axis(&mut attrs, full(py), (&sy, &ey, &my, &ly, lry), b.y1, b.y2);
        }
    } else {
        push_axis(&mut attrs, px, (&sx, &ex, &mx, &lx, lrx), b.x1, b.x2);
        push_axis(&mut attrs, py, (&sy, &ey, &my, &ly, lry), b.y1, b.y2);
    }
    // shorthand merging
    if shorthand {
        let merges: [(&str, &str, &[&str]); 6] = [
            ("x", "y", &["xy"]),
            ("x1", "y1", &["xy1"]),
            ("x2", "y2", &["xy2"]),
            ("cx", "cy", &["cxy"]),
            ("width", "height", &["wh"]),
            ("rx", "ry", &["rxy"]),
        ];
        for (a, bname, short) in merges {
            let ia = attrs.iter().position(|(k, _)| k == a);
            let ib = attrs.iter().position(|(k, _)| k == bname);
            if let (Some(ia), Some(ib)) = (ia, ib) {
                if rng.chance(2, 3) {
                    let va = attrs[ia].1.clone();
                    let vb = attrs[ib].1.clone();
                    let v = if va == vb && rng.chance(1, 2) { va } else { format!("{va}{}{vb}", sep(rng)) };
                    let (lo, hi) = if ia < ib { (ia, ib) } else { (ib, ia) };
                    attrs.remove(hi);
                    attrs.remove(lo);
                    attrs.push((short[0].to_string(), v));
                    desc.push_str(&format!(":{}", short[0]));
                }
            }
        }
    }
    // attribute order is free in XML: shuffle
    for i in (1..attrs.len()).rev() {
        let j = rng.below(i + 1);
        attrs.swap(i, j);
    }
    for (k, v) in attrs {
        el.push(&k, &v);
    }
    (el, desc)
}

fn push_axis(attrs: &mut Vec<(String, String)>, p: Pair, names: (&String, &String, &String, &String, bool), a: i64, b: i64) {
    let (s, e, m, l) = p.has();
    if s { attrs.push((names.0.clone(), half(a))); }
    if e { attrs.push((names.1.clone(), half(b))); }
    if m { attrs.push((names.2.clone(), half((a + b) / 2))); }
    if l { attrs.push((names.3.clone(), if names.4 { half((b - a) / 2) } else { half(b - a) })); }
}

/// native geometry the output must carry for `shape` describing `b` (after an optional translation)
pub fn expected_native(shape: &str, b: &HBox, dx: i64, dy: i64) -> Vec<(String, String)> {
    let f = |v: i64| half(v);
    match shape {
        "rect" => vec![("x".into(), f(b.x1 + dx)), ("y".into(), f(b.y1 + dy)), ("width".into(), f(b.w())), ("height".into(), f(b.h()))],
        "circle" => vec![("cx".into(), f(b.cx() + dx)), ("cy".into(), f(b.cy() + dy)), ("r".into(), f(b.w() / 2))],
        "ellipse" => vec![("cx".into(), f(b.cx() + dx)), ("cy".into(), f(b.cy() + dy)), ("rx".into(), f(b.w() / 2)), ("ry".into(), f(b.h() / 2))],
        "line" => vec![("x1".into(), f(b.x1 + dx)), ("y1".into(), f(b.y1 + dy)), ("x2".into(), f(b.x2 + dx)), ("y2".into(), f(b.y2 + dy))],
        _ => vec![],
    }
}

pub const GEOM_ATTRS: [&str; 28] = [
    "x", "y", "x1", "y1", "x2", "y2", "cx", "cy", "r", "rx", "ry", "width", "height", "xy", "cxy", "xy1", "xy2",
    "wh", "rxy", "dxy", "dwh", "dx", "dy", "dw", "dh", "xy-loc", "surround", "inside",
];

pub fn native_attrs(shape: &str) -> &'static [&'static str] {
    match shape {
        "rect" => &["x", "y", "width", "height"],
        "circle" => &["cx", "cy", "r"],
        "ellipse" => &["cx", "cy", "rx", "ry"],
        "line" => &["x1", "y1", "x2", "y2"],
        _ => &[],
    }
}
