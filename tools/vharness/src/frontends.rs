//! The front-ends of svgdx as the harness drives them (C01, C06, C07): library string / stream functions
//! in-process, the `svgdx` command as a child process (file or stdin in, file or stdout out), the server's
//! transform endpoint over the loopback interface, and a child-process runner that survives aborts and
//! hangs of the code under test.
use std::io::{Read, Write};
use std::path::{Path, PathBuf};
use std::process::{Command, Stdio};
use std::time::{Duration, Instant};

#[derive(Clone, Debug, PartialEq)]
pub enum Res {
    Ok(Vec<u8>),
    /// an error value / non-zero exit with message / HTTP 400
    Err(String),
    /// panic, abort, signal, timeout, malformed HTTP answer ...
    Crash(String),
}

impl Res {
    pub fn kind(&self) -> &'static str {
        match self {
            Res::Ok(_) => "ok",
            Res::Err(_) => "err",
            Res::Crash(_) => "crash",
        }
    }
}

/// configuration in the subset every front-end can express
#[derive(Clone, Debug)]
pub struct FCfg {
    pub seed: u64,
    pub scale: f32,
    pub border: u16,
    pub add_metadata: bool,
    pub no_auto_styles: bool,
    pub theme: Option<&'static str>,
    pub loop_limit: u32,
}

impl Default for FCfg {
    fn default() -> Self {
        FCfg { seed: 0, scale: 1.0, border: 5, add_metadata: false, no_auto_styles: false, theme: None, loop_limit: 1000 }
    }
}

impl FCfg {
    pub fn is_server_expressible(&self) -> bool {
        self.seed == 0 && self.scale == 1.0 && self.border == 5 && !self.no_auto_styles && self.theme.is_none() && self.loop_limit == 1000
    }
    pub fn to_config(&self) -> svgdx::TransformConfig {
        let mut c = svgdx::TransformConfig { seed: self.seed, scale: self.scale, border: self.border, add_metadata: self.add_metadata, add_auto_styles: !self.no_auto_styles, loop_limit: self.loop_limit, ..Default::default() };
        if let Some(t) = self.theme {
            if let Ok(th) = t.parse() { c.theme = th; }
        }
        c
    }
    pub fn cli_args(&self) -> Vec<String> {
        let mut a = vec![];
        if self.seed != 0 { a.push("--seed".into()); a.push(self.seed.to_string()); }
        if self.scale != 1.0 { a.push("--scale".into()); a.push(format!("{}", self.scale)); }
        if self.border != 5 { a.push("--border".into()); a.push(self.border.to_string()); }
        if self.add_metadata { a.push("--add-metadata".into()); }
        if self.no_auto_styles { a.push("--no-auto-styles".into()); }
        if let Some(t) = self.theme { a.push("--theme".into()); a.push(t.into()); }
        if self.loop_limit != 1000 { a.push("--loop-limit".into()); a.push(self.loop_limit.to_string()); }
        a
    }
}

fn panic_text(p: Box<dyn std::any::Any + Send>) -> String {
    p.downcast_ref::<String>().cloned().or_else(|| p.downcast_ref::<&str>().map(|s| s.to_string())).unwrap_or_else(|| "panic".into())
}

pub fn via_str(input: &str, cfg: &FCfg) -> Res {
    let c = cfg.to_config();
    let s = input.to_string();
    match std::panic::catch_unwind(move || svgdx::transform_str(s, &c)) {
        Err(p) => Res::Crash(format!("panic: {}", panic_text(p))),
        Ok(Ok(o)) => Res::Ok(o.into_bytes()),
        Ok(Err(e)) => Res::Err(format!("{e:?}")),
    }
}

pub fn via_stream(input: &[u8], cfg: &FCfg) -> Res {
    let c = cfg.to_config();
    let b = input.to_vec();
    match std::panic::catch_unwind(move || {
        let mut rd = std::io::Cursor::new(b);
        let mut out: Vec<u8> = vec![];
        svgdx::transform_stream(&mut rd, &mut out, &c).map(|_| out)
    }) {
        Err(p) => Res::Crash(format!("panic: {}", panic_text(p))),
        Ok(Ok(o)) => Res::Ok(o),
        Ok(Err(e)) => Res::Err(format!("{e:?}")),
    }
}

pub fn svgdx_bin() -> Option<PathBuf> {
    let p = std::env::var("VERIF_SVGDX_BIN").map(PathBuf::from).unwrap_or_else(|_| PathBuf::from("/verif/.build/target-repo/debug/svgdx"));
    if p.exists() { Some(p) } else { None }
}

/// wait for a child with a deadline; kills it when the deadline passes
fn wait_deadline(child: &mut std::process::Child, limit: Duration) -> Result<std::process::ExitStatus, String> {
    let t0 = Instant::now();
    loop {
        match child.try_wait() {
            Ok(Some(st)) => return Ok(st),
            Ok(None) => {
                if t0.elapsed() > limit {
                    let _ = child.kill();
                    let _ = child.wait();
                    return Err(format!("no result after {:.1}s (killed)", limit.as_secs_f64()));
                }
                std::thread::sleep(Duration::from_millis(3));
            }
            Err(e) => return Err(format!("wait: {e}")),
        }
    }
}

#[derive(Clone, Copy, Debug, PartialEq)]
pub enum CliMode {
    FileToFile,
    FileToStdout,
    StdinToStdout,
    StdinToFile,
}

pub struct CliRun {
    pub res: Res,
    pub exit_code: Option<i32>,
    pub stderr: String,
    /// bytes of the output file after the run (file modes)
    pub out_file: Option<Vec<u8>>,
}

/// run the svgdx command; `out_before` = content the output file has before the run (None = absent)
pub fn via_cli(bin: &Path, dir: &Path, tag: &str, input: &[u8], cfg: &FCfg, mode: CliMode, out_before: Option<&[u8]>, limit: Duration) -> CliRun {
    let inp = dir.join(format!("{tag}.in.xml"));
    let outp = dir.join(format!("{tag}.out.svg"));
    let _ = std::fs::remove_file(&outp);
    if let Some(b) = out_before { let _ = std::fs::write(&outp, b); }
    let mut cmd = Command::new(bin);
    cmd.args(cfg.cli_args());
    let from_file = matches!(mode, CliMode::FileToFile | CliMode::FileToStdout);
    let to_file = matches!(mode, CliMode::FileToFile | CliMode::StdinToFile);
    if from_file {
        if std::fs::write(&inp, input).is_err() { return CliRun { res: Res::Crash("cannot write input file".into()), exit_code: None, stderr: String::new(), out_file: None }; }
        cmd.arg(&inp);
    } else {
        cmd.arg("-");
    }
    if to_file { cmd.arg("-o").arg(&outp); }
    cmd.stdin(if from_file { Stdio::null() } else { Stdio::piped() }).stdout(Stdio::piped()).stderr(Stdio::piped());
    cmd.env("RUST_BACKTRACE", "0");
    let mut child = match cmd.spawn() { Ok(c) => c, Err(e) => return CliRun { res: Res::Crash(format!("spawn: {e}")), exit_code: None, stderr: String::new(), out_file: None } };
    if !from_file {
        if let Some(mut si) = child.stdin.take() {
            let data = input.to_vec();
            std::thread::spawn(move || { let _ = si.write_all(&data); });
        }
    }
    // drain the pipes in threads so a large output cannot block the child
    let mut so = child.stdout.take();
    let mut se = child.stderr.take();
    let t_out = std::thread::spawn(move || { let mut b = vec![]; if let Some(s) = so.as_mut() { let _ = s.read_to_end(&mut b); } b });
    let t_err = std::thread::spawn(move || { let mut b = vec![]; if let Some(s) = se.as_mut() { let _ = s.read_to_end(&mut b); } b });
    let st = wait_deadline(&mut child, limit);
    let stdout = t_out.join().unwrap_or_default();
    let stderr = String::from_utf8_lossy(&t_err.join().unwrap_or_default()).to_string();
    let out_file = if to_file { std::fs::read(&outp).ok() } else { None };
    let _ = std::fs::remove_file(&inp);
    let (res, code) = match st {
        Err(e) => (Res::Crash(e), None),
        Ok(s) => match s.code() {
            Some(0) => (Res::Ok(if to_file { out_file.clone().unwrap_or_default() } else { stdout }), Some(0)),
            Some(101) => (Res::Crash(format!("panic exit 101: {}", stderr.lines().find(|l| l.contains("panicked")).unwrap_or("").trim())), Some(101)),
            Some(c) => (Res::Err(stderr.lines().next().unwrap_or("").to_string()), Some(c)),
            None => (Res::Crash(format!("killed by a signal: {}", stderr.lines().last().unwrap_or("").trim())), None),
        },
    };
    CliRun { res, exit_code: code, stderr, out_file }
}

/// the `svgdx-server` binary as a child process on a free loopback port (a crash of the code under test
/// then kills the server, not the harness; `alive` tells)
pub struct Server {
    pub port: u16,
    child: std::process::Child,
}

impl Drop for Server {
    fn drop(&mut self) {
        let _ = self.child.kill();
        let _ = self.child.wait();
    }
}

pub fn server_bin() -> Option<PathBuf> {
    let p = std::env::var("VERIF_SVGDX_SERVER_BIN").map(PathBuf::from).unwrap_or_else(|_| PathBuf::from("/verif/.build/target-repo/debug/svgdx-server"));
    if p.exists() { Some(p) } else { None }
}

impl Server {
    pub fn start() -> Result<Server, String> {
        let bin = server_bin().ok_or("svgdx-server binary not built")?;
        let port = { let l = std::net::TcpListener::bind("127.0.0.1:0").map_err(|e| format!("bind: {e}"))?; l.local_addr().map_err(|e| e.to_string())?.port() };
        let child = Command::new(&bin).arg("--port").arg(port.to_string()).stdin(Stdio::null()).stdout(Stdio::null()).stderr(Stdio::null()).spawn().map_err(|e| format!("spawn server: {e}"))?;
        let mut s = Server { port, child };
        for _ in 0..500 {
            if std::net::TcpStream::connect(("127.0.0.1", port)).is_ok() { return Ok(s); }
            if !s.alive() { return Err("server exited at start".into()); }
            std::thread::sleep(Duration::from_millis(10));
        }
        Err("server did not come up".into())
    }

    pub fn alive(&mut self) -> bool {
        matches!(self.child.try_wait(), Ok(None))
    }

    /// POST /api/transform; returns (status code, content-type, body)
    pub fn post(&self, input: &[u8], add_metadata: bool, limit: Duration) -> Result<(u16, String, Vec<u8>), String> {
        let mut s = std::net::TcpStream::connect(("127.0.0.1", self.port)).map_err(|e| format!("connect: {e}"))?;
        s.set_read_timeout(Some(limit)).ok();
        s.set_write_timeout(Some(limit)).ok();
        let path = if add_metadata { "/api/transform?add_metadata=true" } else { "/api/transform" };
        let head = format!("POST {path} HTTP/1.1\r\nHost: localhost\r\nContent-Type: text/plain\r\nContent-Length: {}\r\nConnection: close\r\n\r\n", input.len());
        s.write_all(head.as_bytes()).and_then(|_| s.write_all(input)).map_err(|e| format!("write: {e}"))?;
        let mut buf = vec![];
        s.read_to_end(&mut buf).map_err(|e| format!("read: {e}"))?;
        let pos = buf.windows(4).position(|w| w == b"\r\n\r\n").ok_or_else(|| format!("no header end in {} bytes", buf.len()))?;
        let head = String::from_utf8_lossy(&buf[..pos]).to_string();
        let mut body = buf[pos + 4..].to_vec();
        let status: u16 = head.split_whitespace().nth(1).and_then(|c| c.parse().ok()).ok_or("no status")?;
        let lower = head.to_ascii_lowercase();
        let ctype = lower.lines().find(|l| l.starts_with("content-type:")).map(|l| l[13..].trim().to_string()).unwrap_or_default();
        if lower.contains("transfer-encoding: chunked") {
            // de-chunk
            let mut out = vec![];
            let mut i = 0;
            while i < body.len() {
                let Some(e) = body[i..].windows(2).position(|w| w == b"\r\n") else { break };
                let n = usize::from_str_radix(String::from_utf8_lossy(&body[i..i + e]).trim(), 16).unwrap_or(0);
                i += e + 2;
                if n == 0 { break; }
                if i + n > body.len() { break; }
                out.extend_from_slice(&body[i..i + n]);
                i += n + 2;
            }
            body = out;
        }
        Ok((status, ctype, body))
    }

    pub fn transform(&self, input: &[u8], add_metadata: bool, limit: Duration) -> Res {
        match self.post(input, add_metadata, limit) {
            Err(e) => Res::Crash(format!("server: {e}")),
            Ok((200, ct, body)) if ct.starts_with("image/svg+xml") => Res::Ok(body),
            Ok((200, ct, _)) => Res::Crash(format!("server: 200 with content-type {ct}")),
            Ok((400, _, body)) => Res::Err(String::from_utf8_lossy(&body).to_string()),
            Ok((415, _, _)) | Ok((422, _, _)) => Res::Err("request rejected".into()),
            Ok((c, _, body)) => Res::Crash(format!("server: status {c}: {}", String::from_utf8_lossy(&body).chars().take(120).collect::<String>())),
        }
    }
}

/// Run `cases` through `svgdx::verif_hooks::transform_probe` in child processes of this executable
/// (`VERIF_CHILD=probe`), so that aborts (stack overflow) and hangs are observed instead of suffered.
/// The child reports each case on its own line as soon as it is done; the parent gives every case
/// `per_case` and kills the child when one overruns. Returns per case:
/// Ok("ok <ms>" | "err:<kind> <ms>" | "panic:<msg>") or Err("abort: …" | "timeout: …").
pub fn run_isolated(cases: &[Vec<u8>], loop_limit: u32, per_case: Duration) -> Vec<Result<String, String>> {
    use std::io::BufRead;
    let mut out: Vec<Result<String, String>> = Vec::with_capacity(cases.len());
    let exe = match std::env::current_exe() { Ok(e) => e, Err(e) => { return cases.iter().map(|_| Err(format!("no exe: {e}"))).collect(); } };
    let dir = PathBuf::from("/verif/.build/tmp");
    let _ = std::fs::create_dir_all(&dir);
    let mut start = 0usize;
    while start < cases.len() {
        let batch = &cases[start..(start + 1000).min(cases.len())];
        let file = dir.join(format!("batch-{}-{}.bin", std::process::id(), start));
        let mut blob = (batch.len() as u32).to_be_bytes().to_vec();
        for c in batch { blob.extend_from_slice(&(c.len() as u32).to_be_bytes()); blob.extend_from_slice(c); }
        if std::fs::write(&file, &blob).is_err() { for _ in batch { out.push(Err("cannot write batch".into())); } start += batch.len(); continue; }
        let mut child = match Command::new(&exe).env("VERIF_CHILD", "probe").env("VERIF_CHILD_FILE", &file).env("VERIF_CHILD_LOOP_LIMIT", loop_limit.to_string())
            .stdin(Stdio::null()).stdout(Stdio::piped()).stderr(Stdio::piped()).spawn() {
            Ok(c) => c,
            Err(e) => { for _ in batch { out.push(Err(format!("spawn: {e}"))); } start += batch.len(); continue; }
        };
        let so = child.stdout.take();
        let mut se = child.stderr.take();
        let (tx, rx) = std::sync::mpsc::channel::<String>();
        let t_out = std::thread::spawn(move || {
            if let Some(s) = so {
                for l in std::io::BufReader::new(s).lines() {
                    match l { Ok(l) => { if tx.send(l).is_err() { break; } } Err(_) => break }
                }
            }
        });
        let t_err = std::thread::spawn(move || { let mut b = vec![]; if let Some(s) = se.as_mut() { let _ = s.read_to_end(&mut b); } b });
        let mut done = 0usize;
        let mut why: Option<String> = None;
        while done < batch.len() {
            match rx.recv_timeout(per_case + Duration::from_secs(2)) {
                Ok(line) => { out.push(Ok(line)); done += 1; }
                Err(std::sync::mpsc::RecvTimeoutError::Timeout) => {
                    let _ = child.kill();
                    why = Some(format!("timeout: no result after {:.0}s (killed)", per_case.as_secs_f64()));
                    break;
                }
                Err(std::sync::mpsc::RecvTimeoutError::Disconnected) => { why = Some(String::new()); break; }
            }
        }
        let st = child.wait();
        let _ = t_out.join();
        let err_text = String::from_utf8_lossy(&t_err.join().unwrap_or_default()).to_string();
        let _ = std::fs::remove_file(&file);
        if done < batch.len() {
            let last_err = err_text.lines().rev().find(|l| !l.trim().is_empty()).unwrap_or("").trim().to_string();
            let why = match why {
                Some(w) if !w.is_empty() => w,
                _ => match st {
                    Ok(s) if s.code().is_none() => format!("abort: killed by a signal ({last_err})"),
                    Ok(s) => format!("abort: exit status {:?} ({last_err})", s.code()),
                    Err(e) => format!("abort: {e}"),
                },
            };
            out.push(Err(why));
            start += done + 1;
        } else {
            start += done;
        }
    }
    out
}

/// child side of `run_isolated`
pub fn child_main() -> bool {
    if std::env::var("VERIF_CHILD").ok().as_deref() != Some("probe") { return false; }
    let file = std::env::var("VERIF_CHILD_FILE").unwrap_or_default();
    let ll: u32 = std::env::var("VERIF_CHILD_LOOP_LIMIT").ok().and_then(|s| s.parse().ok()).unwrap_or(1000);
    let blob = std::fs::read(&file).unwrap_or_default();
    std::panic::set_hook(Box::new(|_| {}));
    let mut i = 4usize;
    let n = if blob.len() >= 4 { u32::from_be_bytes([blob[0], blob[1], blob[2], blob[3]]) as usize } else { 0 };
    let so = std::io::stdout();
    for _ in 0..n {
        if i + 4 > blob.len() { break; }
        let len = u32::from_be_bytes([blob[i], blob[i + 1], blob[i + 2], blob[i + 3]]) as usize;
        i += 4;
        if i + len > blob.len() { break; }
        let case = blob[i..i + len].to_vec();
        i += len;
        let cfg = svgdx::TransformConfig { loop_limit: ll, ..Default::default() };
        let t0 = Instant::now();
        let r = std::panic::catch_unwind(move || svgdx::verif_hooks::transform_probe(&case, &cfg));
        let ms = t0.elapsed().as_millis();
        let line = match r {
            Err(p) => format!("panic:{}", panic_text(p).replace('\n', " ")),
            Ok(p) => match p.result { Ok(_) => format!("ok {ms}"), Err(e) => format!("err:{} {ms}", crate::util::err_kind(&e)) },
        };
        let mut h = so.lock();
        let _ = writeln!(h, "{line}");
        let _ = h.flush();
    }
    true
}
