//! C13 — connectors start and end on the referenced elements.
use crate::c09::{gen_loc, loc_point, native_el, B};
use crate::driver::Driver;
use crate::geom::*;
use crate::report::*;
use crate::rng::Rng;
use crate::util::*;
use serde_json::json;

#[derive(Clone, Debug)]
enum End {
    El(usize, Option<String>), // element index, optional loc
    Pt(f64, f64),
}

struct Case {
    doc: String,
    els: Vec<El>,
    boxes: Vec<B>,
    conn: El,
    kind: &'static str, // straight | h | v | corner
    start: End,
    end: End,
    offset: Option<String>,
}

fn place_b(rng: &mut Rng, a: &B) -> B {
    // B relative to A: sector per axis in {before, overlapping, touching, after, identical}
    let w = 2.0 * rng.range(1, 15) as f64;
    let h = 2.0 * rng.range(1, 15) as f64;
    let axis = |rng: &mut Rng, a1: f64, a2: f64, len: f64| -> f64 {
        match rng.below(6) {
            0 => a1 - len - rng.range(1, 30) as f64 / 2.0, // before
            1 => a2 + rng.range(1, 30) as f64 / 2.0,       // after
            2 => a2,                                       // touching after
            3 => a1 - len,                                 // touching before
            4 => a1 + rng.range(-4, 4) as f64 / 2.0,       // overlapping
            _ => a1,                                       // aligned start
        }
    };
    let x = axis(rng, a[0], a[2], w);
    let y = axis(rng, a[1], a[3], h);
    if rng.chance(1, 20) { *a } else { [x, y, x + w, y + h] }
}

fn end_spec(rng: &mut Rng, idx: usize, bx: &B, allow_point: bool) -> (String, End) {
    if allow_point && rng.chance(1, 5) {
        let (x, y) = (rng.range(-100, 100) as f64 / 2.0, rng.range(-100, 100) as f64 / 2.0);
        let sep = *rng.pick(&[" ", ", ", ","]);
        (format!("{}{}{}", fstr_ref(x), sep, fstr_ref(y)), End::Pt(x, y))
    } else if rng.chance(1, 2) {
        let _ = bx;
        let loc = gen_loc(rng);
        (format!("#b{idx}@{loc}"), End::El(idx, Some(loc)))
    } else {
        (format!("#b{idx}"), End::El(idx, None))
    }
}

fn gen_case(rng: &mut Rng) -> Case {
    let shapes = ["rect", "rect", "circle", "ellipse"];
    let sa = *rng.pick(&shapes);
    let a = gen_box(rng, sa == "circle").f();
    let sb = *rng.pick(&shapes);
    let mut b = place_b(rng, &a);
    if sb == "circle" {
        b[3] = b[1] + (b[2] - b[0]);
    }
    let mut els = vec![];
    for (i, (s, bx)) in [(sa, a), (sb, b)].iter().enumerate() {
        if *s == "rect" && rng.chance(1, 3) {
            // the box is that of a <use> of a template standing elsewhere (rect templates only: a <use>
            // of a circle / ellipse has its x / y rewritten, the open finding C04:use-of-centred-shape)
            let (dx, dy) = (rng.range(-40, 40) as f64 / 2.0, rng.range(-40, 40) as f64 / 2.0);
            let tb = [bx[0] - dx, bx[1] - dy, bx[2] - dx, bx[3] - dy];
            let mut t = El::new(s);
            t.push("id", &format!("t{i}"));
            for (k, v) in native_el(s, &tb) { t.push(&k, &v); }
            els.push(t);
            let mut u = El::new("use");
            u.push("id", &format!("b{i}"));
            u.push("href", &format!("#t{i}"));
            u.push("x", &fstr_ref(dx));
            u.push("y", &fstr_ref(dy));
            els.push(u);
            continue;
        }
        let mut el = El::new(s);
        el.push("id", &format!("b{i}"));
        for (k, v) in native_el(s, bx) {
            el.push(&k, &v);
        }
        els.push(el);
    }
    let kind = *rng.pick(&["straight", "straight", "h", "v", "corner", "corner"]);
    let (ss, start) = end_spec(rng, 0, &a, true);
    let (es, end) = end_spec(rng, 1, &b, true);
    let mut conn = El::new(if kind == "corner" { "polyline" } else { "line" });
    conn.push("id", "k");
    conn.push("start", &ss);
    conn.push("end", &es);
    match kind {
        "h" => conn.push("edge-type", *rng.pick(&["h", "horizontal"])),
        "v" => conn.push("edge-type", *rng.pick(&["v", "vertical"])),
        _ => {}
    }
    let mut offset = None;
    // corner-offset belongs to corner connectors; written on any other connector it has no effect and, like
    // start / end / edge-type, does not reach the output
    if kind != "corner" && rng.chance(1, 5) { conn.push("corner-offset", *rng.pick(&["4", "25%", "-2"])); }
    if kind == "corner" && rng.chance(1, 2) {
        let o = rng.pick(&["2", "5", "25%", "75%", "50%", "-3", "-4", "-1.5", "0", "100%", "0%"]).to_string();
        conn.push("corner-offset", &o);
        offset = Some(o);
    }
    if rng.chance(1, 3) {
        conn.push("class", "d-arrow");
    }
    let mut all: Vec<String> = els.iter().map(|e| format!("  {}", e.xml())).collect();
    all.push(format!("  {}", conn.xml()));
    Case { doc: format!("<svg>\n{}\n</svg>", all.join("\n")), els, boxes: vec![a, b], conn, kind, start, end, offset }
}

fn candidates(kind: &str) -> &'static [&'static str] {
    match kind {
        "h" => &["l", "r"],
        "v" => &["t", "b"],
        "corner" => &["t", "r", "b", "l"],
        _ => &["t", "b", "l", "r", "tl", "bl", "tr", "br"],
    }
}

fn d2(p: (f64, f64), q: (f64, f64)) -> f64 {
    (p.0 - q.0).powi(2) + (p.1 - q.1).powi(2)
}

fn near(a: f64, b: f64) -> bool {
    (a - b).abs() <= 0.0011
}

/// the property on the implementation's output; None = holds
fn oracle(case: &Case, outs: &[OutEl]) -> Option<String> {
    let k = outs.iter().find(|o| o.el.get("id") == Some("k"))?;
    for a in ["start", "end", "edge-type", "corner-offset"] {
        if k.el.get(a).is_some() {
            return Some(format!("attribute {a} left in the output: {}", k.el.xml()));
        }
    }
    // collect the drawn points
    let pts: Vec<(f64, f64)> = if k.el.name == "line" {
        let g = |n: &str| k.el.get(n).and_then(|v| v.parse::<f64>().ok());
        match (g("x1"), g("y1"), g("x2"), g("y2")) {
            (Some(a), Some(b), Some(c), Some(d)) => vec![(a, b), (c, d)],
            _ => return Some(format!("connector line without coordinates: {}", k.el.xml())),
        }
    } else {
        let nums: Vec<f64> = k.el.get("points").unwrap_or("").split([' ', ',']).filter(|s| !s.is_empty()).filter_map(|s| s.parse().ok()).collect();
        nums.chunks(2).filter(|c| c.len() == 2).map(|c| (c[0], c[1])).collect()
    };
    if pts.len() < 2 {
        return Some(format!("connector has fewer than two points: {}", k.el.xml()));
    }
    let first = pts[0];
    let last = *pts.last().unwrap();
    let both_els = matches!((&case.start, &case.end), (End::El(..), End::El(..)));
    // h / v: axis-parallel through the middle of the overlap (judged only when the overlap exists)
    let (a, b) = (case.boxes[0], case.boxes[1]);
    if case.kind == "h" {
        if !near(first.1, last.1) {
            return Some(format!("edge-type h gives a non-horizontal line: {}", k.el.xml()));
        }
        if both_els {
            let (top, bot) = (a[1].max(b[1]), a[3].min(b[3]));
            if top <= bot && !near(first.1, (top + bot) / 2.0) {
                return Some(format!("horizontal connector at y={} but the overlap [{top},{bot}] has its middle at {}", first.1, (top + bot) / 2.0));
            }
        }
    }
    if case.kind == "v" {
        if !near(first.0, last.0) {
            return Some(format!("edge-type v gives a non-vertical line: {}", k.el.xml()));
        }
        if both_els {
            let (l, r) = (a[0].max(b[0]), a[2].min(b[2]));
            if l <= r && !near(first.0, (l + r) / 2.0) {
                return Some(format!("vertical connector at x={} but the overlap [{l},{r}] has its middle at {}", first.0, (l + r) / 2.0));
            }
        }
    }
    // endpoints
    let check_end = |which: &str, e: &End, got: (f64, f64), other_fixed: Option<(f64, f64)>| -> Option<String> {
        match e {
            End::Pt(x, y) => {
                let ok = match case.kind { "h" => near(got.0, *x), "v" => near(got.1, *y), _ => near(got.0, *x) && near(got.1, *y) };
                if !ok { return Some(format!("{which} given literally as ({x},{y}) but drawn at {:?}", got)); }
            }
            End::El(i, Some(loc)) => {
                let p = loc_point(&case.boxes[*i], loc);
                let ok = match case.kind { "h" => near(got.0, p.0), "v" => near(got.1, p.1), _ => near(got.0, p.0) && near(got.1, p.1) };
                if !ok { return Some(format!("{which} is #b{i}@{loc} = {:?} but drawn at {:?}", p, got)); }
            }
            End::El(i, None) => {
                let cands: Vec<(f64, f64)> = candidates(case.kind).iter().map(|l| loc_point(&case.boxes[*i], l)).collect();
                let on = cands.iter().any(|c| match case.kind { "h" => near(c.0, got.0), "v" => near(c.1, got.1), _ => near(c.0, got.0) && near(c.1, got.1) });
                if !on { return Some(format!("{which} of the connector {:?} is not at a candidate location of #b{i} {:?}", got, cands)); }
                if let (Some(o), true) = (other_fixed, case.kind == "straight" || case.kind == "corner") {
                    let best = cands.iter().map(|c| d2(*c, o)).fold(f64::MAX, f64::min);
                    if d2(got, o) > best + 1e-6 {
                        return Some(format!("{which} {:?} is not the closest candidate of #b{i} to the other end {:?} (best distance² {best})", got, o));
                    }
                }
            }
        }
        None
    };
    let fixed = |e: &End| -> Option<(f64, f64)> {
        match e { End::Pt(x, y) => Some((*x, *y)), End::El(i, Some(l)) => Some(loc_point(&case.boxes[*i], l)), _ => None }
    };
    if let Some(w) = check_end("start", &case.start, first, fixed(&case.end)) { return Some(w); }
    if let Some(w) = check_end("end", &case.end, last, fixed(&case.start)) { return Some(w); }
    if let (End::El(i, None), End::El(j, None), true) = (&case.start, &case.end, case.kind == "straight" || case.kind == "corner") {
        let mut best = f64::MAX;
        for l1 in candidates(case.kind) { for l2 in candidates(case.kind) { best = best.min(d2(loc_point(&case.boxes[*i], l1), loc_point(&case.boxes[*j], l2))); } }
        if d2(first, last) > best + 1e-6 {
            return Some(format!("free connector {:?}-{:?} has distance² {} but candidates at distance² {best} exist", first, last, d2(first, last)));
        }
    }
    // corner polylines: only axis-parallel segments, leaving / entering perpendicular to the edges
    if case.kind == "corner" && pts.len() > 2 {
        for w in pts.windows(2) {
            if !(near(w[0].0, w[1].0) || near(w[0].1, w[1].1)) {
                return Some(format!("corner connector has a diagonal segment {:?}-{:?}: {}", w[0], w[1], k.el.xml()));
            }
        }
        let dir_of = |e: &End, p: (f64, f64)| -> Option<char> {
            // which edge the point sits on: 'v' = top/bottom edge (leave vertically), 'h' = left/right edge
            match e {
                End::El(i, loc) => {
                    let bx = case.boxes[*i];
                    let l = loc.as_deref().unwrap_or("");
                    let edge = l.split(':').next().unwrap_or("");
                    if !l.is_empty() { return match edge { "t" | "b" => Some('v'), "l" | "r" => Some('h'), _ => None }; }
                    let (cx, cy) = ((bx[0] + bx[2]) / 2.0, (bx[1] + bx[3]) / 2.0);
                    if near(p.0, cx) && (near(p.1, bx[1]) || near(p.1, bx[3])) && !near(p.1, cy) { Some('v') }
                    else if near(p.1, cy) && (near(p.0, bx[0]) || near(p.0, bx[2])) && !near(p.0, cx) { Some('h') }
                    else { None }
                }
                _ => None,
            }
        };
        // Z shapes (four points, first and last segment parallel): the bend sits where corner-offset says,
        // measured along the travel from the start when positive, back from the end when negative, half way
        // by default - so the last segment enters its edge from outside whichever way the connector runs
        if pts.len() == 4 {
            let horiz = near(pts[0].1, pts[1].1) && near(pts[2].1, pts[3].1) && near(pts[1].0, pts[2].0);
            let vert = near(pts[0].0, pts[1].0) && near(pts[2].0, pts[3].0) && near(pts[1].1, pts[2].1);
            // which edge an end sits on, from the geometry: the mid-point of exactly one edge of its box
            let edge_of = |e: &End, p: (f64, f64)| -> Option<char> {
                if let End::El(i, _) = e {
                    let bx = case.boxes[*i];
                    let (cx, cy) = ((bx[0] + bx[2]) / 2.0, (bx[1] + bx[3]) / 2.0);
                    let c: Vec<char> = [('l', near(p.0, bx[0]) && near(p.1, cy)), ('r', near(p.0, bx[2]) && near(p.1, cy)), ('t', near(p.1, bx[1]) && near(p.0, cx)), ('b', near(p.1, bx[3]) && near(p.0, cx))]
                        .iter().filter(|(_, on)| *on).map(|(c, _)| *c).collect();
                    if c.len() == 1 { Some(c[0]) } else { None }
                } else { None }
            };
            let facing = matches!((edge_of(&case.start, first), edge_of(&case.end, last)), (Some('r'), Some('l')) | (Some('l'), Some('r')) | (Some('t'), Some('b')) | (Some('b'), Some('t')));
            if horiz != vert && facing {
                let (a0, a1, m) = if horiz { (first.0, last.0, pts[1].0) } else { (first.1, last.1, pts[1].1) };
                let travel = a1 - a0;
                let sign = if travel < 0.0 { -1.0 } else { 1.0 };
                let want = match case.offset.as_deref() {
                    None => Some(a0 + travel / 2.0),
                    Some(o) if o.ends_with('%') => o.trim_end_matches('%').parse::<f64>().ok().map(|r| a0 + travel * r / 100.0),
                    Some(o) => o.parse::<f64>().ok().and_then(|v| if v.abs() > travel.abs() { None } else if v < 0.0 { Some(a1 + sign * v) } else { Some(a0 + sign * v) }),
                };
                if let Some(w) = want {
                    if !near(m, w) && !near(travel, 0.0) {
                        return Some(format!("the bend of the Z-shaped connector is at {m} but corner-offset {:?} along the travel {a0} -> {a1} puts it at {w}: {}", case.offset, k.el.xml()));
                    }
                }
            }
        }
        // U shapes (both ends on edges facing the same way): the connecting run lies beyond BOTH end points by
        // the (absolute) corner-offset, 3 by default - so each end is left and entered from outside its box
        if pts.len() == 4 {
            let edge_of2 = |e: &End, p: (f64, f64)| -> Option<char> {
                if let End::El(i, _) = e {
                    let bx = case.boxes[*i];
                    let (cx, cy) = ((bx[0] + bx[2]) / 2.0, (bx[1] + bx[3]) / 2.0);
                    let c: Vec<char> = [('l', near(p.0, bx[0]) && near(p.1, cy)), ('r', near(p.0, bx[2]) && near(p.1, cy)), ('t', near(p.1, bx[1]) && near(p.0, cx)), ('b', near(p.1, bx[3]) && near(p.0, cx))]
                        .iter().filter(|(_, on)| *on).map(|(c, _)| *c).collect();
                    if c.len() == 1 { Some(c[0]) } else { None }
                } else { None }
            };
            let off = match case.offset.as_deref() { None => Some(3.0), Some(o) if o.ends_with('%') => None, Some(o) => o.parse::<f64>().ok() };
            if let (Some(a), Some(b), Some(off)) = (edge_of2(&case.start, first), edge_of2(&case.end, last), off) {
                if a == b {
                    let (want, got, ok_shape) = match a {
                        'b' => (first.1.max(last.1) + off, pts[1].1, near(pts[1].1, pts[2].1) && near(pts[0].0, pts[1].0) && near(pts[2].0, pts[3].0)),
                        't' => (first.1.min(last.1) - off, pts[1].1, near(pts[1].1, pts[2].1) && near(pts[0].0, pts[1].0) && near(pts[2].0, pts[3].0)),
                        'r' => (first.0.max(last.0) + off, pts[1].0, near(pts[1].0, pts[2].0) && near(pts[0].1, pts[1].1) && near(pts[2].1, pts[3].1)),
                        _ => (first.0.min(last.0) - off, pts[1].0, near(pts[1].0, pts[2].0) && near(pts[0].1, pts[1].1) && near(pts[2].1, pts[3].1)),
                    };
                    if ok_shape && !near(want, got) {
                        return Some(format!("the run of the U-shaped connector (both ends on '{a}' edges) is at {got}, but {off} beyond the farther end point is {want}: {}", k.el.xml()));
                    }
                }
            }
        }
        if let Some(d) = dir_of(&case.start, first) {
            let seg_vertical = near(pts[0].0, pts[1].0) && !near(pts[0].1, pts[1].1);
            let seg_horizontal = near(pts[0].1, pts[1].1) && !near(pts[0].0, pts[1].0);
            if (d == 'v' && seg_horizontal) || (d == 'h' && seg_vertical) {
                return Some(format!("first segment {:?}-{:?} does not leave perpendicular to the start edge", pts[0], pts[1]));
            }
        }
        if let Some(d) = dir_of(&case.end, last) {
            let n = pts.len();
            let seg_vertical = near(pts[n - 2].0, pts[n - 1].0) && !near(pts[n - 2].1, pts[n - 1].1);
            let seg_horizontal = near(pts[n - 2].1, pts[n - 1].1) && !near(pts[n - 2].0, pts[n - 1].0);
            if (d == 'v' && seg_horizontal) || (d == 'h' && seg_vertical) {
                return Some(format!("last segment {:?}-{:?} does not enter perpendicular to the end edge", pts[n - 2], pts[n - 1]));
            }
        }
    }
    None
}

fn stream(rep: &mut Report, drv: &mut Driver, rng: &mut Rng, n: usize) -> Result<(), String> {
    let mut corr = Stream::new(
        "doc/connector",
        "correspondence",
        "two rect/circle/ellipse boxes (one in four the box of a <use> of a template standing elsewhere) in every relative placement (before/after/touching/overlapping/aligned per axis, identical) and a <line>/<polyline> with start/end given as element, element@loc, element@edge:offset or literal point; kinds straight, edge-type h/v, corner polyline with corner-offset abs/percent/none; output element vs the Lean model attribute for attribute; non-trivial = every case",
    );
    let mut orc = Stream::new(
        "oracle/connector",
        "oracle",
        "same documents; endpoints at the named location / minimal-distance candidate / literal point, h and v through the middle of the overlap, corner polylines axis-parallel and perpendicular at both ends, start/end/edge-type/corner-offset absent",
    );
    let cfg = default_cfg();
    for _ in 0..n {
        let case = gen_case(rng);
        let doc = &case.doc;
        corr.case(doc, true, || json!({"document": doc}));
        orc.case(doc, true, || json!({"document": doc}));
        corr.tally(&format!("kind={}", case.kind));
        let es = |e: &End| match e { End::Pt(..) => "point", End::El(_, Some(l)) if l.contains(':') => "el@edge", End::El(_, Some(_)) => "el@loc", End::El(_, None) => "el" };
        corr.tally(&format!("ends={}/{}", es(&case.start), es(&case.end)));
        if case.offset.is_some() { corr.tally("corner-offset"); }
        if case.els.iter().any(|e| e.name == "use") { corr.tally("end-is-use"); }
        let mut els: Vec<String> = case.els.iter().map(|e| e.encode()).collect();
        els.push(case.conn.encode());
        let elr: Vec<&str> = els.iter().map(|s| s.as_str()).collect();
        let m = drv.call("resolve_doc", &elr)?;
        let m_err = m.iter().any(|f| f.starts_with("err:"));
        match transform(doc, &cfg) {
            Err(p) => rep.violation(Violation { kind: "oracle", stream: orc.name.clone(), signature: "C13:panic".into(), what: format!("panic: {p}"), replay: json!({"input": doc}), confirmed_on_impl: true }),
            Ok(Err(e)) => {
                if m_err { corr.errors_agreed += 1; corr.tally("error-agreed"); }
                else { rep.violation(Violation { kind: "correspondence", stream: corr.name.clone(), signature: "doc:impl-error".into(), what: format!("implementation fails ({e}) where the model succeeds"), replay: json!({"input": doc}), confirmed_on_impl: false }); }
                // a straight / h / v connector between two existing elements (or literal points) is always
                // drawable; only a U-shaped corner connector with a percentage offset is rejected by design
                if case.kind != "corner" {
                    rep.violation(Violation { kind: "oracle", stream: orc.name.clone(), signature: format!("C13:rejected:{}", case.kind), what: format!("a {} connector between existing elements is not drawn: {e}", case.kind), replay: json!({"input": doc}), confirmed_on_impl: true });
                }
            }
            Ok(Ok(out)) => {
                let outs = match parse_elements(&out) { Ok(o) => o, Err(e) => { rep.violation(Violation { kind: "oracle", stream: orc.name.clone(), signature: "C13:unparseable".into(), what: e, replay: json!({"input": doc}), confirmed_on_impl: true }); continue; } };
                let imp: Vec<El> = outs.iter().filter(|o| o.el.get("id").is_some_and(|i| ["b0", "b1", "t0", "t1", "k"].contains(&i))).map(|o| o.el.clone()).collect();
                let mdl: Vec<El> = m.iter().map(|f| El::decode(f)).collect();
                if !m_err && imp == mdl {
                    corr.exact += 1;
                } else {
                    rep.violation(Violation { kind: "correspondence", stream: corr.name.clone(), signature: format!("doc:{}", case.kind),
                        what: format!("impl {:?} vs model {:?}", imp.last().map(|e| e.xml()), m.last()), replay: json!({"input": doc, "model": m}), confirmed_on_impl: false });
                }
                if let Some(what) = oracle(&case, &outs) {
                    rep.violation(Violation { kind: "oracle", stream: orc.name.clone(), signature: format!("C13:{}", case.kind), what, replay: json!({"input": doc, "case": format!("{:?} -> {:?} ({})", case.start, case.end, case.kind), "boxes": case.boxes.iter().map(|b| b.to_vec()).collect::<Vec<_>>()}), confirmed_on_impl: true });
                } else {
                    orc.exact += 1;
                }
            }
        }
    }
    rep.streams.push(corr);
    rep.streams.push(orc);
    Ok(())
}

pub fn run(rep: &mut Report, tier: &str, seed: u64) -> Result<(), String> {
    let mut rng = Rng::new(seed);
    let mut drv = Driver::start()?;
    let n = if tier == "thorough" { 80_000 } else { 3_000 };
    stream(rep, &mut drv, &mut rng.fork(), n)?;
    Ok(())
}
