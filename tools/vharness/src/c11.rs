//! C11 — uniform positioning: equivalent constraints give identical geometry.
use crate::driver::Driver;
use crate::geom::*;
use crate::report::*;
use crate::rng::Rng;
use crate::util::*;
use serde_json::json;
use svgdx::verif_hooks as hooks;

fn opt(v: Option<i64>) -> String {
    v.map(half).unwrap_or_else(|| "-".into())
}

/// stream 1: `Position::to_bbox` (GENERATED model) on every presence pattern of the 8 position
/// fields × shapes × value assignments, implementation through the hook.
fn stream_to_bbox(rep: &mut Report, drv: &mut Driver, rng: &mut Rng, rounds: usize) -> Result<(), String> {
    let mut st = Stream::new(
        "to_bbox/option-patterns",
        "correspondence",
        "all 256 presence patterns of (xmin ymin xmax ymax cx cy width height) x 6 shapes x value assignments (consistent box, inconsistent values); non-trivial = at least one field present",
    );
    let shapes = ["rect", "circle", "ellipse", "line", "point", "g"];
    for round in 0..rounds {
        let b = gen_box(rng, round % 2 == 1);
        for shape in shapes {
            for pat in 0..256u32 {
                // round 0: consistent with b; later rounds: perturb some fields
                let mut vals = [b.x1, b.y1, b.x2, b.y2, b.cx(), b.cy(), b.w(), b.h()];
                if round >= 2 {
                    for v in vals.iter_mut() {
                        if rng.chance(1, 3) {
                            *v += rng.range(-20, 20);
                        }
                    }
                }
                let fields: Vec<Option<i64>> = (0..8).map(|i| if pat & (1 << i) != 0 { Some(vals[i]) } else { None }).collect();
                let mut v: [Option<f32>; 10] = [None; 10];
                for i in 0..8 {
                    v[i] = fields[i].map(|x| x as f32 / 2.0);
                }
                let imp = hooks::position_to_bbox(shape, v);
                let imp_s = match imp {
                    Some(bb) => format!("some\t{}", bb.iter().map(|x| rat_of_f32(*x).unwrap_or("?".into())).collect::<Vec<_>>().join(" ")),
                    None => "none".into(),
                };
                let mut args: Vec<String> = vec![shape.to_string()];
                args.extend(fields.iter().map(|f| opt(*f)));
                args.push("-".into());
                args.push("-".into());
                let argr: Vec<&str> = args.iter().map(|s| s.as_str()).collect();
                let m = drv.call("to_bbox", &argr)?.join("\t");
                let key = format!("{shape}/{pat}/{round}/{:?}", fields);
                st.case(&key, pat != 0, || json!({"shape": shape, "fields": args[1..9], "impl": imp_s, "model": m}));
                st.tally(&format!("shape={shape}"));
                st.tally(if imp.is_some() { "result=some" } else { "result=none" });
                if m == imp_s {
                    st.exact += 1;
                } else {
                    rep.violation(Violation {
                        kind: "correspondence",
                        stream: st.name.clone(),
                        signature: format!("to_bbox:{shape}:{pat:08b}"),
                        what: format!("Position::to_bbox: implementation {imp_s:?} vs generated model {m:?}"),
                        replay: json!({"op": "to_bbox", "shape": shape, "fields": args[1..].to_vec(), "impl": imp_s, "model": m}),
                        confirmed_on_impl: false,
                    });
                }
            }
        }
    }
    rep.streams.push(st);
    Ok(())
}

fn with_delta(rng: &mut Rng, el: &mut El) -> (i64, i64) {
    if rng.chance(1, 4) {
        let dx = rng.range(-20, 20);
        let dy = rng.range(-20, 20);
        if rng.chance(1, 2) {
            el.push("dxy", &format!("{} {}", half(dx), half(dy)));
        } else {
            el.push("dx", &half(dx));
            el.push("dy", &half(dy));
        }
        (dx, dy)
    } else {
        (0, 0)
    }
}

/// stream 2: the one-element pipeline (hook `resolve_element`) against the hand-written Lean model
fn stream_resolve(rep: &mut Report, drv: &mut Driver, rng: &mut Rng, n: usize) -> Result<(), String> {
    let mut st = Stream::new(
        "resolve/spellings",
        "correspondence",
        "shape x 6x6 per-axis constraint pairs x shorthand/longhand x separators x boxes on the half-unit grid, optional dx/dy; compared attribute-for-attribute, in order; non-trivial = every case (each has two constraints per axis)",
    );
    for i in 0..n {
        let shape = SHAPES[i % 4];
        let b = gen_box(rng, shape == "circle");
        let px = PAIRS[(i / 4) % 6];
        let py = PAIRS[(i / 24) % 6];
        let sh = rng.chance(2, 3);
        let (mut el, desc) = spell(rng, shape, &b, px, py, sh);
        let (_dx, _dy) = with_delta(rng, &mut el);
        // rxy on any shape (corner radii of a rect; on a circle or line it is expanded and then unused),
        // xy-loc next to a spelling without `xy`
        if el.get("rxy").is_none() && el.get("rx").is_none() && el.get("r").is_none() && rng.chance(1, 5) { el.push("rxy", *rng.pick(&["1", "1 2", "1.5,2"])); }
        if el.get("xy").is_none() && rng.chance(1, 5) { el.push("xy-loc", *rng.pick(&["c", "br", "t", "zz"])); }
        if rng.chance(1, 3) {
            el.push("id", "e1");
        }
        if rng.chance(1, 3) {
            el.push("class", "d-red thing");
        }
        if rng.chance(1, 4) {
            el.push("stroke-width", "2");
        }
        let imp = hooks::resolve_element(&[], None, &el.raw());
        let imp_s = match &imp {
            Ok(r) => format!("ok\t{}", El::from_raw(r).encode()),
            Err(_) => "err".to_string(),
        };
        let enc = el.encode();
        let m = drv.call("resolve", &["-1", "0", &enc])?;
        let m_s = if m[0] == "err" { "err".to_string() } else { m.join("\t") };
        st.case(&enc, true, || json!({"element": el.xml(), "impl": imp_s, "model": m_s}));
        st.tally(&format!("shape={shape}"));
        st.tally(&format!("pair={px:?}/{py:?}"));
        for part in desc.split(':').skip(2) {
            st.tally(&format!("shorthand={part}"));
        }
        if imp_s == m_s {
            st.exact += 1;
            if imp.is_err() {
                st.errors_agreed += 1;
            }
        } else {
            rep.violation(Violation {
                kind: "correspondence",
                stream: st.name.clone(),
                signature: format!("resolve:{shape}:{px:?}/{py:?}"),
                what: format!("one-element pipeline differs: impl {imp_s:?} model {m_s:?}"),
                replay: json!({"op": "resolve", "element": el.xml(), "impl": imp_s, "model": m_s}),
                confirmed_on_impl: false,
            });
        }
    }
    rep.streams.push(st);
    Ok(())
}

/// oracle: k spellings of the same box in one document must come out with identical native geometry,
/// equal to the box, and with no shorthand / foreign geometry attribute left.
fn oracle_docs(rep: &mut Report, rng: &mut Rng, n: usize) {
    let mut st = Stream::new(
        "oracle/spellings-agree",
        "oracle",
        "documents of 6 spellings of one box per shape through transform_str; output geometry parsed back; non-trivial = spellings pairwise different",
    );
    let cfg = default_cfg();
    for i in 0..n {
        let shape = SHAPES[i % 4];
        let b = gen_box(rng, shape == "circle");
        let (dx, dy) = if rng.chance(1, 4) { (rng.range(-20, 20), rng.range(-20, 20)) } else { (0, 0) };
        // a line has a direction: one in three runs backwards on an axis (end before start); its start is
        // then still its start, whichever spelling names it (only pairs without a length can say that)
        let mut reversed = false;
        let b = if shape == "line" && rng.chance(1, 3) {
            reversed = true;
            match rng.below(3) { 0 => HBox { x1: b.x2, x2: b.x1, ..b }, 1 => HBox { y1: b.y2, y2: b.y1, ..b }, _ => HBox { x1: b.x2, x2: b.x1, y1: b.y2, y2: b.y1 } }
        } else { b };
        if reversed { st.tally("line-runs-backwards"); }
        let mut els = vec![];
        let corner: Option<(i64, i64)> = if shape == "rect" && rng.chance(1, 3) { let a = 1 + rng.range(0, 4); Some((a, if rng.chance(1, 2) { a } else { 1 + rng.range(0, 4) })) } else { None };
        for k in 0..6 {
            let (px, py) = if reversed { (*rng.pick(&[Pair::SE, Pair::SM, Pair::EM]), *rng.pick(&[Pair::SE, Pair::SM, Pair::EM])) } else { (*rng.pick(&PAIRS), *rng.pick(&PAIRS)) };
            let (mut el, _) = spell(rng, shape, &b, px, py, k % 2 == 0);
            if (dx, dy) != (0, 0) {
                if k % 2 == 0 {
                    el.push("dxy", &format!("{} {}", half(dx), half(dy)));
                } else {
                    el.push("dx", &half(dx));
                    el.push("dy", &half(dy));
                }
            }
            // xy-loc says which point a plain `xy` names; next to other spellings it says nothing and must
            // neither change the geometry nor stay behind
            if el.get("xy").is_none() && rng.chance(1, 4) { el.push("xy-loc", *rng.pick(&["c", "br", "t"])); }
            // the corner radii of a rect, as shorthand or as the longhand pair
            if let Some((a, b2)) = corner {
                if k % 2 == 0 { el.push("rxy", &if a == b2 && rng.chance(1, 2) { half(a) } else { format!("{}{}{}", half(a), rng.pick(&[" ", ",", ", "]), half(b2)) }); }
                else { el.push("rx", &half(a)); el.push("ry", &half(b2)); }
            }
            el.push("id", &format!("s{k}"));
            els.push(el);
        }
        let doc = format!("<svg>\n{}\n</svg>", els.iter().map(|e| format!("  {}", e.xml())).collect::<Vec<_>>().join("\n"));
        let distinct = els.iter().map(|e| { let mut a = e.attrs.clone(); a.retain(|(k, _)| k != "id"); a.sort(); format!("{a:?}") }).collect::<std::collections::HashSet<_>>().len();
        st.case(&doc, distinct > 1, || json!({"document": doc}));
        st.tally(&format!("shape={shape}"));
        let mut expected = expected_native(shape, &b, dx, dy);
        if let Some((a, b2)) = corner { expected.push(("rx".into(), half(a))); expected.push(("ry".into(), half(b2))); }
        let fail = |rep: &mut Report, what: String, sig: &str| {
            rep.violation(Violation {
                kind: "oracle",
                stream: "oracle/spellings-agree".into(),
                signature: format!("C11:{sig}:{shape}"),
                what,
                replay: json!({"input": doc, "config": "default", "expected_geometry": expected}),
                confirmed_on_impl: true,
            });
        };
        match transform(&doc, &cfg) {
            Err(p) => fail(rep, format!("panic: {p}"), "panic"),
            Ok(Err(e)) => fail(rep, format!("transform failed on equivalent spellings: {e}"), "error"),
            Ok(Ok(out)) => match parse_elements(&out) {
                Err(e) => fail(rep, format!("output not parseable: {e}"), "unparseable"),
                Ok(outs) => {
                    let shapes: Vec<&OutEl> = outs.iter().filter(|o| o.el.name == shape).collect();
                    if shapes.len() != els.len() {
                        fail(rep, format!("expected {} <{shape}> elements, found {}", els.len(), shapes.len()), "count");
                        continue;
                    }
                    let mut ok = true;
                    for (o, src) in shapes.iter().zip(&els) {
                        let geo: Vec<(String, String)> = o.el.attrs.iter().filter(|(k, _)| GEOM_ATTRS.contains(&k.as_str())).cloned().collect();
                        let mut g = geo.clone();
                        g.sort();
                        let mut e = expected.clone();
                        e.sort();
                        if g != e {
                            ok = false;
                            fail(rep, format!("spelling {} gives geometry {:?}, expected {:?}", src.xml(), geo, expected), "geometry");
                            break;
                        }
                    }
                    if ok {
                        st.exact += 1;
                    }
                }
            },
        }
    }
    rep.streams.push(st);
}

pub fn run(rep: &mut Report, tier: &str, seed: u64) -> Result<(), String> {
    let mut rng = Rng::new(seed);
    let mut drv = Driver::start()?;
    let (rounds, n_resolve, n_docs) = if tier == "thorough" { (12, 40_000, 8_000) } else { (3, 2_880, 400) };
    stream_to_bbox(rep, &mut drv, &mut rng.fork(), rounds)?;
    stream_resolve(rep, &mut drv, &mut rng.fork(), n_resolve)?;
    oracle_docs(rep, &mut rng.fork(), n_docs);
    Ok(())
}
