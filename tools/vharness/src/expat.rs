//! Client for the independent XML oracle (python expat child process).
use serde_json::Value;
use std::io::{Read, Write};
use std::process::{Child, ChildStdin, ChildStdout, Command, Stdio};

pub struct Expat {
    child: Child,
    stdin: ChildStdin,
    stdout: ChildStdout,
    pub calls: u64,
}

impl Expat {
    pub fn start() -> Result<Self, String> {
        let py = std::env::var("VERIF_PYTHON").unwrap_or_else(|_| "python3".into());
        let mut child = Command::new(&py)
            .arg("/verif/tools/oracle/xmloracle.py")
            .stdin(Stdio::piped())
            .stdout(Stdio::piped())
            .stderr(Stdio::inherit())
            .spawn()
            .map_err(|e| format!("cannot start {py} xmloracle.py: {e}"))?;
        let stdin = child.stdin.take().unwrap();
        let stdout = child.stdout.take().unwrap();
        Ok(Expat { child, stdin, stdout, calls: 0 })
    }

    /// parse `doc`; Ok(infoset json) when well-formed, Err(reason) otherwise
    pub fn parse(&mut self, doc: &[u8]) -> Result<Value, String> {
        let hdr = (doc.len() as u32).to_be_bytes();
        self.stdin.write_all(&hdr).and_then(|_| self.stdin.write_all(doc)).and_then(|_| self.stdin.flush()).map_err(|e| format!("oracle write: {e}"))?;
        let mut h = [0u8; 4];
        self.stdout.read_exact(&mut h).map_err(|e| format!("oracle read: {e}"))?;
        let n = u32::from_be_bytes(h) as usize;
        let mut buf = vec![0u8; n];
        self.stdout.read_exact(&mut buf).map_err(|e| format!("oracle read: {e}"))?;
        self.calls += 1;
        let v: Value = serde_json::from_slice(&buf).map_err(|e| format!("oracle json: {e}"))?;
        if v.get("ok").and_then(|b| b.as_bool()) == Some(true) {
            Ok(v)
        } else {
            Err(v.get("error").and_then(|e| e.as_str()).unwrap_or("not well-formed").to_string())
        }
    }

    /// parse a fragment (several top-level elements / text) by wrapping it in a dummy root
    pub fn parse_fragment(&mut self, doc: &[u8]) -> Result<Value, String> {
        let mut w = b"<verif-wrap>".to_vec();
        w.extend_from_slice(doc);
        w.extend_from_slice(b"</verif-wrap>");
        self.parse(&w)
    }
}

impl Drop for Expat {
    fn drop(&mut self) {
        let _ = self.child.kill();
        let _ = self.child.wait();
    }
}
