/-
  Driver.Ctl — protocol ops for the control-skeleton model.
-/
import Driver.Codec
import Svgdx.Ctl.SimpleEval
import Svgdx.Sched.Retry
import Svgdx.Cli.Run
import Driver.Expr
namespace Driver
open Svgdx Ctl

def decodeTok (f : Str) : Option Tok :=
  match f with
  | 'S' :: ' ' :: r => some (.start (decodeElem r))
  | 'L' :: ' ' :: r => some (.leaf (decodeElem r))
  | ['E'] => some .end_
  | 'T' :: ' ' :: r => some (.text r)
  | 'C' :: ' ' :: r => some (.comment r)
  | 'D' :: ' ' :: r => some (.cdata r)
  | _ => none

def encodeEv : Ev → Str
  | .start e => 'S' :: ' ' :: encodeElem e
  | .empty e => 'L' :: ' ' :: encodeElem e
  | .end_ n => 'E' :: ' ' :: n
  | .text t => 'T' :: ' ' :: t
  | .comment c => 'C' :: ' ' :: c
  | .cdata c => 'D' :: ' ' :: c

def natField (n : Nat) : Str := Str.natToStr n

def mapErr : Expr.Err → Err
  | .parse => .parse
  | .circular => .circular
  | .invalidData => .invalidData
  | .reference => .reference
  | .depthLimit => .exprDepth
  | _ => .other

/-- `EvalState::element_ref`: `#id~scalar` against the geometry context -/
def elrefOf (c : Ctx) : Str → Expr.Res Float32 := fun v =>
  match extractElref v with
  | some (r, '~' :: sc) =>
    if sc.any Str.isWs then .error .parse
    else match parseScalarSpec sc with
      | none => .error .parse
      | some ss =>
        match c.get r with
        | none => .error .reference
        | some el =>
          match c.bb el with
          | .ok (some b) => .ok (F32.ofRat (b.scalarspec ss))
          | .ok none => .error .reference
          | .error .parse => .error .parse
          | .error .invalidData => .error .invalidData
          | .error .circular => .error .circular
          | .error _ => .error .reference
  | _ => .error .parse

/-- the expression evaluator of `Svgdx.Expr` at `Float32` with the PCG32 source, as the control skeleton's evaluator -/
def realEvalr : Evalr Pcg.Rng where
  evalAttr := fun c env rng v =>
    match Expr.evalAttr f32Ops env (elrefOf c) v rng with
    | .ok r => .ok r
    | .error e => .error (mapErr e)
  evalCondition := fun c env rng v =>
    match Expr.evalCondition f32Ops env (elrefOf c) v rng with
    | .ok r => .ok r
    | .error e => .error (mapErr e)
  evalList := fun c env rng v =>
    match Expr.evalList f32Ops env (elrefOf c) v rng with
    | .ok r => .ok r
    | .error e => .error (mapErr e)

/-- run a document given as protocol tokens through `transformDoc` with the real expression evaluator -/
def runCtlDoc (ll vl dl : Str) (toks : List Str) : St Pcg.Rng × Res :=
  let cfg : Cfg := { loopLimit := Num.digitsToNat ll, varLimit := Num.digitsToNat vl, depthLimit := Num.digitsToNat dl }
  let doc := parseDoc (toks.filterMap decodeTok)
  let st0 : St Pcg.Rng := { rng := Pcg.seedFromU64 0, cfg := cfg }
  let fuel := 4000 + 40 * toks.length
  let (_, st, r) := transformDoc realEvalr fuel st0 doc
  (st, r)

/-- the fields both `ctl_doc` ops start with: status depth scopeHeight elemStackHeight inSpecs outside bbox -/
def ctlHead (st : St Pcg.Rng) (r : Res) : List Str :=
  let status : Str := match r with
    | .ok _ => cs!"ok"
    | .error e => cs!"err:" ++ e.name.toList
  let bb : Str := match r with
    | .ok (_, some b) => bboxStr b
    | _ => cs!"none"
  [status, natField st.depth, natField st.scopes.length, natField st.elemStack.length,
    (if st.inSpecs then ['1'] else ['0']), (if st.outside then ['1'] else ['0']), bb]

def ctlEvs (r : Res) : List Str :=
  match r with
  | .ok (evs, _) => evs.map encodeEv
  | .error _ => []

/-- `ctl_doc loopLimit varLimit depthLimit tok…` → status depth scopeHeight elemStackHeight inSpecs outside bbox ev…
    (documents may contain `<defaults>`: it is an ordinary element with content for the codec);
    `ctl_doc_defaults` (same arguments) → the same seven fields, then the number of scopes `n` and `n` fields with the
    number of defaults stored in each scope at the end of the run (innermost first), then the events -/
def handleCtl (op : Str) (args : List Str) : Option String :=
  if op == cs!"ctl_doc" then
    match args with
    | ll :: vl :: dl :: toks =>
      let (st, r) := runCtlDoc ll vl dl toks
      some (joinFields (ctlHead st r ++ ctlEvs r))
    | _ => none
  else if op == cs!"ctl_doc_defaults" then
    match args with
    | ll :: vl :: dl :: toks =>
      let (st, r) := runCtlDoc ll vl dl toks
      some (joinFields (ctlHead st r ++ [natField st.scopes.length] ++
        st.scopes.map (fun s => natField s.defaults.length) ++ ctlEvs r))
    | _ => none
  else if op == cs!"sched_run" then
    -- `sched_run "id dep dep…" …` → `some id=level …` (in resolution order) | `none`:
    -- the abstract retry loop on items that are ready once all their dependencies are resolved
    let items : List (Sched.Item Nat Nat) := args.filterMap fun a =>
      match (Str.splitWhitespace a).map Num.digitsToNat with
      | i :: deps => some ⟨i, fun f =>
          deps.foldl (fun acc d => match acc, f d with
            | some m, some v => some (Nat.max m (v + 1))
            | _, _ => none) (some 0)⟩
      | [] => none
    match Sched.run items with
    | some env => some (joinFields (cs!"some" :: env.reverse.map fun p => natField p.1 ++ ['='] ++ natField p.2))
    | none => some (joinFields [cs!"none"])
  else if op == cs!"cli_run" then
    -- `cli_run sameFile outExists transformOk` → exit (ok|err), output file (new|kept|absent)
    match args with
    | [same, ex, tok] =>
      let inp : Str := cs!"/d/in.xml"
      let out : Str := if same == ['1'] then cs!"/d/./in.xml" else cs!"/d/out.svg"
      let canon : Str → Str := fun p => if p == cs!"/d/./in.xml" then cs!"/d/in.xml" else p
      let fs0 : Cli.FS := ⟨[(inp, cs!"INPUT")] ++ (if ex == ['1'] && same != ['1'] then [(out, cs!"PREVIOUS")] else [])⟩
      let t : Str → Option Str := fun _ => if tok == ['1'] then some cs!"NEW" else none
      let before := fs0.read (canon out)
      let (fs1, ex1) := Cli.run canon t fs0 inp out
      let after := fs1.read (canon out)
      let o : Str := match after with
        | none => cs!"absent"
        | some c => if some c == before then cs!"kept" else if c == cs!"NEW" then cs!"new" else cs!"other"
      some (joinFields [(match ex1 with | .ok => cs!"ok" | .err => cs!"err"), o])
    | _ => none
  else if op == cs!"eval_vars" then
    match args with
    | n :: rest =>
      let n := Num.digitsToNat n
      let vars := pairs (rest.take (2 * n))
      match rest.drop (2 * n) with
      | [v] => some (joinFields [evalVars (Attrs.lookupTable vars) v])
      | _ => none
    | _ => none
  else none

end Driver
