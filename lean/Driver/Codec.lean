/-
  Driver.Codec — line protocol helpers: TAB-separated fields, `\t \n \r \\` escaped;
  elements as one field with U+001F between name / key / value items.
-/
import Svgdx.Geom.Connector
namespace Driver
open Svgdx

def unescape : List Char → List Char
  | '\\' :: 't' :: r => '\t' :: unescape r
  | '\\' :: 'n' :: r => '\n' :: unescape r
  | '\\' :: 'r' :: r => '\r' :: unescape r
  | '\\' :: '\\' :: r => '\\' :: unescape r
  | c :: r => c :: unescape r
  | [] => []

def escape : List Char → List Char
  | '\t' :: r => '\\' :: 't' :: escape r
  | '\n' :: r => '\\' :: 'n' :: escape r
  | '\r' :: r => '\\' :: 'r' :: escape r
  | '\\' :: r => '\\' :: '\\' :: escape r
  | c :: r => c :: escape r
  | [] => []

def fields (line : String) : List Str :=
  (Str.splitBy (· == '\t') line.toList).map unescape

def joinFields (fs : List Str) : String :=
  String.ofList (Str.intercalate ['\t'] (fs.map escape))

def us : Char := Char.ofNat 0x1f

def pairs : List Str → List (Str × Str)
  | k :: v :: r => (k, v) :: pairs r
  | _ => []

/-- `name US k US v US k US v …`; classes travel as a `class` attribute -/
def decodeElem (f : Str) : Elem :=
  match Str.splitBy (· == us) f with
  | name :: rest => Elem.new name (pairs rest)
  | [] => Elem.new [] []

def encodeElem (e : Elem) : Str :=
  let items := e.attrs.flatMap (fun kv => [kv.1, kv.2])
  let items := if e.classes.isEmpty then items
    else items ++ [cs!"class", Str.intercalate [' '] e.classes]
  Str.intercalate [us] (e.name :: items)

def ratStr (q : Rat) : Str := Str.intToStr q.num ++ ['/'] ++ Str.natToStr q.den

def optRat (f : Str) : Option Rat := if f == ['-'] then none else Num.strp f

def bboxStr (b : Gen.BoundingBox) : Str :=
  Str.intercalate [' '] [ratStr b.x1, ratStr b.y1, ratStr b.x2, ratStr b.y2]

def parseBBox (a b c d : Str) : Option Gen.BoundingBox :=
  match Num.strp a, Num.strp b, Num.strp c, Num.strp d with
  | some a, some b, some c, some d => some ⟨a, b, c, d⟩
  | _, _, _, _ => none

end Driver
