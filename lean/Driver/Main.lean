/-
  Driver.Main — line-protocol driver for the executable model (DESIGN.md §4.2).
  One request per line: `op TAB arg TAB arg …`; one response line per request.
  Imports model files only (no Mathlib), so it links as a native executable.
-/
import Driver.Codec
import Driver.Ctl
import Driver.Xml
import Driver.Theme
import Driver.Expr
import Driver.Bearing
open Svgdx Driver

def errLine (e : Err) : String := joinFields [cs!"err", e.name.toList]

def handleGeom (op : Str) (args : List Str) : Option String :=
  if op == cs!"fstr" then
    match args with
    | [x] => (Num.strp x).map fun q =>
        joinFields [Num.fstr q, if Num.fstrExact q then ['1'] else ['0']]
    | _ => none
  else if op == cs!"strp" then
    match args with
    | [x] => some (match Num.strp x with
        | some q => joinFields [cs!"ok", ratStr q]
        | none => if Num.strpIsNonfinite x then "nonfinite" else "err")
    | _ => none
  else if op == cs!"to_bbox" then
    match args with
    | [shape, a, b, c, d, e, f, g, h, i, j] =>
      let p : Gen.Position :=
        ⟨optRat a, optRat b, optRat c, optRat d, optRat e, optRat f, optRat g, optRat h, optRat i,
          optRat j, shape⟩
      some (match p.to_bbox with
        | some bb => joinFields [cs!"some", bboxStr bb]
        | none => "none")
    | _ => none
  else if op == cs!"locspec" then
    match args with
    | [a, b, c, d, loc] =>
      match parseBBox a b c d, parseLocSpec loc with
      | some bb, some l => let (x, y) := bb.locspec l; some (joinFields [cs!"ok", ratStr x, ratStr y])
      | _, _ => some "err"
    | _ => none
  else if op == cs!"scalarspec" then
    match args with
    | [a, b, c, d, ss] =>
      match parseBBox a b c d, parseScalarSpec ss with
      | some bb, some s => some (joinFields [cs!"ok", ratStr (bb.scalarspec s)])
      | _, _ => some "err"
    | _ => none
  else if op == cs!"calc_offset" then
    match args with
    | [len, s, e] =>
      match parseLength len, Num.strp s, Num.strp e with
      | some l, some s, some e => some (joinFields [cs!"ok", ratStr (l.calc_offset s e)])
      | _, _, _ => some "err"
    | _ => none
  else if op == cs!"bbox_trbl" then
    match args with
    | [a, b, c, d, trbl, expand] =>
      match parseBBox a b c d, parseTrbl trbl with
      | some bb, some t =>
        let r := if expand == ['1'] then bb.expand_trbl_length t else bb.shrink_trbl_length t
        some (joinFields [cs!"ok", bboxStr r])
      | _, _ => some "err"
    | _ => none
  else if op == cs!"bbox2" then
    -- combine / intersect
    match args with
    | [which, a, b, c, d, e, f, g, h] =>
      match parseBBox a b c d, parseBBox e f g h with
      | some x, some y =>
        if which == cs!"combine" then some (joinFields [cs!"some", bboxStr (x.combine y)])
        else some (match x.intersect y with
          | some r => joinFields [cs!"some", bboxStr r]
          | none => "none")
      | _, _ => some "err"
    | _ => none
  else if op == cs!"bbox_round" then
    match args with
    | [a, b, c, d, ex, ey] =>
      match parseBBox a b c d, Num.strp ex, Num.strp ey with
      | some x, some ex, some ey => some (joinFields [cs!"ok", bboxStr ((x.expand ex ey).round)])
      | _, _, _ => some "err"
    | _ => none
  else if op == cs!"xfrm" then
    match args with
    | [t, a, b, c, d] =>
      match parseXfList t, parseBBox a b c d with
      | some xs, some bb => some (joinFields [cs!"ok", bboxStr (applyXfList xs bb)])
      | _, _ => some "err"
    | _ => none
  else if op == cs!"path_bbox" then
    match args with
    | [d] => some (match Path.pathBBox d with
        | .ok (some bb) => joinFields [cs!"some", bboxStr bb]
        | .ok none => "none"
        | .err => "err"
        | .outOfFuel => "outOfFuel")
    | _ => none
  else if op == cs!"resolve" then
    -- resolve prevIdx(-1 none) n known… element : the OtherElement pipeline
    match args with
    | prevIdx :: n :: rest =>
      let n := Num.digitsToNat n
      let known := (rest.take n).map decodeElem
      match rest.drop n with
      | [el] =>
        let elems := known.reverse.filterMap fun k => (k.getAttr cs!"id").map fun i => (i, k)
        let prev := if prevIdx == cs!"-1" then none else known[Num.digitsToNat prevIdx]?
        let ctx : Ctx := { elems := elems, prev := prev }
        let e := decodeElem el
        let r := e.process ctx
        some (match r with
          | .ok e => joinFields [cs!"ok", encodeElem e]
          | .error er => errLine er)
      | _ => none
    | _ => none
  else if op == cs!"resolve_doc" then
    -- in-order evaluation of a flat list of leaf elements (no retries): the model's `process_tags`
    -- for documents whose references all point backwards
    let els := args.map decodeElem
    let step := fun (st : Ctx × List Str × Bool) (e : Elem) =>
      let (ctx, outs, failed) := st
      if failed then st
      else
        let r := e.process ctx
        match r with
        | .error er => (ctx, outs ++ [cs!"err:" ++ er.name.toList], true)
        | .ok e' =>
          let ctx := match e'.getAttr cs!"id" with
            | some i => { ctx with elems := (i, e') :: ctx.elems }
            | none => ctx
          let ctx := match ctx.bb e' with
            | .ok (some _) => { ctx with prev := some e' }
            | _ => ctx
          (ctx, outs ++ [encodeElem e'], false)
    let (_, outs, _) := els.foldl step (({} : Ctx), [], false)
    some (joinFields outs)
  else if op == cs!"elem_bbox" then
    match args with
    | n :: rest =>
      let n := Num.digitsToNat n
      let known := (rest.take n).map decodeElem
      match rest.drop n with
      | [el] =>
        let elems := known.reverse.filterMap fun k => (k.getAttr cs!"id").map fun i => (i, k)
        let ctx : Ctx := { elems := elems }
        some (match ctx.bb (decodeElem el) with
          | .ok (some bb) => joinFields [cs!"some", bboxStr bb]
          | .ok none => "none"
          | .error er => errLine er)
      | _ => none
    | _ => none
  else none

def handle (line : String) : String :=
  match fields line with
  | op :: args =>
    match handleGeom op args with
    | some r => r
    | none =>
      match handleCtl op args with
      | some r => r
      | none =>
        match handleXml op args with
        | some r => r
        | none =>
          match handleTheme op args with
          | some r => r
          | none =>
            match Driver.handleExpr op args with
            | some r => r
            | none =>
              match Driver.handleBearing op args with
              | some r => r
              | none => "bad-op"
  | [] => "bad-op"

partial def loop (h : IO.FS.Stream) (out : IO.FS.Stream) : IO Unit := do
  let line ← h.getLine
  if line.isEmpty then return ()
  let line := if line.endsWith "\n" then (line.dropEnd 1).toString else line
  out.putStrLn (handle line)
  out.flush
  loop h out

def main : IO Unit := do
  loop (← IO.getStdin) (← IO.getStdout)
