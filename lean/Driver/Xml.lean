/-
  Driver.Xml — protocol ops for the XML layer and root attributes.
-/
import Driver.Ctl
import Svgdx.Xml.Raw
import Svgdx.Xml.Write
import Svgdx.Xml.RefCheck
import Svgdx.Doc.Root
import Svgdx.Geom.Text
import Svgdx.Doc.Transform
namespace Driver
open Svgdx Xml

def handleXml (op : Str) (args : List Str) : Option String :=
  if op == cs!"xml_tokens" then
    match args with
    | [s] =>
      some (match tokenize (s.length + 1) s with
        | none => "err"
        | some ts => joinFields (cs!"ok" :: ts.flatMap fun t => [t.kind.name.toList, t.content]))
    | _ => none
  else if op == cs!"xml_passthrough" then
    match args with
    | [s] => some (match passThroughW s with | some r => joinFields [cs!"ok", r] | none => "err")
    | _ => none
  else if op == cs!"xml_write" then
    some (joinFields [write ((args.filterMap decodeTok).map fun t =>
      match t with
      | .start e => Ctl.Ev.start e
      | .leaf e => Ctl.Ev.empty e
      | .end_ => Ctl.Ev.end_ []
      | .text s => Ctl.Ev.text s
      | .comment c => Ctl.Ev.comment c
      | .cdata c => Ctl.Ev.cdata c)])
  else if op == cs!"xml_write2" then
    -- events with explicit end names: "E name"
    let evs := args.filterMap fun f =>
      match f with
      | 'S' :: ' ' :: r => some (Ctl.Ev.start (decodeElem r))
      | 'L' :: ' ' :: r => some (Ctl.Ev.empty (decodeElem r))
      | 'E' :: ' ' :: r => some (Ctl.Ev.end_ r)
      | 'T' :: ' ' :: r => some (Ctl.Ev.text r)
      | 'C' :: ' ' :: r => some (Ctl.Ev.comment r)
      | 'D' :: ' ' :: r => some (Ctl.Ev.cdata r)
      | _ => none
    -- `write_to` as the caller sees it: refused when a character XML cannot contain would be written
    some (match writeChecked evs with | some r => joinFields [r] | none => "err\tunwritable")
  else if op == cs!"xml_escape" then
    match args with
    | [s] => some (joinFields [Xml.escape s])
    | _ => none
  else if op == cs!"xml_unescape" then
    match args with
    | [s] => some (match Xml.unescape s with | some r => joinFields [cs!"ok", r] | none => "err")
    | _ => none
  else if op == cs!"ref_check" then
    -- ref_check hasDoctype(0|1) s : `invalid_reference(s, has_doctype)` of the reader
    match args with
    | [hd, s] =>
      some (match Xml.invalidReference s (hd == ['1']) with
        | none => "none"
        | some r => joinFields [cs!"some", r])
    | _ => none
  else if op == cs!"reader_accepts" then
    -- reader_accepts isText(0|1) hasDoctype(0|1) s : the per-event check of `InputList::from_reader`
    match args with
    | [tx, hd, s] =>
      some (if Xml.readerAccepts (tx == ['1']) s (hd == ['1']) then "ok" else "refused")
    | _ => none
  else if op == cs!"text_attr" then
    match args with
    | [el] =>
      some (match Text.processTextAttr (decodeElem el) with
        | .ok (orig, tes) => joinFields (cs!"ok" :: encodeElem orig :: tes.flatMap fun t => [encodeElem t.el, t.content])
        | .error e => joinFields [cs!"err", e.name.toList])
    | _ => none
  else if op == cs!"text_string" then
    match args with
    | [s] => some (joinFields [Text.textString s])
    | _ => none
  else if op == cs!"doc_transform" then
    -- doc_transform border scale loopLimit varLimit depthLimit tok… : the whole pipeline, auto-styles off
    match args with
    | border :: scale :: ll :: vl :: dl :: toks =>
      let rcfg : Doc.RootCfg := ⟨Num.digitsToNat border, (Num.strp scale).getD 1, none, none⟩
      let cfg : Ctl.Cfg := { loopLimit := Num.digitsToNat ll, varLimit := Num.digitsToNat vl, depthLimit := Num.digitsToNat dl }
      let doc := Ctl.parseDoc (toks.filterMap decodeTok)
      let st0 : Ctl.St Nat := { rng := 0, cfg := cfg }
      let (real, st, r) := Ctl.transformDoc Ctl.simpleEvalr (4000 + 40 * toks.length) st0 doc
      some (match r with
        | .error e => joinFields [cs!"err:" ++ e.name.toList, if st.outside then ['1'] else ['0']]
        | .ok (evs, bb) =>
          let out := if real then some evs else Doc.postprocess rcfg evs bb
          -- the exactness monitor looks at the root as the author wrote it (before post-processing)
          let derivedOk := real || Doc.postprocessExact rcfg evs bb
          match out with
          | none => joinFields [cs!"err:RootAttrs", ['0']]
          | some evs =>
            let flag := if st.outside then ['1']
              else if !derivedOk then ['2'] else ['0']
            joinFields ([cs!"ok", flag] ++ evs.map encodeEv))
    | _ => none
  else if op == cs!"root_attrs" then
    -- root_attrs border scale style(-) localid(-) bbox(none | x1 y1 x2 y2 as 4 fields) n k v …
    match args with
    | border :: scale :: style :: lid :: b1 :: b2 :: b3 :: b4 :: rest =>
      let sty : Option Str := if style == ['-'] then none else some style
      let lid' : Option Str := if lid == ['-'] then none else some lid
      let cfg : Doc.RootCfg := ⟨Num.digitsToNat border, (Num.strp scale).getD 1, sty, lid'⟩
      let bb := if b1 == cs!"none" then none else parseBBox b1 b2 b3 b4
      let orig := (Elem.new cs!"svg" (pairs rest)).attrs
      some (match Doc.rootAttrs cfg orig bb with
        | some a => joinFields (cs!"ok" :: a.flatMap fun kv => [kv.1, kv.2])
        | none => "err")
    | _ => none
  else none

end Driver
