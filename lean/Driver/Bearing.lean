/-
  Driver.Bearing — driver op for the bearing-command rewriting of path data (bearing.rs), on the
  `Float32` number operations of `Driver.Expr` (`f32Ops`: IEEE arithmetic, libm `sinf` / `cosf`,
  `fstr` through the exact value of the bits).
-/
import Driver.Codec
import Driver.Expr
import Svgdx.Path.Bearing
namespace Driver
open Svgdx Svgdx.Bearing

/-- ops: `path_bearing <d>` → `ok TAB output` | `err TAB ParseError` | `err TAB InvalidData` | `fuel`;
    `path_bearing_final <d>` → `ok TAB bits TAB fstr` of the bearing after the whole data | `err` -/
def handleBearing (op : Str) (args : List Str) : Option String :=
  if op == cs!"path_bearing" then
    match args with
    | [d] => some (match processPathBearing f32Ops d with
        | .ok out => joinFields [cs!"ok", out]
        | .parseError => joinFields [cs!"err", cs!"ParseError"]
        | .invalidData => joinFields [cs!"err", cs!"InvalidData"]
        | .outOfFuel => "fuel")
    | _ => none
  else if op == cs!"path_bearing_final" then
    match args with
    | [d] => some (match finalBearing f32Ops d with
        | some b => joinFields [cs!"ok", natStr b.toBits.toNat, F32.fstr b]
        | none => "err")
    | _ => none
  else none

end Driver
