/-
  Driver.Theme — protocol ops for the theme-builder model (C20, theme part of C06).

  theme_build  <theme> <background> <font_size> <font_family> <local_id or -> <n> class×n <m> element×m
      → ok <#defs> def… style…            (build: pattern classes in sorted order)
  theme_build_unsorted  (same arguments)   (buildUnsorted: pattern classes in the given order)
  auto_style_text <debug> <n> def×n <m> style×m → ok <defs block> <style block>   (Theme.Inject)
  theme_key <rule text> → some <class> | none     (the spec-side `keyOf`)
  theme_urls <text> → url(#id) references…        (the spec-side `urlRefs`)
  an unknown theme name or an unparsable font size gives `err`.
-/
import Driver.Codec
import Svgdx.Theme.Build
import Svgdx.Theme.Inject
namespace Driver
open Svgdx Theme

def themeArgs (args : List Str) : Option (ThemeCfg × List Str × List Str) :=
  match args with
  | theme :: bg :: fsz :: ff :: lid :: n :: rest =>
    match ThemeKind.ofName theme, Num.strp fsz with
    | some k, some fs =>
      let n := Num.digitsToNat n
      let classes := rest.take n
      match rest.drop n with
      | m :: rest2 =>
        let m := Num.digitsToNat m
        if rest2.length == m then
          some ({ theme := k, background := bg, fontSize := fs, fontFamily := ff,
                  localId := if lid == ['-'] then none else some lid }, classes, rest2)
        else none
      | [] => none
    | _, _ => none
  | _ => none

def handleTheme (op : Str) (args : List Str) : Option String :=
  if op == cs!"theme_build" || op == cs!"theme_build_unsorted" then
    match themeArgs args with
    | some (cfg, classes, elements) =>
      let (defs, styles) :=
        if op == cs!"theme_build" then build cfg classes elements else buildUnsorted cfg classes elements
      some (joinFields ([cs!"ok", Str.natToStr defs.length] ++ defs ++ styles))
    | none => some "err"
  else if op == cs!"auto_style_text" then
    -- auto_style_text <debug 0|1> <n> def×n <m> style×m → ok <defs block as written, before the reader pass> <style block as written>
    match args with
    | dbg :: n :: rest =>
      let n := Num.digitsToNat n
      let defs := rest.take n
      match rest.drop n with
      | m :: rest2 =>
        if rest2.length == Num.digitsToNat m then
          let debug := dbg == ['1']
          some (joinFields [cs!"ok",
            (if defs.isEmpty then [] else defsBlock debug defs),
            (if rest2.isEmpty then [] else Xml.write (styleEvents debug rest2))])
        else none
      | [] => none
    | _ => none
  else if op == cs!"theme_key" then
    match args with
    | [r] => some (match keyOf r with
        | some k => joinFields [cs!"some", k]
        | none => "none")
    | _ => none
  else if op == cs!"theme_urls" then
    match args with
    | [r] => some (joinFields (cs!"ok" :: urlRefs r))
    | _ => none
  else none

end Driver
