/-
  Driver.Expr — the `Float32` instance of the expression evaluator and its driver ops (C14).

  `+ − * /`, comparisons, `floor ceil abs sqrt` are the IEEE operations of Lean's `Float32` (bit-for-bit
  the Rust `f32` ones); literals are rounded to nearest-even from their exact decimal value; `%`
  (`rem_euclid`), `div_euclid`, `fstr`, `as usize`, `as i32` go through the exact rational value of the
  bits.  `sin cos tan asin acos atan atan2 exp ln pow hypot` are the C library's (`sinf` …), which is what
  Rust calls too, but libm results are not specified bit-for-bit: the harness compares expressions that
  use them with a tolerance after `fstr`.
-/
import Driver.Codec
import Svgdx.Expr.Eval
import Svgdx.Base.Pcg
namespace Driver
open Svgdx Svgdx.Expr

namespace F32

def pow2 (n : Nat) : Rat := ((2 ^ n : Nat) : Rat)

/-- exact value of a finite `Float32` -/
def toRat (x : Float32) : Rat :=
  let bits := x.toBits.toNat
  let neg := bits / 2147483648 == 1
  let e := (bits / 8388608) % 256
  let frac := bits % 8388608
  let mag : Rat :=
    if e == 0 then (frac : Rat) / pow2 149
    else if e ≥ 150 then ((frac + 8388608 : Nat) : Rat) * pow2 (e - 150)
    else ((frac + 8388608 : Nat) : Rat) / pow2 (150 - e)
  if neg then -mag else mag

def inf : Float32 := Float32.ofBits 0x7F800000
def negInf : Float32 := Float32.ofBits 0xFF800000
def nan : Float32 := Float32.ofBits 0x7FC00000
def negNan : Float32 := Float32.ofBits 0xFFC00000
def negZero : Float32 := Float32.ofBits 0x80000000

/-- floor(log2 q) for q > 0 -/
def ilog2 (q : Rat) : Int :=
  let n := q.num.toNat
  let d := q.den
  let e0 : Int := (Nat.log2 n : Int) - (Nat.log2 d : Int)
  -- 2^e0 may be off by one: fix
  let ge (e : Int) : Bool :=   -- q ≥ 2^e
    if e ≥ 0 then q ≥ pow2 e.toNat else q * pow2 (-e).toNat ≥ 1
  if ge (e0 + 1) then e0 + 1 else if ge e0 then e0 else e0 - 1

/-- round-to-nearest-even conversion of an exact rational to `f32` (`as f32`, literal parsing) -/
def ofRat (q : Rat) : Float32 :=
  if q == 0 then Float32.ofBits 0
  else
    let neg := q < 0
    let a := if neg then -q else q
    let e := ilog2 a
    let signBit : Nat := if neg then 2147483648 else 0
    if e < -126 then
      let m := Num.roundHalfEven (a * pow2 149)
      Float32.ofBits (UInt32.ofNat (signBit + m))
    else
      let sh : Int := e - 23
      let scaled : Rat := if sh ≥ 0 then a / pow2 sh.toNat else a * pow2 (-sh).toNat
      let m := Num.roundHalfEven scaled
      let (m, e) := if m == 16777216 then (8388608, e + 1) else (m, e)
      if e > 127 then (if neg then negInf else inf)
      else Float32.ofBits (UInt32.ofNat (signBit + (e + 127).toNat * 8388608 + (m - 8388608)))

/-- Rust `str::parse::<f32>()` -/
def parse (s : Str) : Option Float32 :=
  let (neg, body) :=
    match s with
    | '-' :: r => (true, r)
    | '+' :: r => (false, r)
    | r => (false, r)
  let lw := body.map Num.lower
  if lw == cs!"inf" || lw == cs!"infinity" then some (if neg then negInf else inf)
  else if lw == cs!"nan" then some nan
  else
    -- a huge exponent is decided without computing 10^e: the value is 0, or overflows / underflows
    let (mant, ex) := Str.breakOn (fun c => c == 'e' || c == 'E') body
    let hugeExp : Option Bool :=   -- some true = huge negative exponent
      let big (ds : Str) : Bool := (ds.dropWhile (· == '0')).length > 4 && ds.all Str.isDigit
      match ex with
      | some (_, '-' :: ds) => if big ds then some true else none
      | some (_, '+' :: ds) => if big ds then some false else none
      | some (_, ds) => if big ds then some false else none
      | none => none
    match hugeExp with
    | some negExp =>
      match Num.parseF32 mant with
      | .num q =>
        if q == 0 || negExp then some (if neg then negZero else Float32.ofBits 0)
        else some (if neg then negInf else inf)
      | _ => none
    | none =>
      match Num.parseF32 s with
      | .num q =>
        if q == 0 && neg then some negZero else some (ofRat q)
      | _ => none

def isNeg (x : Float32) : Bool := x.toBits.toNat ≥ 2147483648

/-- svgdx `fstr` on an `f32` -/
def fstr (x : Float32) : Str :=
  if x.isNaN then cs!"NaN"
  else if x.isInf then (if isNeg x then cs!"-inf" else cs!"inf")
  else if x.abs < ofRat ((1 : Rat) / 10000) then ['0']
  else
    let q := toRat x
    -- `x == (x as i32) as f32`: the cast saturates, and `i32::MAX as f32` rounds up to 2^31, so exactly
    -- 2^31 takes the integer path and is written as `i32::MAX`
    if q == 2147483648 then cs!"2147483647"
    else if Num.isInt q then Str.intToStr q.num
    else Num.trimEndMatches '.' (Num.trimEndMatches '0' (Num.fmt3 q))

def trunc (x : Float32) : Float32 := if isNeg x then x.ceil else x.floor

def ratTrunc (q : Rat) : Int := if q < 0 then q.ceil else q.floor

/-- C `fmodf` / Rust `%` on f32: exact -/
def fmod (a b : Float32) : Float32 :=
  -- NaN results as glibc `fmodf` produces them on x86-64: `(x*y)/(x*y)` propagates a NaN operand
  -- (first `x`, then `y`) and otherwise yields the default (negative) quiet NaN; the sign is visible
  -- to `min`/`max`, which order by `total_cmp`
  if a.isNaN then a
  else if b.isNaN then b
  else if a.isInf || b == 0 then negNan
  else if b.isInf then a
  else
    let qa := toRat a
    let qb := toRat b
    let r := qa - qb * (ratTrunc (qa / qb) : Rat)
    if r == 0 then (if isNeg a then negZero else Float32.ofBits 0) else ofRat r

def remEuclid (a b : Float32) : Float32 :=
  let r := fmod a b
  if r < 0 then r + b.abs else r

def divEuclid (a b : Float32) : Float32 :=
  let q := trunc (a / b)
  if fmod a b < 0 then (if b > 0 then q - 1 else q + 1) else q

def signum (x : Float32) : Float32 :=
  if x.isNaN then nan else if isNeg x then -1 else 1

/-- key that orders bit patterns like `f32::total_cmp` -/
def totalKey (x : Float32) : Nat :=
  let b := x.toBits.toNat
  if b ≥ 2147483648 then 4294967295 - b else b + 2147483648

def toUsize (x : Float32) : Nat :=
  if x.isNaN then 0
  else if isNeg x then 0
  else if x.isInf then 18446744073709551615
  else
    let n := (toRat x).floor.toNat
    if n > 18446744073709551615 then 18446744073709551615 else n

def toI32 (x : Float32) : Int :=
  if x.isNaN then 0
  else if x.isInf then (if isNeg x then -2147483648 else 2147483647)
  else
    let n := ratTrunc (toRat x)
    if n > 2147483647 then 2147483647 else if n < -2147483648 then -2147483648 else n

def pi : Float32 := Float32.ofBits 0x40490FDB
def radsPerDeg : Float32 := pi / 180
def degsPerRad : Float32 := ofRat ((572957795130823208767981548141051703 : Nat) / ((10 ^ 34 : Nat) : Rat))

def hypot (x y : Float32) : Float32 :=
  if x.isInf || y.isInf then inf
  else
    let a := x.toFloat
    let b := y.toFloat
    (Float.sqrt (a * a + b * b)).toFloat32

end F32

def f32Ops : Ops Float32 Pcg.Rng where
  parse := F32.parse
  fstr := F32.fstr
  zero := Float32.ofBits 0
  one := 1
  add := (· + ·)
  sub := (· - ·)
  mul := (· * ·)
  div := (· / ·)
  remEuclid := F32.remEuclid
  divEuclid := F32.divEuclid
  neg := fun x => -x
  lt := fun a b => a < b
  le := fun a b => a ≤ b
  eq := fun a b => a == b
  totalLe := fun a b => F32.totalKey a ≤ F32.totalKey b
  isNaN := Float32.isNaN
  floor := Float32.floor
  ceil := Float32.ceil
  trunc := F32.trunc
  abs := Float32.abs
  signum := F32.signum
  sqrt := Float32.sqrt
  ln := Float32.log
  exp := Float32.exp
  pow := Float32.pow
  sin := Float32.sin
  cos := Float32.cos
  tan := Float32.tan
  asin := Float32.asin
  acos := Float32.acos
  atan := Float32.atan
  atan2 := Float32.atan2
  hypot := F32.hypot
  toRadians := fun x => x * F32.radsPerDeg
  toDegrees := fun x => x * F32.degsPerRad
  toUsize := F32.toUsize
  toI32 := F32.toI32
  ofNat := fun n => F32.ofRat (n : Rat)
  random := fun r =>
    let (k, r') := Pcg.randomF32Num r
    (F32.ofRat ((k : Rat) / F32.pow2 24), r')
  randint := fun lo hi r =>
    let (v, r') := Pcg.randomRangeI32 lo hi r
    (F32.ofRat (v : Rat), r')

/-- element references are outside this driver op: the hook context holds no elements -/
def noElref : Str → Res Float32 := fun v =>
  match extractElref v with
  | some (_, '~' :: sc) =>
    if sc.any Str.isWs then .error .parse
    else match parseScalarSpec sc with
      | some _ => .error .reference
      | none => .error .parse
  | _ => .error .parse

def parseEnv : Nat → List Str → Env × List Str
  | 0, rest => ([], rest)
  | n + 1, k :: v :: rest =>
    let (env, r) := parseEnv n rest
    ((k, v) :: env, r)
  | _ + 1, rest => ([], rest)

def natStr (n : Nat) : Str := Str.natToStr n

def errOut (e : Expr.Err) : String := joinFields [cs!"err", e.name.toList]

def rngOut (r : Pcg.Rng) : List Str := [natStr r.draws, natStr r.calls]

def tokStr (t : Token Float32) : Str :=
  match t with
  | .number x => cs!"Number:" ++ natStr x.toBits.toNat
  | .var v => cs!"Var:" ++ v
  | .elref v => cs!"ElementRef:" ++ v
  | .string s => cs!"String:" ++ s
  | .symbol s => cs!"Symbol:" ++ s
  | .openParen => cs!"OpenParen"
  | .closeParen => cs!"CloseParen"
  | .comma => cs!"Comma"
  | .add => cs!"Add"
  | .sub => cs!"Sub"
  | .mul => cs!"Mul"
  | .div => cs!"Div"
  | .mod => cs!"Mod"

/-- evaluate a sequence of attribute values against one context, threading the random source:
    the order in which a document without forward references evaluates them -/
def evalAttrSeq (env : Env) : List Str → Pcg.Rng → List Str → Res (List Str × Pcg.Rng)
  | [], r, acc => .ok (acc.reverse, r)
  | v :: vs, r, acc =>
    match evalAttr f32Ops env noElref v r with
    | .ok (s, r') => evalAttrSeq env vs r' (s :: acc)
    | .error e => .error e

/-- ops: `tokenize`, `eval_vars`, `eval_attr`, `eval_condition`, `eval_list`, `eval_attr_seq`,
    `f32_parse`, `pcg`; each also under the name `expr_<op>` (which the harness uses, so that an
    equally named op of another handler cannot shadow it) -/
def handleExpr (op0 : Str) (args : List Str) : Option String :=
  let op := match Str.stripPrefix cs!"expr_" op0 with
    | some r => r
    | none => op0
  if op == cs!"tokenize" then
    match args with
    | [s] => some (match tokenize f32Ops s with
        | .ok ts => joinFields (cs!"ok" :: ts.map tokStr)
        | .error e => errOut e)
    | _ => none
  else if op == cs!"eval_vars" then
    match args with
    | n :: rest =>
      match parseEnv (Num.digitsToNat n) rest with
      | (env, [value]) => some (joinFields [cs!"ok", evalVars env value])
      | _ => none
    | _ => none
  else if op == cs!"eval_attr" || op == cs!"eval_condition" || op == cs!"eval_list" ||
      op == cs!"eval_attr_seq" then
    match args with
    | seed :: n :: rest =>
      let rng := Pcg.seedFromU64 (UInt64.ofNat (Num.digitsToNat seed))
      match parseEnv (Num.digitsToNat n) rest with
      | (env, vals) =>
        if op == cs!"eval_attr_seq" then
          some (match evalAttrSeq env vals rng [] with
            | .ok (ss, r) => joinFields ([cs!"ok"] ++ rngOut r ++ ss)
            | .error e => errOut e)
        else
          match vals with
          | [value] =>
            if op == cs!"eval_attr" then
              some (match evalAttr f32Ops env noElref value rng with
                | .ok (s, r) => joinFields ([cs!"ok", s] ++ rngOut r)
                | .error e => errOut e)
            else if op == cs!"eval_condition" then
              some (match evalCondition f32Ops env noElref value rng with
                | .ok (b, r) => joinFields ([cs!"ok", if b then ['1'] else ['0']] ++ rngOut r)
                | .error e => errOut e)
            else
              some (match evalList f32Ops env noElref value rng with
                | .ok (l, r) => joinFields ([cs!"ok"] ++ rngOut r ++ l)
                | .error e => errOut e)
          | _ => none
    | _ => none
  else if op == cs!"f32_parse" then
    match args with
    | [s] => some (match F32.parse s with
        | some x => joinFields [cs!"ok", natStr x.toBits.toNat, F32.fstr x]
        | none => "err")
    | _ => none
  else if op == cs!"pcg" then
    -- pcg <seed> <n> : the first n 32-bit outputs
    match args with
    | [seed, n] =>
      let rec go (k : Nat) (r : Pcg.Rng) (acc : List Str) : List Str :=
        match k with
        | 0 => acc.reverse
        | k + 1 => let (v, r') := Pcg.nextU32 r; go k r' (natStr v.toNat :: acc)
      some (joinFields (go (Num.digitsToNat n) (Pcg.seedFromU64 (UInt64.ofNat (Num.digitsToNat seed))) []))
    | _ => none
  else none

end Driver
