/-
Abstract executable model of the retry loop `process_tags` of svgdx.

Elements whose evaluation fails because an element they refer to is not
resolved yet are queued, and retried in later passes, until either nothing is
pending or a whole pass makes no progress (the `MultiError` of the code).

Core Lean only.
-/
namespace Svgdx.Sched

/-- a pending element: its id, and how to evaluate it against the elements resolved so far -/
structure Item (ι ν : Type) where
  id : ι
  /-- evaluate against the view of the elements resolved so far:
  a value, or `none` = not ready / failing -/
  eval : (ι → Option ν) → Option ν

/-- resolved elements, latest first -/
abbrev Env (ι ν : Type) := List (ι × ν)

variable {ι ν : Type} [DecidableEq ι]

/-- what an element sees of the resolved elements: the latest value registered for an id -/
def view (env : Env ι ν) : ι → Option ν :=
  fun i => (env.find? (fun p => p.1 == i)).map (·.2)

/-- one pass over the pending items, in order; successes extend the environment at once
(so later items of the same pass see them), failures are queued in order -/
def onePass : Env ι ν → List (Item ι ν) → List (Item ι ν) → Env ι ν × List (Item ι ν)
  | env, [], remain => (env, remain.reverse)
  | env, t :: ts, remain =>
    match t.eval (view env) with
    | some v => onePass ((t.id, v) :: env) ts remain
    | none => onePass env ts (t :: remain)

/-- repeat until nothing is pending (`some env`) or a pass makes no progress
(`none`, the MultiError of the code); `none` as well when the fuel runs out
(never the case from `run`, see `fuel_irrelevant`) -/
def retry : Nat → Env ι ν → List (Item ι ν) → Option (Env ι ν)
  | 0, _, _ => none
  | _ + 1, env, [] => some env
  | fuel + 1, env, t :: ts =>
    let r := onePass env (t :: ts) []
    if r.2.length == (t :: ts).length then none else retry fuel r.1 r.2

/-- the whole loop, from the empty environment, with enough fuel -/
def run (items : List (Item ι ν)) : Option (Env ι ν) := retry (items.length + 1) [] items

end Svgdx.Sched
