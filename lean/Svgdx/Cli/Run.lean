/-
  Svgdx.Cli.Run — model of the file protocol of the `svgdx` command: cli.rs `Config::from_args` (refusal
  to write over the input) and lib.rs `transform_file` (transform into a temporary file, copy to the
  output path only after success). The transform itself and path canonicalisation are parameters.
-/
import Svgdx.Base.Str
namespace Svgdx.Cli
open Svgdx

/-- a file system as far as the command is concerned: canonical path ↦ content -/
structure FS where
  files : List (Str × Str) := []
deriving Repr

def lookup (files : List (Str × Str)) (p : Str) : Option Str :=
  match files with
  | [] => none
  | (q, c) :: rest => if q == p then some c else lookup rest p

def FS.read (fs : FS) (p : Str) : Option Str := lookup fs.files p

def FS.write (fs : FS) (p c : Str) : FS := ⟨(p, c) :: fs.files.filter (fun f => f.1 != p)⟩

inductive Exit where
  | ok | err
deriving Repr, DecidableEq

/-- `svgdx <inp> -o <out>`: `canon` = path canonicalisation, `T` = the transform on the input's content -/
def run (canon : Str → Str) (T : Str → Option Str) (fs : FS) (inp out : Str) : FS × Exit :=
  -- Config::from_args: an existing output path that is the input file is refused before anything is read
  if (fs.read (canon out)).isSome && canon out == canon inp then (fs, .err)
  else
    match fs.read (canon inp) with
    | none => (fs, .err)                                -- File::open fails
    | some b =>
      match T b with
      | none => (fs, .err)                              -- the temporary file is dropped; nothing copied
      | some o => (fs.write (canon out) o, .ok)         -- fs::copy(temp, output) after success only

end Svgdx.Cli
