/-
  Svgdx.Proofs.XmlSpec — every output of the writer is accepted by the independent well-formedness recogniser
  `Svgdx.Xml.Spec.wfContent`: the ingredient lemmas (escaping safe, comments delimited, CDATA split, attributes
  unique, tags nested) composed into one statement.
-/
import Svgdx.Xml.Spec
import Svgdx.Proofs.XmlScan
import Svgdx.Proofs.XmlWrite
import Svgdx.Proofs.Balanced
namespace Svgdx.Xml
open Svgdx Str Spec

/-! ## hypotheses on the event list -/

/-- element and attribute names of start / empty events are XML Names (nothing is asked of end events: under
    `Balanced` they repeat the name of a start event) -/
def nameOkEv : Ctl.Ev → Bool
  | .start e => isName e.name && e.attrs.all fun kv => isName kv.1
  | .empty e => isName e.name && e.attrs.all fun kv => isName kv.1
  | _ => true

def NamesOk (evs : List Ctl.Ev) : Prop := evs.all nameOkEv = true

instance (evs : List Ctl.Ev) : Decidable (NamesOk evs) := by unfold NamesOk; infer_instance

/-- the attribute map has unique keys, and no `class` key when the class list is written as well -/
def ElemUnique (e : Elem) : Prop :=
  Attrs.NodupKeys e.attrs ∧ (e.classes ≠ [] → cs!"class" ∉ Attrs.keys e.attrs)

def attrsUniqueEv : Ctl.Ev → Prop
  | .start e => ElemUnique e
  | .empty e => ElemUnique e
  | _ => True

def AttrsUnique (evs : List Ctl.Ev) : Prop := ∀ e ∈ evs, attrsUniqueEv e

/-! ## character classes -/

theorem nameStart_facts {c : Char} (h : isNameStart c = true) :
    c ≠ '>' ∧ c ≠ '/' ∧ c ≠ '!' ∧ c ≠ '<' ∧ isS c = false ∧ isNameChar c = true := by
  refine ⟨?_, ?_, ?_, ?_, ?_, ?_⟩
  · rintro rfl; revert h; decide
  · rintro rfl; revert h; decide
  · rintro rfl; revert h; decide
  · rintro rfl; revert h; decide
  · cases hs : isS c with
    | false => rfl
    | true =>
      simp only [isS, Bool.or_eq_true, beq_iff_eq] at hs
      rcases hs with ((rfl | rfl) | rfl) | rfl <;> (revert h; decide)
  · simp [isNameChar, h]

theorem isName_all {n : Str} (h : isName n = true) : n.all isNameChar = true := by
  cases n with
  | nil => simp [isName] at h
  | cons c r =>
    simp only [isName, Bool.and_eq_true] at h
    simp [(nameStart_facts h.1).2.2.2.2.2, h.2]

theorem takeWhile_stop (p : Char → Bool) (a rest : Str) (ha : a.all p = true)
    (hr : ∀ c r, rest = c :: r → p c = false) :
    (a ++ rest).takeWhile p = a ∧ (a ++ rest).dropWhile p = rest := by
  induction a with
  | nil =>
    cases rest with
    | nil => simp
    | cons c r => simp [hr c r rfl]
  | cons c a ih =>
    simp only [List.all_cons, Bool.and_eq_true] at ha
    have := ih ha.2
    simp [ha.1, this]

theorem takeName_append (n rest : Str) (hn : isName n = true) (hr : ∀ c r, rest = c :: r → isNameChar c = false) :
    takeName (n ++ rest) = some (n, rest) := by
  obtain ⟨h1, h2⟩ := takeWhile_stop isNameChar n rest (isName_all hn) hr
  cases n with
  | nil => simp [isName] at hn
  | cons c r =>
    simp only [isName, Bool.and_eq_true] at hn
    simp only [List.cons_append] at h1 h2 ⊢
    simp only [takeName, hn.1, if_true, h1, h2]

/-! ## escaped values and text -/

theorem refsOk_escape (s : Str) : refsOk (escape s) = true := by
  induction s with
  | nil => rfl
  | cons c cs ih =>
    simp only [escape]
    by_cases h1 : c = '<'
    · subst h1; simp [escChar, refsOk, startsRef, startsWith, stripPrefix, ih]
    by_cases h2 : c = '>'
    · subst h2; simp [escChar, refsOk, startsRef, startsWith, stripPrefix, ih]
    by_cases h3 : c = '&'
    · subst h3; simp [escChar, refsOk, startsRef, startsWith, stripPrefix, ih]
    by_cases h4 : c = '\''
    · subst h4; simp [escChar, refsOk, startsRef, startsWith, stripPrefix, ih]
    by_cases h5 : c = '"'
    · subst h5; simp [escChar, refsOk, startsRef, startsWith, stripPrefix, ih]
    have he : escChar c = [c] := by unfold escChar; split <;> simp_all
    have hb : (c != '&') = true := by simpa using h3
    simp [he, refsOk, hb, ih]

theorem noCDEnd_of_no_gt (s : Str) (h : ∀ c ∈ s, c ≠ '>') : noCDEnd s = true := by
  induction s with
  | nil => rfl
  | cons c r ih =>
    have hs : startsWith cs!"]]>" (c :: r) = false := by
      cases hs : startsWith cs!"]]>" (c :: r) with
      | false => rfl
      | true =>
        obtain ⟨r', hr'⟩ := (startsWith_iff _ _).mp hs
        exact absurd rfl (h '>' (by rw [hr']; simp))
    simp [noCDEnd, hs, ih (fun d hd => h d (by simp [hd]))]

theorem charDataOk_escape (s : Str) : charDataOk (escape s) = true := by
  simp [charDataOk, refsOk_escape, noCDEnd_of_no_gt _ (fun c hc => (escape_safe s c hc).2.1)]

/-! ## tags -/

def attrsText (l : List (Str × Str)) : Str := l.flatMap fun kv => attrText kv.1 kv.2

/-- the attributes as written: the map, then `class` -/
def allAttrs (e : Elem) : List (Str × Str) :=
  e.attrs ++ (if e.classes.isEmpty then [] else [(cs!"class", intercalate [' '] e.classes)])

theorem startContent_eq (e : Elem) : startContent e = e.name ++ attrsText (allAttrs e) := by
  unfold startContent allAttrs attrsText
  split <;> simp

theorem attValue_escape (v rest : Str) : attValue '"' (escape v ++ '"' :: rest) = some rest := by
  have hq : (escape v).all (· != '"') = true := by
    simp only [List.all_eq_true, bne_iff_ne, ne_eq]
    exact fun c hc => (escape_safe v c hc).2.2.1
  obtain ⟨h1, h2⟩ := takeWhile_stop (· != '"') (escape v) ('"' :: rest) hq
    (by intro c r h; injection h with h _; subst h; rfl)
  have hl : (escape v).all (· != '<') = true := by
    simp only [List.all_eq_true, bne_iff_ne, ne_eq]
    exact fun c hc => (escape_safe v c hc).1
  simp only [attValue, h1, h2, hl, refsOk_escape, Bool.and_self, if_true]

theorem attrSpec_attr (k v rest : Str) (hk : isName k = true) :
    attrSpec (k ++ '=' :: '"' :: (escape v ++ '"' :: rest)) = some (k, rest) := by
  have ht := takeName_append k ('=' :: '"' :: (escape v ++ '"' :: rest)) hk
    (by intro c r h; injection h with h _; subst h; decide)
  simp only [attrSpec, ht]
  simp [skipS, isS, stripPrefix, attValue_escape]

theorem tagTail_attrs (l : List (Str × Str)) (hk : ∀ kv ∈ l, isName kv.1 = true) (emp : Bool) (after : Str) :
    ∀ fuel acc, l.length < fuel →
      tagTail fuel (attrsText l ++ ((if emp then cs!"/>" else ['>']) ++ after)) acc =
        some (acc.reverse ++ l.map Prod.fst, emp, after) := by
  induction l with
  | nil =>
    intro fuel acc hf
    obtain ⟨f, rfl⟩ : ∃ f, fuel = f + 1 := ⟨fuel - 1, by simp at hf; omega⟩
    cases emp <;> simp [attrsText, tagTail, skipS, isS, stripPrefix]
  | cons kv l ih =>
    intro fuel acc hf
    obtain ⟨f, rfl⟩ : ∃ f, fuel = f + 1 := ⟨fuel - 1, by simp at hf; omega⟩
    obtain ⟨k, v⟩ := kv
    have hkn : isName k = true := hk (k, v) (by simp)
    have ih' := ih (fun kv hkv => hk kv (by simp [hkv])) f (k :: acc) (by simp at hf; omega)
    cases hkc : k with
    | nil => rw [hkc] at hkn; simp [isName] at hkn
    | cons c kt =>
      have hc : isNameStart c = true := by
        rw [hkc] at hkn; simp only [isName, Bool.and_eq_true] at hkn; exact hkn.1
      obtain ⟨c1, c2, _, _, c5, _⟩ := nameStart_facts hc
      have e1 : ('>' == c) = false := by simpa using fun e => c1 e.symm
      have e2 : ('/' == c) = false := by simpa using fun e => c2 e.symm
      -- the string at hand
      have hs : attrsText ((k, v) :: l) ++ ((if emp then cs!"/>" else ['>']) ++ after) =
          ' ' :: (k ++ '=' :: '"' :: (escape v ++ '"' ::
            (attrsText l ++ ((if emp then cs!"/>" else ['>']) ++ after)))) := by
        simp [attrsText, attrText]
      have hsp : isS ' ' = true := by decide
      have hsk : skipS (' ' :: (k ++ '=' :: '"' :: (escape v ++ '"' ::
            (attrsText l ++ ((if emp then cs!"/>" else ['>']) ++ after))))) =
          k ++ '=' :: '"' :: (escape v ++ '"' ::
            (attrsText l ++ ((if emp then cs!"/>" else ['>']) ++ after))) := by
        rw [hkc]
        simp only [skipS, List.cons_append, List.dropWhile_cons, hsp, c5, if_true, Bool.false_eq_true, if_false]
      have hp1 : stripPrefix ['>'] (k ++ '=' :: '"' :: (escape v ++ '"' ::
            (attrsText l ++ ((if emp then cs!"/>" else ['>']) ++ after)))) = none := by
        rw [hkc]; simp [stripPrefix, e1]
      have hp2 : stripPrefix cs!"/>" (k ++ '=' :: '"' :: (escape v ++ '"' ::
            (attrsText l ++ ((if emp then cs!"/>" else ['>']) ++ after)))) = none := by
        rw [hkc]; simp [stripPrefix, e2]
      rw [← hkc, hs, tagTail]
      simp only [hsk, hp1, hp2, startsS, hsp, if_true, attrSpec_attr k v _ hkn, ih']
      simp

theorem distinct_iff (l : List Str) : distinct l = true ↔ l.Nodup := by
  induction l with
  | nil => simp [distinct]
  | cons x r ih => simp [distinct, ih]

theorem allAttrs_distinct (e : Elem) (h : ElemUnique e) : distinct ((allAttrs e).map Prod.fst) = true := by
  rw [distinct_iff]
  obtain ⟨h1, h2⟩ := h
  unfold allAttrs
  split
  · simpa [Attrs.NodupKeys, Attrs.keys] using h1
  · rename_i hc
    have hne : e.classes ≠ [] := by simpa using hc
    have := h2 hne
    simp only [List.map_append, List.map_cons, List.map_nil]
    rw [List.nodup_append]
    refine ⟨h1, by simp, ?_⟩
    intro a ha b hb
    simp only [List.mem_singleton] at hb
    subst hb
    rintro rfl
    exact this ha

theorem allAttrs_names (e : Elem) (h : e.attrs.all (fun kv => isName kv.1) = true) :
    ∀ kv ∈ allAttrs e, isName kv.1 = true := by
  intro kv hkv
  unfold allAttrs at hkv
  simp only [List.mem_append] at hkv
  rcases hkv with h1 | h1
  · exact (List.all_eq_true.mp h) kv h1
  · split at h1
    · cases h1
    · simp only [List.mem_singleton] at h1
      subst h1; show isName cs!"class" = true; decide

/-! ## comments and CDATA sections -/

theorem commentEnd_ok (c after : Str) (h1 : NoDD c) (h2 : c.getLast? ≠ some '-') :
    commentEnd (c ++ '-' :: '-' :: '>' :: after) = some after := by
  induction c with
  | nil => simp [commentEnd, startsWith, stripPrefix]
  | cons x c ih =>
    have hs : startsWith cs!"--" (x :: (c ++ '-' :: '-' :: '>' :: after)) = false := by
      by_cases hx : x = '-'
      · subst hx
        cases c with
        | nil => simp at h2
        | cons y c' =>
          have hy := noDD_head y c' h1
          have : ('-' == y) = false := by simpa using fun e => hy e.symm
          simp [startsWith, stripPrefix, this]
      · have : ('-' == x) = false := by simpa using fun e => hx e.symm
        simp [startsWith, stripPrefix, this]
    have h2' : c.getLast? ≠ some '-' := by
      cases c with
      | nil => simp
      | cons y c' => simpa [List.getLast?_cons_cons] using h2
    rw [List.cons_append, commentEnd, hs]
    exact ih (noDD_tail x c h1) h2'

theorem firstAt_tail (pat : Str) (x : Char) (a b : Str) (h : FirstAt pat (x :: a) b) : FirstAt pat a b :=
  fun u v huv hv => h (x :: u) v (by simp [huv]) hv

theorem cdataEnd_ok (p after : Str) (h : FirstAt cs!"]]>" p after) :
    cdataEnd (p ++ ']' :: ']' :: '>' :: after) = some after := by
  induction p with
  | nil => simp [cdataEnd, stripPrefix]
  | cons x p ih =>
    have h0 := h [] (x :: p) rfl (by simp)
    have hn : stripPrefix cs!"]]>" (x :: (p ++ ']' :: ']' :: '>' :: after)) = none := by
      cases hs : stripPrefix cs!"]]>" (x :: (p ++ ']' :: ']' :: '>' :: after)) with
      | none => rfl
      | some r =>
        have : startsWith cs!"]]>" (x :: p ++ (cs!"]]>" ++ after)) = true := by
          simp only [startsWith, List.cons_append, List.nil_append, hs, Option.isSome_some]
        rw [this] at h0; cases h0
    rw [List.cons_append, cdataEnd, hn]
    exact ih (firstAt_tail _ x p after h)

/-! ## one construct at a time -/

/-- accepted with every sufficient fuel -/
def Acc (stk : List Str) (s : Str) : Prop := ∀ f, s.length < f → content f stk s = true

theorem acc_nil : Acc [] [] := by
  intro f hf
  obtain ⟨k, rfl⟩ : ∃ k, f = k + 1 := ⟨f - 1, by omega⟩
  simp [content]

theorem acc_text (stk : List Str) (t rest : Str) (hne : t ≠ []) (ht : ∀ c ∈ t, c ≠ '<') (hc : charDataOk t = true)
    (hr : StartsLt rest) (h : Acc stk rest) : Acc stk (t ++ rest) := by
  intro f hf
  obtain ⟨k, rfl⟩ : ∃ k, f = k + 1 := ⟨f - 1, by omega⟩
  obtain ⟨h1, h2⟩ := takeWhile_lt t rest ht hr
  cases t with
  | nil => exact absurd rfl hne
  | cons c t' =>
    have hcl : (c != '<') = true := by simpa using ht c (by simp)
    simp only [List.cons_append] at h1 h2 hf ⊢
    simp only [content, hcl, if_true, h1, h2, hc, Bool.true_and]
    exact h k (by simp at hf; omega)

theorem acc_comment (stk : List Str) (c rest : Str) (h1 : NoDD c) (h2 : c.getLast? ≠ some '-') (h : Acc stk rest) :
    Acc stk (cs!"<!--" ++ c ++ cs!"-->" ++ rest) := by
  intro f hf
  obtain ⟨k, rfl⟩ : ∃ k, f = k + 1 := ⟨f - 1, by omega⟩
  have he := commentEnd_ok c rest h1 h2
  simp only [List.cons_append, List.nil_append, List.append_assoc] at he hf ⊢
  simp only [content, stripPrefix]
  simp only [bne_self_eq_false, Bool.false_eq_true, if_false, beq_self_eq_true, if_true, he]
  exact h k (by simp at hf; omega)

theorem acc_cdata (stk : List Str) (p rest : Str) (hp : NoCE p) (h : Acc stk rest) :
    Acc stk (cs!"<![CDATA[" ++ p ++ cs!"]]>" ++ rest) := by
  intro f hf
  obtain ⟨k, rfl⟩ : ∃ k, f = k + 1 := ⟨f - 1, by omega⟩
  have he := cdataEnd_ok p rest (firstAt_cdata p rest hp)
  simp only [List.cons_append, List.nil_append, List.append_assoc] at he hf ⊢
  simp only [content, stripPrefix]
  simp [he]
  exact h k (by simp at hf; omega)

theorem acc_end (stk : List Str) (n rest : Str) (hn : isName n = true) (h : Acc stk rest) :
    Acc (n :: stk) (cs!"</" ++ n ++ ['>'] ++ rest) := by
  intro f hf
  obtain ⟨k, rfl⟩ : ∃ k, f = k + 1 := ⟨f - 1, by omega⟩
  have ht := takeName_append n ('>' :: rest) hn (by intro c r h; injection h with h _; subst h; decide)
  simp only [List.cons_append, List.nil_append, List.append_assoc] at hf ⊢
  simp only [content, stripPrefix]
  simp [ht, skipS, isS, stripPrefix]
  exact h k (by simp at hf; omega)

theorem acc_tag (stk : List Str) (e : Elem) (emp : Bool) (rest : Str) (hn : isName e.name = true)
    (hk : e.attrs.all (fun kv => isName kv.1) = true) (hu : ElemUnique e)
    (h : Acc (if emp then stk else e.name :: stk) rest) :
    Acc stk (['<'] ++ startContent e ++ (if emp then cs!"/>" else ['>']) ++ rest) := by
  intro f hf
  obtain ⟨k, rfl⟩ : ∃ k, f = k + 1 := ⟨f - 1, by omega⟩
  rw [startContent_eq] at hf ⊢
  -- what follows the name is a blank, `>` or `/`
  have hfollow : ∀ c r, attrsText (allAttrs e) ++ ((if emp then cs!"/>" else ['>']) ++ rest) = c :: r →
      isNameChar c = false := by
    intro c r hcr
    cases ha : allAttrs e with
    | nil =>
      rw [ha] at hcr
      cases emp <;> (simp [attrsText] at hcr; rw [← hcr.1]; decide)
    | cons kv l =>
      rw [ha] at hcr
      simp [attrsText, attrText] at hcr
      rw [← hcr.1]; decide
  have ht := takeName_append e.name _ hn hfollow
  have htt := tagTail_attrs (allAttrs e) (allAttrs_names e hk) emp rest
    ((attrsText (allAttrs e) ++ ((if emp then cs!"/>" else ['>']) ++ rest)).length + 1) [] (by
      have : (allAttrs e).length ≤ (attrsText (allAttrs e)).length := by
        generalize allAttrs e = l
        induction l with
        | nil => simp
        | cons kv l ih => simp [attrsText, attrText] at ih ⊢; omega
      simp only [List.length_append]; omega)
  cases hnm : e.name with
  | nil => rw [hnm] at hn; simp [isName] at hn
  | cons c nt =>
    have hc : isNameStart c = true := by
      rw [hnm] at hn; simp only [isName, Bool.and_eq_true] at hn; exact hn.1
    obtain ⟨_, c2, c3, _, _, _⟩ := nameStart_facts hc
    have e2 : ('/' == c) = false := by simpa using fun e => c2 e.symm
    have e3 : ('!' == c) = false := by simpa using fun e => c3 e.symm
    rw [hnm] at ht
    simp only [List.cons_append, List.nil_append, List.append_assoc] at ht hf ⊢
    simp only [content, stripPrefix, e2, e3]
    simp only [bne_self_eq_false, Bool.false_eq_true, if_false, ht, htt, List.reverse_nil, List.nil_append,
      allAttrs_distinct e hu, Bool.true_and]
    rw [← hnm]
    exact h k (by simp at hf; omega)

/-! ## the whole event list -/

theorem check_coalesce (evs : List Ctl.Ev) : ∀ stk, Ctl.check stk (coalesce evs) = Ctl.check stk evs := by
  fun_induction coalesce evs with
  | case1 a b rest ih => intro stk; rw [ih]; simp [Ctl.check]
  | case2 e rest hne ih =>
    intro stk
    cases e with
    | end_ n => cases stk <;> simp [Ctl.check, ih]
    | _ => simp [Ctl.check, ih]
  | case3 => intro stk; rfl

theorem noAdjText_tail {e : Ctl.Ev} {l : List Ctl.Ev} (h : NoAdjText (e :: l)) : NoAdjText l := by
  cases l with
  | nil => trivial
  | cons b r => exact h.2

theorem noAdjText_head {t : Str} {l : List Ctl.Ev} (h : NoAdjText (.text t :: l)) :
    ∀ e, l.head? = some e → isTextEv e = false := by
  intro e he
  cases l with
  | nil => simp at he
  | cons b r =>
    simp only [List.head?_cons, Option.some.injEq] at he
    subst he
    cases hb : isTextEv b with
    | false => rfl
    | true => exact absurd ⟨rfl, hb⟩ h.1

theorem acc_events (l : List Ctl.Ev) (hn : ∀ e ∈ l, nameOkEv e = true) (hu : ∀ e ∈ l, attrsUniqueEv e)
    (ha : NoAdjText l) : ∀ stk, (∀ n ∈ stk, isName n = true) → Ctl.check stk l = some [] →
      Acc stk (l.flatMap renderEv) := by
  induction l with
  | nil =>
    intro stk _ hc
    simp only [Ctl.check, Option.some.injEq] at hc
    subst hc; exact acc_nil
  | cons e l ih =>
    intro stk hstk hc
    have ih' := ih (fun x hx => hn x (by simp [hx])) (fun x hx => hu x (by simp [hx])) (noAdjText_tail ha)
    have hne := hn e (by simp)
    have hue := hu e (by simp)
    simp only [List.flatMap_cons]
    cases e with
    | start el =>
      simp only [nameOkEv, Bool.and_eq_true] at hne
      simp only [Ctl.check] at hc
      have := acc_tag stk el false (l.flatMap renderEv) hne.1 hne.2 hue
        (ih' (el.name :: stk) (by intro n hm; simp only [List.mem_cons] at hm; rcases hm with rfl | hm
                                  · exact hne.1
                                  · exact hstk n hm) hc)
      simpa [renderEv] using this
    | empty el =>
      simp only [nameOkEv, Bool.and_eq_true] at hne
      simp only [Ctl.check] at hc
      have := acc_tag stk el true (l.flatMap renderEv) hne.1 hne.2 hue (ih' stk hstk hc)
      simpa [renderEv] using this
    | end_ n =>
      cases stk with
      | nil => simp [Ctl.check] at hc
      | cons top stk' =>
        simp only [Ctl.check] at hc
        split at hc
        · rename_i heq
          subst heq
          have := acc_end stk' top (l.flatMap renderEv) (hstk top (by simp))
            (ih' stk' (fun n hm => hstk n (by simp [hm])) hc)
          simpa [renderEv] using this
        · cases hc
    | comment c =>
      simp only [Ctl.check] at hc
      have := acc_comment stk (commentSafe c) (l.flatMap renderEv) (commentSafe_ok c).1 (commentSafe_ok c).2
        (ih' stk hstk hc)
      simpa [renderEv] using this
    | cdata c =>
      simp only [Ctl.check] at hc
      have hp := cdataSplit_noCE c
      simp only [renderEv]
      generalize cdataSplit c = parts at hp
      induction parts with
      | nil => exact ih' stk hstk hc
      | cons p ps ihp =>
        have := acc_cdata stk p (ps.flatMap (fun part => cs!"<![CDATA[" ++ part ++ cs!"]]>") ++ l.flatMap renderEv)
          (hp p (by simp)) (ihp fun q hq => hp q (by simp [hq]))
        simpa using this
    | text t =>
      simp only [Ctl.check] at hc
      by_cases hempty : escape (blankLineRemover t) = []
      · simp only [renderEv, hempty, List.nil_append]
        exact ih' stk hstk hc
      · exact acc_text stk _ _ hempty (fun c hc => (escape_safe _ c hc).1) (charDataOk_escape _)
          (startsLt_flatMap l (noAdjText_head ha)) (ih' stk hstk hc)

/-- **every output of the writer is well-formed XML content** — for every balanced event list whose element and
    attribute names are XML Names and whose attribute maps have unique keys (no `class` key beside a class list);
    nothing is assumed about attribute values, text, comments or CDATA text -/
theorem write_wellformed (evs : List Ctl.Ev) (hb : Ctl.Balanced evs) (hn : NamesOk evs) (hu : AttrsUnique evs) :
    Spec.wfContent (write evs) = true := by
  have hn' : ∀ e ∈ coalesce evs, nameOkEv e = true := by
    intro e he
    rcases coalesce_mem evs e he with ht | hm
    · cases e <;> simp_all [isTextEv, nameOkEv]
    · exact (List.all_eq_true.mp hn) e hm
  have hu' : ∀ e ∈ coalesce evs, attrsUniqueEv e := by
    intro e he
    rcases coalesce_mem evs e he with ht | hm
    · cases e <;> simp_all [isTextEv, attrsUniqueEv]
    · exact hu e hm
  have hc : Ctl.check [] (coalesce evs) = some [] := by rw [check_coalesce]; exact hb.sound
  have := acc_events (coalesce evs) hn' hu' (coalesce_noAdjText evs) [] (by simp) hc
  rw [wfContent, write_eq]
  exact this _ (by omega)

/-! ## the `Char` production and the writer's guard -/

theorem char_eq_iff_toNat (c d : Char) : c = d ↔ c.toNat = d.toNat := by
  constructor
  · rintro rfl; rfl
  · intro h
    apply Char.ext
    exact UInt32.toNat_inj.mp h

/-- **the writer's guard `xmlChar` is exactly the `Char` production of XML 1.0** on Lean characters (Unicode scalar
    values: the surrogates, which `Char` excludes as well, cannot occur in a `Char`) -/
theorem isChar_eq_xmlChar (c : Char) : Spec.isChar c = xmlChar c := by
  have hv : c.toNat < 0xd800 ∨ (0xdfff < c.toNat ∧ c.toNat < 0x110000) := c.valid
  have h9 : (c = '\t') ↔ c.toNat = 9 := char_eq_iff_toNat c '\t'
  have h10 : (c = '\n') ↔ c.toNat = 10 := char_eq_iff_toNat c '\n'
  have h13 : (c = '\r') ↔ c.toNat = 13 := char_eq_iff_toNat c '\r'
  rw [Bool.eq_iff_iff]
  simp only [Spec.isChar, xmlChar, Bool.or_eq_true, Bool.and_eq_true, beq_iff_eq, decide_eq_true_eq, ne_eq,
    Bool.not_eq_true', Bool.or_eq_false_iff, Bool.and_eq_false_iff, decide_eq_false_iff_not, bne_eq_false_iff_eq,
    beq_eq_false_iff_ne, h9, h10, h13]
  generalize c.toNat = n at hv
  omega

/-- **every successful write is STRICTLY well-formed**: `writeChecked` yields the text only if all its characters
    are XML characters, and then the text is `write evs`, which is well-formed content -/
theorem writeChecked_wellformed_strict (evs : List Ctl.Ev) (out : Str) (hw : writeChecked evs = some out)
    (hb : Ctl.Balanced evs) (hn : NamesOk evs) (hu : AttrsUnique evs) : Spec.wfContentStrict out = true := by
  unfold writeChecked at hw
  dsimp only at hw
  split at hw
  · rename_i hall
    cases hw
    have hc : (write evs).all Spec.isChar = true := by
      rw [List.all_eq_true] at hall ⊢
      intro c hc; rw [isChar_eq_xmlChar]; exact hall c hc
    simp [Spec.wfContentStrict, hc, write_wellformed evs hb hn hu]
  · cases hw

theorem writeChecked_eq (evs : List Ctl.Ev) (out : Str) (hw : writeChecked evs = some out) : out = write evs := by
  unfold writeChecked at hw
  dsimp only at hw
  split at hw
  · cases hw; rfl
  · cases hw

end Svgdx.Xml
