/-
  Svgdx.Proofs.CtlInv — the state-restoration invariant of the control skeleton, for EVERY outcome
  (success, error, limit exceeded, out of fuel), by induction on fuel over the whole mutual block.
-/
import Svgdx.Ctl.Gen
import Svgdx.Proofs.DefaultsState
import Mathlib.Tactic.Linarith
namespace Svgdx.Ctl
open Svgdx

variable {ρ : Type}

/-- what `generate_events` must leave as it found it: the depth counter, every enclosing variable scope
    (all but the innermost, which `<var>` may update), the element stack and the in-specs flag -/
def Inv (a b : St ρ) : Prop :=
  b.depth = a.depth ∧ b.scopes.tail = a.scopes.tail ∧ b.scopes ≠ [] ∧ b.elemStack = a.elemStack ∧
  b.inSpecs = a.inSpecs

theorem Inv.refl (a : St ρ) (h : a.scopes ≠ []) : Inv a a := ⟨rfl, rfl, h, rfl, rfl⟩

theorem Inv.trans {a b c : St ρ} (h1 : Inv a b) (h2 : Inv b c) : Inv a c :=
  ⟨h2.1.trans h1.1, h2.2.1.trans h1.2.1, h2.2.2.1, h2.2.2.2.1.trans h1.2.2.2.1, h2.2.2.2.2.trans h1.2.2.2.2⟩

theorem inv_setVar (a : St ρ) (k v : Str) (h : a.scopes ≠ []) : Inv a (a.setVar k v) := by
  unfold St.setVar
  cases hs : a.scopes with
  | nil => exact absurd hs h
  | cons s rest => simp [Inv, hs]

theorem inv_foldl_setVar (vars : List (Str × Str)) (a : St ρ) (h : a.scopes ≠ []) :
    Inv a (vars.foldl (fun s kv => s.setVar kv.1 kv.2) a) := by
  induction vars generalizing a with
  | nil => exact Inv.refl a h
  | cons x xs ih =>
    simp only [List.foldl_cons]
    have h1 := inv_setVar a x.1 x.2 h
    exact h1.trans (ih _ h1.2.2.1)

theorem inv_updateElement (ev : Evalr ρ) (a : St ρ) (e : Elem) (h : a.scopes ≠ []) :
    Inv a (updateElement ev a e) := by
  unfold updateElement
  split <;> simp [Inv, h]

theorem inv_registerOriginal (ev : Evalr ρ) (a : St ρ) (e : Elem) (k : Option Nodes) (h : a.scopes ≠ []) :
    Inv a (registerOriginal ev a e k) := by
  unfold registerOriginal
  split <;> simp [Inv, h]

theorem inv_setPrev (a : St ρ) (e : Elem) (h : a.scopes ≠ []) : Inv a (setPrev a e) := by
  simp [Inv, setPrev, h]

/-- states that differ only in fields the invariant does not mention -/
theorem inv_of_fields (a b : St ρ) (h : a.scopes ≠ []) (h1 : b.depth = a.depth) (h2 : b.scopes = a.scopes)
    (h3 : b.elemStack = a.elemStack) (h4 : b.inSpecs = a.inSpecs) : Inv a b :=
  ⟨h1, by rw [h2], by rw [h2]; exact h, h3, h4⟩

theorem inv_right {a b c : St ρ} (h : Inv a b) (h1 : c.depth = b.depth) (h2 : c.scopes = b.scopes)
    (h3 : c.elemStack = b.elemStack) (h4 : c.inSpecs = b.inSpecs) : Inv a c :=
  ⟨h1.trans h.1, by rw [h2]; exact h.2.1, by rw [h2]; exact h.2.2.1, h3.trans h.2.2.2.1, h4.trans h.2.2.2.2⟩

theorem inv_left {a a' b : St ρ} (h : Inv a' b) (h1 : a'.depth = a.depth) (h2 : a'.scopes = a.scopes)
    (h3 : a'.elemStack = a.elemStack) (h4 : a'.inSpecs = a.inSpecs) : Inv a b :=
  ⟨h.1.trans h1, by rw [← h2]; exact h.2.1, h.2.2.1, h.2.2.2.1.trans h3, h.2.2.2.2.trans h4⟩

/-- sequencing preserves the invariant: whatever happens, the state handed on satisfies it -/
theorem inv_seq {α β : Type} {a : St ρ} (x : St ρ × Except CErr α) (f : St ρ → α → St ρ × Except CErr β)
    (hx : Inv a x.1) (hf : x.1.scopes ≠ [] → ∀ v, Inv x.1 (f x.1 v).1) : Inv a (seq x f).1 := by
  unfold seq
  split
  · exact hx
  · exact hx.trans (hf hx.2.2.1 _)

theorem inv_withRng {α : Type} (st : St ρ) (r : Except Err (α × ρ)) (h : st.scopes ≠ []) :
    Inv st (withRng st r).1 := by
  unfold withRng
  split
  · exact inv_of_fields _ _ h rfl rfl rfl rfl
  · exact Inv.refl st h

theorem inv_genVar (ev : Evalr ρ) (st : St ρ) (e : Elem) (h : st.scopes ≠ []) :
    Inv st (genVar ev st e).1 := by
  unfold genVar
  dsimp only
  split
  · exact Inv.refl st h
  · rename_i newVars rng _
    have h0 : Inv st { st with rng := rng } := inv_of_fields _ _ h rfl rfl rfl rfl
    exact h0.trans (inv_foldl_setVar newVars _ h)

theorem inv_elementEvents (ev : Evalr ρ) (st : St ρ) (e : Elem) (h : st.scopes ≠ []) :
    Inv st (elementEvents ev st e).1 := by
  unfold elementEvents
  apply inv_seq
  · unfold commentEvents
    split
    · split
      · exact inv_of_fields _ _ h rfl rfl rfl rfl
      · exact Inv.refl st h
    · exact Inv.refl st h
  · intro h1 evs1
    exact Inv.refl _ h1

theorem inv_genOther (ev : Evalr ρ) (st : St ρ) (e : Elem) (h : st.scopes ≠ []) :
    Inv st (genOther ev st e).1 := by
  unfold genOther
  apply inv_seq _ _ (inv_withRng st _ h)
  intro h1 e'
  dsimp only
  have h2 := inv_updateElement ev (withRng st (otherPipeline ev st e)).1 e' h1
  split
  · exact h2
  · apply inv_seq
    · have h3 : Inv (updateElement ev (withRng st (otherPipeline ev st e)).1 e')
          (if (‹Option Gen.BoundingBox›).isSome then setPrev (updateElement ev (withRng st (otherPipeline ev st e)).1 e') e'
           else updateElement ev (withRng st (otherPipeline ev st e)).1 e') := by
        split
        · exact inv_setPrev _ _ h2.2.2.1
        · exact Inv.refl _ h2.2.2.1
      exact h2.trans (h3.trans (inv_elementEvents ev _ e' h3.2.2.1))
    · intro h4 evs
      exact Inv.refl _ h4

theorem inv_finishContainer (ev : Evalr ρ) (st : St ρ) ne bb (h : st.scopes ≠ []) :
    Inv st (finishContainer ev st ne bb) := by
  unfold finishContainer
  dsimp only
  have h0 : Inv st (if bb.isSome || notRenderedInPlace ne.name then updateElement ev st { ne with contentBBox := bb } else st) := by
    split
    · exact inv_updateElement ev st _ h
    · exact Inv.refl st h
  split
  · exact h0.trans (inv_setPrev _ _ h0.2.2.1)
  · exact h0

theorem inv_preTest (ev : Evalr ρ) (st : St ρ) c w i (h : st.scopes ≠ []) : Inv st (preTest ev st c w i).1 := by
  unfold preTest
  split
  · exact Inv.refl st h
  · exact inv_withRng st _ h
  · exact Inv.refl st h

theorem inv_postTest (ev : Evalr ρ) (st : St ρ) u (h : st.scopes ≠ []) : Inv st (postTest ev st u).1 := by
  unfold postTest
  split
  · exact inv_withRng st _ h
  · exact Inv.refl st h

theorem inv_bindLoopVar (st : St ρ) n v (h : st.scopes ≠ []) : Inv st (bindLoopVar st n v) := by
  unfold bindLoopVar
  split
  · exact Inv.refl st h
  · exact inv_setVar st _ _ h

theorem inv_bindForVars (st : St ρ) v iv item idx (h : st.scopes ≠ []) : Inv st (bindForVars st v iv item idx) := by
  unfold bindForVars
  have h1 := inv_setVar st v item h
  dsimp only
  split
  · exact h1.trans (inv_setVar _ _ _ h1.2.2.1)
  · exact h1

theorem inv_registerEarly (ev : Evalr ρ) (st : St ρ) n (h : st.scopes ≠ []) : Inv st (registerEarly ev st n) := by
  unfold registerEarly
  split
  · exact inv_registerOriginal ev st _ _ h
  · exact Inv.refl st h

/-- push … pop restores the whole scope stack and element stack -/
theorem inv_push_pop {a b : St ρ} (e : Elem) (h : Inv (a.pushElement e) b) (ha : a.scopes ≠ []) :
    Inv a b.popElement ∧ b.popElement.scopes = a.scopes := by
  obtain ⟨h1, h2, h3, h4, h5⟩ := h
  simp only [St.pushElement, List.tail_cons] at h1 h2 h4 h5
  have hs : b.scopes.drop 1 = a.scopes := by rw [List.drop_one]; exact h2
  have he : b.elemStack.drop 1 = a.elemStack := by rw [h4]; rfl
  refine ⟨⟨h1, ?_, ?_, ?_, h5⟩, ?_⟩ <;> simp only [St.popElement, hs, he] <;> first | rfl | exact ha

theorem inv_groupFinish (ev : Evalr ρ) (st : St ρ) e r (h : st.scopes ≠ []) :
    Inv st (groupFinish ev st e r).1 := by
  unfold groupFinish
  dsimp only
  have hu := inv_updateElement ev st { e with contentBBox := r.2 } h
  have hsp := hu.trans (inv_setPrev _ { e with contentBBox := r.2 } hu.2.2.1)
  have hst : Inv st (if r.2.isSome then setPrev (updateElement ev st { e with contentBBox := r.2 }) { e with contentBBox := r.2 }
      else updateElement ev st { e with contentBBox := r.2 }) := by
    split
    · exact hsp
    · exact hu
  split
  · exact hst
  · split <;> exact hst

theorem inv_clipPost (ev : Evalr ρ) (e : Elem) (x : St ρ × Res) (h : x.1.scopes ≠ []) :
    Inv x.1 (clipPost ev e x).1 := by
  unfold clipPost
  split
  · split
    · split
      · exact Inv.refl _ h
      · split
        · split
          · exact Inv.refl _ h
          · exact inv_updateElement ev _ _ h
          · exact Inv.refl _ h
        · exact Inv.refl _ h
    · exact Inv.refl _ h
  · exact Inv.refl _ h

theorem inv_updateIf (ev : Evalr ρ) (st : St ρ) (re : Elem) (b : Bool) (h : st.scopes ≠ []) :
    Inv st (if b then updateElement ev st re else st) := by
  split
  · exact inv_updateElement ev st re h
  · exact Inv.refl st h

theorem inv_reusePrepare (ev : Evalr ρ) (st : St ρ) (re : Elem) (h : st.scopes ≠ []) :
    Inv st (reusePrepare ev st re).1 := by
  unfold reusePrepare
  split
  · exact Inv.refl st h
  · split
    · exact Inv.refl st h
    · exact inv_of_fields _ _ h rfl rfl rfl rfl
    · split
      · exact Inv.refl st h
      · apply inv_seq _ _ (inv_withRng st _ h)
        intro h1 inst1
        split
        · exact Inv.refl _ h1
        · dsimp only
          split
          · exact Inv.refl _ h1
          · exact inv_updateIf ev _ _ _ h1

theorem inv_genDefaults (st : St ρ) (kids : Option Nodes) (h : st.scopes ≠ []) :
    Inv st (genDefaults st kids).1 :=
  have d := defStep_genDefaults st kids
  ⟨d.depth, d.tail, d.ne h, d.elemStack, d.inSpecs⟩

/-- the invariant for every function of the mutual block at a given fuel -/
structure AllInv (ev : Evalr ρ) (fuel : Nat) : Prop where
  genElem : ∀ (st : St ρ) e kids, st.scopes ≠ [] → Inv st (genElem ev fuel st e kids).1
  dispatch : ∀ (st : St ρ) e kids, st.scopes ≠ [] → Inv st (dispatch ev fuel st e kids).1
  genSpecs : ∀ (st : St ρ) kids, st.scopes ≠ [] → Inv st (genSpecs ev fuel st kids).1
  genReuse : ∀ (st : St ρ) e, st.scopes ≠ [] → Inv st (genReuse ev fuel st e).1
  genIf : ∀ (st : St ρ) e kids, st.scopes ≠ [] → Inv st (genIf ev fuel st e kids).1
  genContainer : ∀ (st : St ρ) e ks, st.scopes ≠ [] → Inv st (genContainer ev fuel st e ks).1
  genGroup : ∀ (st : St ρ) e kids, st.scopes ≠ [] → Inv st (genGroup ev fuel st e kids).1
  genLoop : ∀ (st : St ρ) e kids, st.scopes ≠ [] → Inv st (genLoop ev fuel st e kids).1
  loopIter : ∀ (st : St ρ) ks c w u n v s i acc bb, st.scopes ≠ [] →
    Inv st (loopIter ev fuel st ks c w u n v s i acc bb).1
  genFor : ∀ (st : St ρ) e kids, st.scopes ≠ [] → Inv st (genFor ev fuel st e kids).1
  forIter : ∀ (st : St ρ) ks v iv items idx acc bb, st.scopes ≠ [] →
    Inv st (forIter ev fuel st ks v iv items idx acc bb).1
  genNode : ∀ (st : St ρ) n, st.scopes ≠ [] → Inv st (genNode ev fuel st n).1
  onePass : ∀ (st : St ρ) ts outs bb rem, st.scopes ≠ [] → Inv st (onePass ev fuel st ts outs bb rem).1
  retry : ∀ (st : St ρ) ts outs bb, st.scopes ≠ [] → Inv st (retry ev fuel st ts outs bb).1
  processNodes : ∀ (st : St ρ) ks, st.scopes ≠ [] → Inv st (processNodes ev fuel st ks).1

theorem allInv_zero (ev : Evalr ρ) : AllInv ev 0 := by
  constructor <;> intros <;> simp only [Ctl.genElem, Ctl.dispatch, Ctl.genSpecs, Ctl.genReuse, Ctl.genIf, Ctl.genContainer,
    Ctl.genGroup, Ctl.genLoop, Ctl.loopIter, Ctl.genFor, Ctl.forIter, Ctl.genNode, Ctl.onePass, Ctl.retry,
    Ctl.processNodes] <;> exact Inv.refl _ ‹_›

section step
variable (ev : Evalr ρ) (fuel : Nat) (ih : AllInv ev fuel)
include ih

theorem genElem_step (st : St ρ) e kids (h : st.scopes ≠ []) :
    Inv st (Ctl.genElem ev (fuel + 1) st e kids).1 := by
  unfold Ctl.genElem
  split
  · exact Inv.refl st h
  · dsimp only
    have hd := ih.dispatch { st with depth := st.depth + 1 } e kids h
    have h0 : Inv st { (Ctl.dispatch ev fuel { st with depth := st.depth + 1 } e kids).1 with
        depth := (Ctl.dispatch ev fuel { st with depth := st.depth + 1 } e kids).1.depth - 1 } := by
      refine ⟨?_, hd.2.1, hd.2.2.1, hd.2.2.2.1, hd.2.2.2.2⟩
      have := hd.1
      simp only at this ⊢
      omega
    exact h0.trans (inv_clipPost ev e _ h0.2.2.1)

theorem dispatch_step (st : St ρ) e kids (h : st.scopes ≠ []) :
    Inv st (Ctl.dispatch ev (fuel + 1) st e kids).1 := by
  unfold Ctl.dispatch
  dsimp only
  split; · exact ih.genLoop st e kids h
  split
  · split
    · exact inv_of_fields _ _ h rfl rfl rfl rfl
    · exact Inv.refl st h
  split; · exact ih.genReuse st e h
  split; · exact ih.genSpecs st kids h
  split; · exact inv_genVar ev st e h
  split; · exact ih.genIf st e kids h
  split; · exact inv_genDefaults st kids h
  split; · exact ih.genFor st e kids h
  split; · exact ih.genGroup st e kids h
  split
  · exact ih.genContainer st e _ h
  · exact inv_genOther ev st e h

theorem genSpecs_step (st : St ρ) kids (h : st.scopes ≠ []) :
    Inv st (Ctl.genSpecs ev (fuel + 1) st kids).1 := by
  unfold Ctl.genSpecs
  split
  · exact Inv.refl st h
  · rename_i hs
    split
    · rename_i ks
      have hp := ih.processNodes { st with inSpecs := true } ks h
      dsimp only
      refine ⟨hp.1, hp.2.1, hp.2.2.1, hp.2.2.2.1, ?_⟩
      simp only [Bool.not_eq_true] at hs
      simp [hs]
    · exact Inv.refl st h

theorem genReuse_step (st : St ρ) e (h : st.scopes ≠ []) :
    Inv st (Ctl.genReuse ev (fuel + 1) st e).1 := by
  unfold Ctl.genReuse
  apply inv_seq _ _ (inv_withRng st _ h)
  intro h1 re
  have hp : ((withRng st (evalAttributes ev st e)).1.pushElement re).scopes ≠ [] := by simp [St.pushElement]
  have hbody : Inv ((withRng st (evalAttributes ev st e)).1.pushElement re)
      (seq (reusePrepare ev ((withRng st (evalAttributes ev st e)).1.pushElement re) re) fun st1 ik =>
        match ik.2 with
        | some ks => Ctl.processNodes ev fuel st1 (Nodes.cons (.elem ik.1 (some ks) none) .nil)
        | none => Ctl.genElem ev fuel st1 ik.1 none).1 := by
    apply inv_seq _ _ (inv_reusePrepare ev _ re hp)
    intro h2 ik
    split
    · exact ih.processNodes _ _ h2
    · exact ih.genElem _ _ _ h2
  exact (inv_push_pop re hbody h1).1

theorem genIf_step (st : St ρ) e kids (h : st.scopes ≠ []) :
    Inv st (Ctl.genIf ev (fuel + 1) st e kids).1 := by
  unfold Ctl.genIf
  split
  · exact Inv.refl st h
  · split
    · apply inv_seq _ _ (inv_withRng st _ h)
      intro h1 b
      split
      · exact ih.processNodes _ _ h1
      · exact Inv.refl _ h1
    · exact Inv.refl st h

theorem genContainer_step (st : St ρ) e ks (h : st.scopes ≠ []) :
    Inv st (Ctl.genContainer ev (fuel + 1) st e ks).1 := by
  unfold Ctl.genContainer
  split
  · split
    · exact Inv.refl st h
    · rename_i hd
      dsimp only
      have hg := ih.genElem { st with depth := st.depth - 1 } (e.setAttr cs!"text" ‹_›) none h
      refine ⟨?_, hg.2.1, hg.2.2.1, hg.2.2.2.1, hg.2.2.2.2⟩
      have h1 := hg.1
      have h2 : st.depth ≠ 0 := by simpa using hd
      simp only at h1 ⊢
      omega
  · split
    · exact Inv.refl st h
    · apply inv_seq _ _ (inv_withRng st _ h)
      intro h1 ne
      apply inv_seq
      · split
        · exact Inv.refl _ h1
        · exact ih.processNodes _ _ h1
      · intro h2 r
        exact inv_finishContainer ev _ _ _ h2

theorem genGroup_step (st : St ρ) e kids (h : st.scopes ≠ []) :
    Inv st (Ctl.genGroup ev (fuel + 1) st e kids).1 := by
  unfold Ctl.genGroup
  apply inv_seq _ _ (inv_withRng st _ h)
  intro h1 ne
  -- the body runs between push and pop
  have hp : ((withRng st (evalAttributes ev st e)).1.pushElement e).scopes ≠ [] := by simp [St.pushElement]
  have hbody : Inv ((withRng st (evalAttributes ev st e)).1.pushElement e)
      (match kids with
        | none => (((withRng st (evalAttributes ev st e)).1.pushElement e), (Except.ok ([Ev.empty (adapt ne)], none) : Res))
        | some ks =>
          seq (Ctl.processNodes ev fuel ((withRng st (evalAttributes ev st e)).1.pushElement e) ks) fun st r =>
            (st, .ok ([Ev.start (adapt ne)] ++ r.1 ++ [Ev.end_ ne.name], r.2))).1 := by
    split
    · exact Inv.refl _ hp
    · apply inv_seq _ _ (ih.processNodes _ _ hp)
      intro h2 r
      exact Inv.refl _ h2
  have hpp := inv_push_pop e hbody h1
  apply inv_seq (popAfter _) _ hpp.1
  intro h3 r
  exact inv_groupFinish ev _ e r h3

theorem loopIter_step (st : St ρ) ks c w u n v s i acc bb (h : st.scopes ≠ []) :
    Inv st (Ctl.loopIter ev (fuel + 1) st ks c w u n v s i acc bb).1 := by
  unfold Ctl.loopIter
  apply inv_seq _ _ (inv_preTest ev st c w i h)
  intro h1 go
  split
  · exact Inv.refl _ h1
  · have hb := inv_bindLoopVar (preTest ev st c w i).1 n v h1
    apply inv_seq _ _ (hb.trans (ih.processNodes _ _ hb.2.2.1))
    intro h2 r
    split
    · exact Inv.refl _ h2
    · apply inv_seq _ _ (inv_postTest ev _ u h2)
      intro h3 stop
      split
      · exact Inv.refl _ h3
      · exact ih.loopIter _ _ _ _ _ _ _ _ _ _ _ h3

theorem genLoop_step (st : St ρ) e kids (h : st.scopes ≠ []) :
    Inv st (Ctl.genLoop ev (fuel + 1) st e kids).1 := by
  unfold Ctl.genLoop
  dsimp only
  split
  · split
    · exact Inv.refl st h
    · rename_i cnt name start step rng _
      have h0 : Inv st { st with rng := rng } := inv_of_fields _ _ h rfl rfl rfl rfl
      exact h0.trans (ih.loopIter _ _ _ _ _ _ _ _ _ _ _ h)
  all_goals exact Inv.refl st h

theorem forIter_step (st : St ρ) ks v iv items idx acc bb (h : st.scopes ≠ []) :
    Inv st (Ctl.forIter ev (fuel + 1) st ks v iv items idx acc bb).1 := by
  cases items with
  | nil => unfold Ctl.forIter; exact Inv.refl st h
  | cons item items =>
    unfold Ctl.forIter
    have hb := inv_bindForVars st v iv item idx h
    apply inv_seq _ _ (hb.trans (ih.processNodes _ _ hb.2.2.1))
    intro h2 r
    split
    · exact Inv.refl _ h2
    · exact ih.forIter _ _ _ _ _ _ _ _ h2

theorem genFor_step (st : St ρ) e kids (h : st.scopes ≠ []) :
    Inv st (Ctl.genFor ev (fuel + 1) st e kids).1 := by
  unfold Ctl.genFor
  split
  · apply inv_seq _ _ (inv_withRng st _ h)
    intro h1 items
    exact ih.forIter _ _ _ _ _ _ _ _ h1
  all_goals exact Inv.refl st h

theorem genNode_step (st : St ρ) n (h : st.scopes ≠ []) :
    Inv st (Ctl.genNode ev (fuel + 1) st n).1 := by
  cases n with
  | elem e kids tail =>
    unfold Ctl.genNode
    apply inv_seq _ _ (ih.genElem st (leafDefaults st e kids) kids h)
    intro h1 r
    exact Inv.refl _ h1
  | comment c tail => unfold Ctl.genNode; exact Inv.refl st h
  | text t => unfold Ctl.genNode; exact Inv.refl st h
  | cdata c => unfold Ctl.genNode; exact Inv.refl st h

theorem onePass_step (st : St ρ) ts outs bb rem (h : st.scopes ≠ []) :
    Inv st (Ctl.onePass ev (fuel + 1) st ts outs bb rem).1 := by
  cases ts with
  | nil => unfold Ctl.onePass; exact Inv.refl st h
  | cons t ts =>
    unfold Ctl.onePass
    have hr := inv_registerEarly ev st t.node h
    have hg := hr.trans (ih.genNode _ t.node hr.2.2.1)
    dsimp only
    split
    · split
      · exact hg
      · split
        · exact hg.trans (ih.onePass _ _ _ _ _ hg.2.2.1)
        · exact hg.trans (ih.onePass _ _ _ _ _ hg.2.2.1)
    · split
      · exact hg.trans (ih.onePass _ _ _ _ _ hg.2.2.1)
      · exact hg.trans (ih.onePass _ _ _ _ _ hg.2.2.1)

theorem retry_step (st : St ρ) ts outs bb (h : st.scopes ≠ []) :
    Inv st (Ctl.retry ev (fuel + 1) st ts outs bb).1 := by
  cases ts with
  | nil => unfold Ctl.retry; exact Inv.refl st h
  | cons t ts =>
    unfold Ctl.retry
    apply inv_seq _ _ (ih.onePass st _ _ _ _ h)
    intro h1 r
    split
    · exact Inv.refl _ h1
    · split
      · split
        · exact Inv.refl _ h1
        · split
          · exact inv_of_fields _ _ h1 rfl rfl rfl rfl
          · exact (inv_of_fields _ _ h1 rfl rfl rfl rfl).trans (ih.retry _ _ _ _ h1)
      · exact ih.retry _ _ _ _ h1

theorem processNodes_step (st : St ρ) ks (h : st.scopes ≠ []) :
    Inv st (Ctl.processNodes ev (fuel + 1) st ks).1 := by
  unfold Ctl.processNodes
  apply inv_seq _ _ (ih.retry st _ _ _ h)
  intro h1 r
  exact Inv.refl _ h1

end step

/-- **state restoration, all functions, all fuel, every outcome** -/
theorem allInv (ev : Evalr ρ) : ∀ fuel, AllInv ev fuel
  | 0 => allInv_zero ev
  | fuel + 1 =>
    let ih := allInv ev fuel
    { genElem := genElem_step ev fuel ih
      dispatch := dispatch_step ev fuel ih
      genSpecs := genSpecs_step ev fuel ih
      genReuse := genReuse_step ev fuel ih
      genIf := genIf_step ev fuel ih
      genContainer := genContainer_step ev fuel ih
      genGroup := genGroup_step ev fuel ih
      genLoop := genLoop_step ev fuel ih
      loopIter := loopIter_step ev fuel ih
      genFor := genFor_step ev fuel ih
      forIter := forIter_step ev fuel ih
      genNode := genNode_step ev fuel ih
      onePass := onePass_step ev fuel ih
      retry := retry_step ev fuel ih
      processNodes := processNodes_step ev fuel ih }

end Svgdx.Ctl
