/-
  Svgdx.Proofs.DefaultsApply — what `apply_defaults` (`Svgdx.Ctl.Defaults`) does to an element: the name is
  kept; every attribute of the result is one of the element's, one of a stored default's, or one of the three
  augmented attributes (`style`, `text-style`, `transform`); attribute names stay unique; for every other key
  the element's own value wins, otherwise the accumulated default (`get_applyDefaultList`).
-/
import Svgdx.Ctl.Gen
import Svgdx.Proofs.Attrs
import Svgdx.Proofs.ElemName
namespace Svgdx
open Str

namespace Attrs

theorem mem_updateInPlace {k v : Str} {a : Attrs} {x : Str × Str} (h : x ∈ updateInPlace k v a) :
    x = (k, v) ∨ x ∈ a := by
  induction a with
  | nil => simp [updateInPlace] at h
  | cons y ys ih =>
    obtain ⟨k', v'⟩ := y
    simp only [updateInPlace] at h
    split at h
    · rename_i hk
      have hk' : k' = k := by simpa using hk
      rcases List.mem_cons.mp h with h | h
      · left; rw [h, hk']
      · right; exact List.mem_cons_of_mem _ h
    · rcases List.mem_cons.mp h with h | h
      · right; rw [h]; exact List.mem_cons_self
      · rcases ih h with h | h
        · exact Or.inl h
        · exact Or.inr (List.mem_cons_of_mem _ h)

theorem mem_insert {a : Attrs} {k v : Str} {x : Str × Str} (h : x ∈ insert a k v) : x = (k, v) ∨ x ∈ a := by
  unfold insert at h
  have h' := (reorder_perm _).mem_iff.mp h
  split at h'
  · exact mem_updateInPlace h'
  · rcases List.mem_append.mp h' with h' | h'
    · exact Or.inr h'
    · left; simpa using h'

theorem mem_pop {a : Attrs} {k : Str} {x : Str × Str} (h : x ∈ (pop a k).1) : x ∈ a := by
  induction a with
  | nil => simp [pop] at h
  | cons y ys ih =>
    obtain ⟨k', v'⟩ := y
    simp only [pop] at h
    split at h
    · exact List.mem_cons_of_mem _ h
    · rcases List.mem_cons.mp h with h | h
      · rw [h]; exact List.mem_cons_self
      · exact List.mem_cons_of_mem _ (ih h)

theorem pop_nodup {a : Attrs} (h : NodupKeys a) (k : Str) : NodupKeys (pop a k).1 := remove_nodup h k

/-- popping one key leaves the lookup of every other key alone -/
theorem get_pop_other (a : Attrs) (k k2 : Str) (hne : k2 ≠ k) : get (pop a k).1 k2 = get a k2 := by
  unfold get
  induction a with
  | nil => simp [pop]
  | cons y ys ih =>
    obtain ⟨k', v'⟩ := y
    simp only [pop]
    split
    · rename_i hk
      have hk' : k' = k := by simpa using hk
      have : (k' == k2) = false := by
        rw [hk']; simpa using (fun e => hne e.symm)
      simp [lookupTable, this]
    · simp only [lookupTable]
      split
      · rfl
      · exact ih

/-- `AttrMap::update`: for every key the updating map wins, otherwise the updated one -/
theorem get_foldl_insert (b : Attrs) : ∀ (a : Attrs), NodupKeys a → NodupKeys b → ∀ k,
    get (b.foldl (fun acc kv => insert acc kv.1 kv.2) a) k = (get b k).or (get a k) := by
  induction b with
  | nil => intro a _ _ k; simp [get, lookupTable]
  | cons y ys ih =>
    intro a ha hb k
    obtain ⟨k', v'⟩ := y
    have hys : NodupKeys ys := by
      simp only [NodupKeys, keys, List.map_cons, List.nodup_cons] at hb ⊢; exact hb.2
    have hk'ys : k' ∉ keys ys := by
      simp only [NodupKeys, keys, List.map_cons, List.nodup_cons] at hb ⊢; exact hb.1
    rw [List.foldl_cons, ih _ (insert_nodup ha k' v') hys k]
    by_cases hk : k = k'
    · subst hk
      have h1 : get ys k = none := (lookup_none_iff k).mpr hk'ys
      rw [h1, get_insert_self ha]
      simp [get, lookupTable]
    · have hb' : (k' == k) = false := by simpa using (fun e => hk e.symm)
      rw [get_insert_other ha k' v' k hk]
      simp [get, lookupTable, hb']

end Attrs

namespace Ctl
open Attrs

/-- the attributes `apply_defaults` joins instead of replacing -/
def augKeys : List Str := [cs!"style", cs!"text-style", cs!"transform"]

/-! ### element operations -/

theorem setAttr_mem {e : Elem} {k v : Str} {x : Str × Str} (h : x ∈ (e.setAttr k v).attrs) :
    x = (k, v) ∨ x ∈ e.attrs := mem_insert h

theorem setDefaultAttr_mem {e : Elem} {k v : Str} {x : Str × Str} (h : x ∈ (e.setDefaultAttr k v).attrs) :
    x = (k, v) ∨ x ∈ e.attrs := by
  unfold Elem.setDefaultAttr at h
  split at h
  · exact Or.inr h
  · exact setAttr_mem h

theorem setDefaultAttr_nodup {e : Elem} (h : NodupKeys e.attrs) (k v : Str) : NodupKeys (e.setDefaultAttr k v).attrs := by
  unfold Elem.setDefaultAttr
  split
  · exact h
  · exact insert_nodup h k v

@[simp] theorem setDefaultAttr_classes (e : Elem) (k v : Str) : (e.setDefaultAttr k v).classes = e.classes := by
  unfold Elem.setDefaultAttr; split <;> rfl

@[simp] theorem popAttr_classes (e : Elem) (k : Str) : (e.popAttr k).1.classes = e.classes := rfl
@[simp] theorem popAttr_attrs (e : Elem) (k : Str) : (e.popAttr k).1.attrs = (Attrs.pop e.attrs k).1 := rfl

theorem popAttr_mem {e : Elem} {k : Str} {x : Str × Str} (h : x ∈ (e.popAttr k).1.attrs) : x ∈ e.attrs := mem_pop h

theorem popAttr_nodup {e : Elem} (h : NodupKeys e.attrs) (k : Str) : NodupKeys (e.popAttr k).1.attrs := pop_nodup h k

/-! ### the stored default -/

@[simp] theorem storedDefault_name (e : Elem) : (storedDefault e).name = e.name := rfl
@[simp] theorem storedDefault_classes (e : Elem) : (storedDefault e).classes = e.classes := rfl

theorem storedDefault_mem {e : Elem} {x : Str × Str} (h : x ∈ (storedDefault e).attrs) : x ∈ e.attrs :=
  (List.mem_filter.mp h).1

theorem storedDefault_nodup {e : Elem} (h : NodupKeys e.attrs) : NodupKeys (storedDefault e).attrs := by
  unfold NodupKeys keys storedDefault at *
  exact h.sublist (List.filter_sublist.map _)

/-- `id` (and `match`) can never be defaulted -/
theorem storedDefault_no_id (e : Elem) : (storedDefault e).getAttr cs!"id" = none := by
  unfold Elem.getAttr
  rw [Attrs.get, lookup_none_iff]
  intro hk
  obtain ⟨x, hx, hx1⟩ := List.mem_map.mp hk
  have := (List.mem_filter.mp hx).2
  simp [hx1] at this

theorem pop_eq_filter {a : Attrs} (h : NodupKeys a) (k : Str) : (Attrs.pop a k).1 = a.filter (fun kv => !(kv.1 == k)) := by
  induction a with
  | nil => rfl
  | cons y ys ih =>
    obtain ⟨k', v'⟩ := y
    have hys : NodupKeys ys := by
      simp only [NodupKeys, keys, List.map_cons, List.nodup_cons] at h ⊢; exact h.2
    have hk'ys : k' ∉ keys ys := by
      simp only [NodupKeys, keys, List.map_cons, List.nodup_cons] at h ⊢; exact h.1
    simp only [Attrs.pop]
    by_cases hk : k' = k
    · subst hk
      simp only [beq_self_eq_true, if_true, List.filter_cons, Bool.not_true, Bool.false_eq_true, if_false]
      symm
      rw [List.filter_eq_self]
      intro x hx
      have : x.1 ≠ k' := fun hxe => hk'ys (List.mem_map.mpr ⟨x, hx, hxe⟩)
      simpa using this
    · have hb : (k' == k) = false := by simpa using hk
      simp only [hb, Bool.false_eq_true, if_false, List.filter_cons, Bool.not_false, if_true]
      rw [ih hys]

/-- on an attribute map as the code has it (unique keys) the stored default is `pop_attr("id")`, `pop_attr("match")` -/
theorem storedDefault_eq_pop {e : Elem} (h : NodupKeys e.attrs) :
    storedDefault e = ((e.popAttr cs!"id").1.popAttr cs!"match").1 := by
  unfold storedDefault Elem.popAttr
  dsimp only
  congr 1
  rw [pop_eq_filter (pop_nodup h _), pop_eq_filter h, List.filter_filter]
  congr 1
  funext kv
  cases (kv.1 == cs!"id") <;> cases (kv.1 == cs!"match") <;> rfl

/-! ### the walk -/

/-- the default with its three augmented attributes popped -/
def strippedDefault (d : Elem) : Elem :=
  (((d.popAttr cs!"style").1.popAttr cs!"text-style").1.popAttr cs!"transform").1

theorem strippedDefault_mem {d : Elem} {x : Str × Str} (h : x ∈ (strippedDefault d).attrs) : x ∈ d.attrs :=
  popAttr_mem (popAttr_mem (popAttr_mem h))

theorem strippedDefault_nodup {d : Elem} (h : NodupKeys d.attrs) : NodupKeys (strippedDefault d).attrs :=
  popAttr_nodup (popAttr_nodup (popAttr_nodup h _) _) _

theorem strippedDefault_get (d : Elem) (k : Str) (hk : k ∉ augKeys) :
    Attrs.get (strippedDefault d).attrs k = Attrs.get d.attrs k := by
  have h1 : k ≠ cs!"style" := fun h => hk (by rw [h]; decide)
  have h2 : k ≠ cs!"text-style" := fun h => hk (by rw [h]; decide)
  have h3 : k ≠ cs!"transform" := fun h => hk (by rw [h]; decide)
  simp only [strippedDefault, popAttr_attrs, get_pop_other _ _ _ h1, get_pop_other _ _ _ h2, get_pop_other _ _ _ h3]

theorem attrsUpdate_mem {a b : Attrs} {x : Str × Str} (h : x ∈ attrsUpdate a b) : x ∈ a ∨ x ∈ b := by
  unfold attrsUpdate at h
  induction b generalizing a with
  | nil => exact Or.inl h
  | cons y ys ih =>
    rw [List.foldl_cons] at h
    rcases ih h with h | h
    · rcases mem_insert h with h | h
      · right; rw [h]; exact List.mem_cons_self
      · exact Or.inl h
    · exact Or.inr (List.mem_cons_of_mem _ h)

theorem applyOne_attrs_mem {el : Elem} {acc : DefAcc} {d : ElementMatch × Elem} {x : Str × Str}
    (h : x ∈ (applyOne el acc d).attrs) : x ∈ acc.attrs ∨ x ∈ d.2.attrs := by
  unfold applyOne at h
  split at h
  · exact Or.inl h
  · dsimp only at h
    split at h
    · exact Or.inr (strippedDefault_mem h)
    · rcases attrsUpdate_mem h with h | h
      · exact Or.inl h
      · exact Or.inr (strippedDefault_mem h)

theorem collect_attrs_mem (el : Elem) (defs : List (ElementMatch × Elem)) (acc : DefAcc) {x : Str × Str}
    (h : x ∈ (defs.foldl (applyOne el) acc).attrs) : x ∈ acc.attrs ∨ ∃ d ∈ defs, x ∈ d.2.attrs := by
  induction defs generalizing acc with
  | nil => exact Or.inl h
  | cons d ds ih =>
    rw [List.foldl_cons] at h
    rcases ih _ h with h | ⟨d', hd', hx⟩
    · rcases applyOne_attrs_mem h with h | h
      · exact Or.inl h
      · exact Or.inr ⟨d, List.mem_cons_self, h⟩
    · exact Or.inr ⟨d', List.mem_cons_of_mem _ hd', hx⟩

theorem collectDefaults_attrs_mem (el : Elem) (defs : List (ElementMatch × Elem)) {x : Str × Str}
    (h : x ∈ (collectDefaults defs el).attrs) : ∃ d ∈ defs, x ∈ d.2.attrs := by
  rcases collect_attrs_mem el defs {} h with h | h
  · cases h
  · exact h

/-! ### the tail of `apply_defaults` -/

theorem augment_mem {el : Elem} {k : Str} {vals : List Str} {sep : Str} {x : Str × Str}
    (h : x ∈ (augment el k vals sep).attrs) : x ∈ el.attrs ∨ x.1 = k := by
  unfold augment at h
  split at h
  · exact Or.inl h
  · rcases setAttr_mem h with h | h
    · right; rw [h]
    · exact Or.inl (popAttr_mem h)

theorem augment_nodup {el : Elem} (hn : NodupKeys el.attrs) (k : Str) (vals : List Str) (sep : Str) :
    NodupKeys (augment el k vals sep).attrs := by
  unfold augment
  split
  · exact hn
  · exact insert_nodup (popAttr_nodup hn k) _ _

@[simp] theorem augment_name (el : Elem) (k : Str) (vals : List Str) (sep : Str) :
    (augment el k vals sep).name = el.name := by
  unfold augment; split <;> rfl

@[simp] theorem augment_classes (el : Elem) (k : Str) (vals : List Str) (sep : Str) :
    (augment el k vals sep).classes = el.classes := by
  unfold augment; split <;> rfl

theorem augment_get_other (el : Elem) (hn : NodupKeys el.attrs) (k : Str) (vals : List Str) (sep : Str) (k2 : Str)
    (hne : k2 ≠ k) : (augment el k vals sep).getAttr k2 = el.getAttr k2 := by
  unfold augment
  split
  · rfl
  · simp only [Elem.getAttr, Elem.setAttr]
    rw [get_insert_other (popAttr_nodup hn k) _ _ _ hne]
    exact get_pop_other _ _ _ hne

theorem foldl_setDefault_mem (l : Attrs) (el : Elem) {x : Str × Str}
    (h : x ∈ (l.foldl (fun (e : Elem) kv => e.setDefaultAttr kv.1 kv.2) el).attrs) : x ∈ el.attrs ∨ x ∈ l := by
  induction l generalizing el with
  | nil => exact Or.inl h
  | cons y ys ih =>
    rw [List.foldl_cons] at h
    rcases ih _ h with h | h
    · rcases setDefaultAttr_mem h with h | h
      · right; rw [h]; exact List.mem_cons_self
      · exact Or.inl h
    · exact Or.inr (List.mem_cons_of_mem _ h)

theorem foldl_setDefault_nodup (l : Attrs) (el : Elem) (hn : NodupKeys el.attrs) :
    NodupKeys (l.foldl (fun (e : Elem) kv => e.setDefaultAttr kv.1 kv.2) el).attrs := by
  induction l generalizing el with
  | nil => exact hn
  | cons y ys ih => rw [List.foldl_cons]; exact ih _ (setDefaultAttr_nodup hn _ _)

@[simp] theorem foldl_setDefault_name (l : Attrs) (el : Elem) :
    (l.foldl (fun (e : Elem) kv => e.setDefaultAttr kv.1 kv.2) el).name = el.name := by
  induction l generalizing el with
  | nil => rfl
  | cons y ys ih => rw [List.foldl_cons, ih, setDefaultAttr_name]

@[simp] theorem foldl_setDefault_classes (l : Attrs) (el : Elem) :
    (l.foldl (fun (e : Elem) kv => e.setDefaultAttr kv.1 kv.2) el).classes = el.classes := by
  induction l generalizing el with
  | nil => rfl
  | cons y ys ih => rw [List.foldl_cons, ih, setDefaultAttr_classes]

/-- `set_default_attr` over the accumulated defaults: the element's own value, else the first default for the key -/
theorem foldl_setDefault_get (l : Attrs) (el : Elem) (hn : NodupKeys el.attrs) (k : Str) :
    (l.foldl (fun (e : Elem) kv => e.setDefaultAttr kv.1 kv.2) el).getAttr k = (el.getAttr k).or (Attrs.get l k) := by
  induction l generalizing el with
  | nil => simp [Attrs.get, lookupTable]
  | cons y ys ih =>
    obtain ⟨k', v'⟩ := y
    rw [List.foldl_cons, ih _ (setDefaultAttr_nodup hn _ _)]
    unfold Elem.setDefaultAttr
    by_cases hh : el.hasAttr k' = true
    · simp only [hh, if_true]
      by_cases hk : k' = k
      · subst hk
        simp only [Elem.hasAttr, Attrs.contains] at hh
        simp only [Elem.getAttr]
        cases hg : Attrs.get el.attrs k' with
        | none => rw [hg] at hh; cases hh
        | some v => simp
      · have : (k' == k) = false := by simpa using hk
        simp [Attrs.get, lookupTable, this]
    · simp only [hh, Bool.false_eq_true, if_false]
      by_cases hk : k' = k
      · subst hk
        have hnone : el.getAttr k' = none := by
          simp only [Elem.hasAttr, Attrs.contains] at hh
          simp only [Elem.getAttr]
          cases hg : Attrs.get el.attrs k' with
          | none => rfl
          | some v => rw [hg] at hh; simp at hh
        simp only [Elem.getAttr, Elem.setAttr] at hnone ⊢
        rw [get_insert_self hn, hnone]
        simp [Attrs.get, lookupTable]
      · have hb : (k' == k) = false := by simpa using hk
        simp only [Elem.getAttr, Elem.setAttr]
        rw [get_insert_other hn k' v' k (fun e => hk e.symm)]
        simp [Attrs.get, lookupTable, hb]

theorem finishDefaults_mem {acc : DefAcc} {el : Elem} {x : Str × Str} (h : x ∈ (finishDefaults acc el).attrs) :
    x ∈ el.attrs ∨ x ∈ acc.attrs ∨ x.1 ∈ augKeys := by
  unfold finishDefaults at h
  rcases augment_mem h with h | h
  · rcases augment_mem h with h | h
    · rcases augment_mem h with h | h
      · rcases foldl_setDefault_mem _ _ h with h | h
        · exact Or.inl h
        · exact Or.inr (Or.inl h)
      · exact Or.inr (Or.inr (by rw [h]; decide))
    · exact Or.inr (Or.inr (by rw [h]; decide))
  · exact Or.inr (Or.inr (by rw [h]; decide))

theorem finishDefaults_nodup (acc : DefAcc) {el : Elem} (hn : NodupKeys el.attrs) :
    NodupKeys (finishDefaults acc el).attrs := by
  unfold finishDefaults
  dsimp only
  have n0 := foldl_setDefault_nodup acc.attrs el hn
  have n0' : NodupKeys ({ (acc.attrs.foldl (fun (e : Elem) kv => e.setDefaultAttr kv.1 kv.2) el) with
      classes := classesExtend (acc.attrs.foldl (fun (e : Elem) kv => e.setDefaultAttr kv.1 kv.2) el).classes acc.classes } : Elem).attrs := n0
  have n1 := augment_nodup n0' cs!"style" acc.styles cs!"; "
  have n2 := augment_nodup n1 cs!"text-style" acc.textStyles cs!"; "
  exact augment_nodup n2 cs!"transform" acc.transforms [' ']

@[simp] theorem finishDefaults_name (acc : DefAcc) (el : Elem) : (finishDefaults acc el).name = el.name := by
  simp [finishDefaults]

theorem finishDefaults_classes (acc : DefAcc) (el : Elem) :
    (finishDefaults acc el).classes = classesExtend el.classes acc.classes := by
  simp [finishDefaults]

theorem finishDefaults_get (acc : DefAcc) (el : Elem) (hn : NodupKeys el.attrs) (k : Str) (hk : k ∉ augKeys) :
    (finishDefaults acc el).getAttr k = (el.getAttr k).or (Attrs.get acc.attrs k) := by
  have h1 : k ≠ cs!"style" := fun h => hk (by rw [h]; decide)
  have h2 : k ≠ cs!"text-style" := fun h => hk (by rw [h]; decide)
  have h3 : k ≠ cs!"transform" := fun h => hk (by rw [h]; decide)
  unfold finishDefaults
  dsimp only
  have n0 := foldl_setDefault_nodup acc.attrs el hn
  have n0' : NodupKeys ({ (acc.attrs.foldl (fun (e : Elem) kv => e.setDefaultAttr kv.1 kv.2) el) with
      classes := classesExtend (acc.attrs.foldl (fun (e : Elem) kv => e.setDefaultAttr kv.1 kv.2) el).classes acc.classes } : Elem).attrs := n0
  have n1 := augment_nodup n0' cs!"style" acc.styles cs!"; "
  have n2 := augment_nodup n1 cs!"text-style" acc.textStyles cs!"; "
  rw [augment_get_other _ n2 _ _ _ _ h3, augment_get_other _ n1 _ _ _ _ h2, augment_get_other _ n0' _ _ _ _ h1]
  exact foldl_setDefault_get acc.attrs el hn k

/-! ### `apply_defaults` as a whole -/

@[simp] theorem applyDefaultList_name (defs : List (ElementMatch × Elem)) (el : Elem) :
    (applyDefaultList defs el).name = el.name := by simp [applyDefaultList]

/-- every attribute of the result is the element's, a stored default's, or one of the augmented three -/
theorem applyDefaultList_mem {defs : List (ElementMatch × Elem)} {el : Elem} {x : Str × Str}
    (h : x ∈ (applyDefaultList defs el).attrs) :
    x ∈ el.attrs ∨ (∃ d ∈ defs, x ∈ d.2.attrs) ∨ x.1 ∈ augKeys := by
  unfold applyDefaultList at h
  rcases finishDefaults_mem h with h | h | h
  · exact Or.inl h
  · exact Or.inr (Or.inl (collectDefaults_attrs_mem el defs h))
  · exact Or.inr (Or.inr h)

theorem applyDefaultList_nodup (defs : List (ElementMatch × Elem)) {el : Elem} (hn : NodupKeys el.attrs) :
    NodupKeys (applyDefaultList defs el).attrs := finishDefaults_nodup _ hn

/-- for every key but the three augmented ones: the element's own value, else the accumulated default -/
theorem get_applyDefaultList (defs : List (ElementMatch × Elem)) (el : Elem) (hn : NodupKeys el.attrs) (k : Str)
    (hk : k ∉ augKeys) :
    (applyDefaultList defs el).getAttr k = (el.getAttr k).or (Attrs.get (collectDefaults defs el).attrs k) :=
  finishDefaults_get _ el hn k hk

theorem augment_nil (el : Elem) (k sep : Str) : augment el k [] sep = el := by
  unfold augment; simp

theorem applyDefaultList_nil (el : Elem) : applyDefaultList [] el = el := by
  show finishDefaults {} el = el
  unfold finishDefaults
  simp only [List.foldl_nil, classesExtend, augment_nil]

variable {ρ : Type}

@[simp] theorem applyDefaults_name (st : St ρ) (e : Elem) : (applyDefaults st e).name = e.name := by
  simp [applyDefaults]

@[simp] theorem leafDefaults_name (st : St ρ) (e : Elem) (kids : Option Nodes) : (leafDefaults st e kids).name = e.name := by
  unfold leafDefaults; split <;> simp

theorem mem_defaultsInForce {scopes : List Scope} {d : ElementMatch × Elem} (h : d ∈ defaultsInForce scopes) :
    ∃ s ∈ scopes, d ∈ s.defaults := by
  unfold defaultsInForce at h
  obtain ⟨s, hs, hd⟩ := List.mem_flatMap.mp h
  exact ⟨s, List.mem_reverse.mp hs, hd⟩

/-- a predicate on attributes that holds for the element, for every stored default and for whatever is written
    under the three augmented keys holds for the result -/
theorem applyDefaults_all (st : St ρ) (e : Elem) (p : Str × Str → Bool) (he : e.attrs.all p = true)
    (hd : ∀ s ∈ st.scopes, ∀ d ∈ s.defaults, d.2.attrs.all p = true) (ha : ∀ x : Str × Str, x.1 ∈ augKeys → p x = true) :
    (applyDefaults st e).attrs.all p = true := by
  rw [List.all_eq_true]
  intro x hx
  rcases applyDefaultList_mem hx with h | ⟨d, hd', h⟩ | h
  · exact List.all_eq_true.mp he x h
  · obtain ⟨s, hs, hds⟩ := mem_defaultsInForce hd'
    exact List.all_eq_true.mp (hd s hs d hds) x h
  · exact ha x h

/-- a key neither the element nor any stored default has (and which is not augmented) is not in the result -/
theorem applyDefaults_get_none (st : St ρ) (e : Elem) (k : Str) (hk : k ∉ augKeys) (he : e.getAttr k = none)
    (hd : ∀ s ∈ st.scopes, ∀ d ∈ s.defaults, d.2.getAttr k = none) : (applyDefaults st e).getAttr k = none := by
  unfold Elem.getAttr at *
  rw [Attrs.get, lookup_none_iff] at he ⊢
  intro hmem
  obtain ⟨x, hx, hx1⟩ := List.mem_map.mp hmem
  rcases applyDefaultList_mem hx with h | ⟨d, hd', h⟩ | h
  · exact he (List.mem_map.mpr ⟨x, h, hx1⟩)
  · obtain ⟨s, hs, hds⟩ := mem_defaultsInForce hd'
    have := hd s hs d hds
    rw [Attrs.get, lookup_none_iff] at this
    exact this (List.mem_map.mpr ⟨x, h, hx1⟩)
  · exact hk (hx1 ▸ h)

end Ctl
end Svgdx

#print axioms Svgdx.Ctl.applyDefaultList_mem
#print axioms Svgdx.Ctl.applyDefaultList_nodup
#print axioms Svgdx.Ctl.get_applyDefaultList
#print axioms Svgdx.Ctl.storedDefault_eq_pop
#print axioms Svgdx.Ctl.storedDefault_no_id
#print axioms Svgdx.Ctl.applyDefaults_all
#print axioms Svgdx.Ctl.applyDefaults_get_none
