/-
  Svgdx.Proofs.PathScan — the path-data scanner always makes progress, so the input-linear fuel of
  `Path.pathBBox` is never exhausted (C01: no hang on any `d` string).
-/
import Svgdx.Path.Scan
namespace Svgdx.Path
open Svgdx Str Num

theorem skipWs_le (s : Str) : (skipWs s).length ≤ s.length := by
  unfold skipWs; exact (List.dropWhile_sublist _).length_le

theorem skipWspComma_le (s : Str) : (skipWspComma s).length ≤ s.length := by
  unfold skipWspComma
  have h := skipWs_le s
  split
  · rename_i r heq
    have h2 := skipWs_le r
    rw [heq] at h
    simp only [List.length_cons] at h
    omega
  · exact h

theorem parseF32_nil : parseF32 [] = .err := by
  simp [parseF32]

theorem take_drop_len (p : Char → Bool) (s : Str) : (s.takeWhile p).length + (s.dropWhile p).length = s.length := by
  rw [← List.length_append, List.takeWhile_append_dropWhile]

theorem takeSign_len (s : Str) : (takeSign s).1.length + (takeSign s).2.length = s.length := by
  unfold takeSign; split <;> simp <;> omega

theorem takeDigits_len (s : Str) : (takeDigits s).1.length + (takeDigits s).2.length = s.length :=
  take_drop_len isDigit s

theorem takeFrac_len (s : Str) : (takeFrac s).1.length + (takeFrac s).2.length = s.length := by
  unfold takeFrac
  split
  · rename_i r
    have := take_drop_len isDigit r
    simp only [List.length_cons]; omega
  · simp

theorem takeExp_len (s : Str) : (takeExp s).1.length + (takeExp s).2.length = s.length := by
  unfold takeExp
  split
  · rename_i c r
    split
    · have h1 := takeSign_len r
      have h2 := take_drop_len isDigit (takeSign r).2
      simp only [List.length_cons, List.length_append]
      omega
    · simp
  · simp

/-- the scanner splits its input: token and rest together are the input -/
theorem scanNumber_len (s : Str) : (scanNumber s).1.length + (scanNumber s).2.length = s.length := by
  unfold scanNumber
  have h1 := takeSign_len s
  have h2 := takeDigits_len (takeSign s).2
  have h3 := takeFrac_len (takeDigits (takeSign s).2).2
  have h4 := takeExp_len (takeFrac (takeDigits (takeSign s).2).2).2
  simp only [List.length_append]
  omega

theorem readNumber_lt {s : Str} {q : Rat} {r : Str} (h : readNumber s = some (q, r)) :
    r.length < s.length := by
  unfold readNumber at h
  split at h
  · cases h
  · dsimp only at h
    split at h
    · rename_i q' hp
      simp only [Option.some.injEq, Prod.mk.injEq] at h
      obtain ⟨_, hr⟩ := h
      have htok : (scanNumber s).1 ≠ [] := by
        intro he; rw [he, parseF32_nil] at hp; cases hp
      have hlen := scanNumber_len s
      have hpos : 0 < (scanNumber s).1.length := List.length_pos_iff.mpr htok
      have := skipWspComma_le (scanNumber s).2
      rw [← hr]
      omega
    · cases h

theorem readFlag_lt {s r : Str} (h : readFlag s = some r) : r.length < s.length := by
  unfold readFlag at h
  split at h
  · rename_i r0
    simp only [Option.some.injEq] at h
    have := skipWspComma_le r0
    rw [← h]; simp only [List.length_cons]; omega
  · rename_i r0
    simp only [Option.some.injEq] at h
    have := skipWspComma_le r0
    rw [← h]; simp only [List.length_cons]; omega
  · cases h

theorem readCoord_lt {s : Str} {xy : Rat × Rat} {r : Str} (h : readCoord s = some (xy, r)) :
    r.length < s.length := by
  unfold readCoord at h
  split at h
  · cases h
  · rename_i x r1 h1
    split at h
    · cases h
    · rename_i y r2 h2
      simp only [Option.some.injEq, Prod.mk.injEq] at h
      have a := readNumber_lt h1
      have b := readNumber_lt h2
      have c := skipWspComma_le r1
      have d := skipWspComma_le r2
      rw [← h.2]
      omega

theorem update_rest (st : PState) (p : Rat × Rat) (r : Str) : (st.update p r).rest = r := by
  unfold PState.update; dsimp only; cases st.position <;> rfl

theorem update_command (st : PState) (p : Rat × Rat) (r : Str) : (st.update p r).command = st.command := by
  unfold PState.update; dsimp only; cases st.position <;> rfl

/-- marking the start of a subpath (`mark` in `step`) changes neither the input left nor the command -/
theorem mark_update (b : Bool) (s0 : PState) (q : Rat × Rat) (t : Str) :
    (if b = true then { (s0.update q t) with startPos := (s0.update q t).position } else s0.update q t).rest = t ∧
    (if b = true then { (s0.update q t) with startPos := (s0.update q t).position } else s0.update q t).command =
      s0.command := by
  cases b
  · exact ⟨update_rest _ _ _, update_command _ _ _⟩
  · exact ⟨update_rest _ _ _, update_command _ _ _⟩

/-- the remembered command is never a closepath (it is forgotten right after being applied) -/
def Good (st : PState) : Prop := st.command ≠ some 'Z' ∧ st.command ≠ some 'z'

theorem foldCoords_le (n : Nat) : ∀ (s s' : Str),
    (List.range n).foldl (fun (acc : Option Str) _ => acc.bind fun x => (readCoord x).map (·.2)) (some s) = some s' →
    s'.length ≤ s.length := by
  suffices h : ∀ (l : List Nat) (s s' : Str),
      l.foldl (fun (acc : Option Str) _ => acc.bind fun x => (readCoord x).map (·.2)) (some s) = some s' →
      s'.length ≤ s.length from fun s s' => h _ s s'
  intro l
  induction l with
  | nil => intro s s' h; simp at h; subst h; exact Nat.le_refl _
  | cons a l ih =>
    intro s s' h
    simp only [List.foldl_cons, Option.bind_some] at h
    cases hc : readCoord s with
    | none =>
      rw [hc] at h
      simp only [Option.map_none] at h
      have : ∀ (l : List Nat), l.foldl (fun (acc : Option Str) _ => acc.bind fun x => (readCoord x).map (·.2)) none = none := by
        intro l; induction l with
        | nil => rfl
        | cons _ _ ih => simpa using ih
      rw [this] at h; cases h
    | some v =>
      rw [hc] at h
      simp only [Option.map_some] at h
      have := readCoord_lt (xy := v.1) (r := v.2) (by rw [hc])
      have := ih _ _ h
      omega

theorem foldNums_le (n : Nat) : ∀ (s s' : Str),
    (List.range n).foldl (fun (acc : Option Str) _ => acc.bind fun x => (readNumber x).map (·.2)) (some s) = some s' →
    s'.length ≤ s.length := by
  suffices h : ∀ (l : List Nat) (s s' : Str),
      l.foldl (fun (acc : Option Str) _ => acc.bind fun x => (readNumber x).map (·.2)) (some s) = some s' →
      s'.length ≤ s.length from fun s s' => h _ s s'
  intro l
  induction l with
  | nil => intro s s' h; simp at h; subst h; exact Nat.le_refl _
  | cons a l ih =>
    intro s s' h
    simp only [List.foldl_cons, Option.bind_some] at h
    cases hc : readNumber s with
    | none =>
      rw [hc] at h
      simp only [Option.map_none] at h
      have : ∀ (l : List Nat), l.foldl (fun (acc : Option Str) _ => acc.bind fun x => (readNumber x).map (·.2)) none = none := by
        intro l; induction l with
        | nil => rfl
        | cons _ _ ih => simpa using ih
      rw [this] at h; cases h
    | some v =>
      rw [hc] at h
      simp only [Option.map_some] at h
      have := readNumber_lt (q := v.1) (r := v.2) (by rw [hc])
      have := ih _ _ h
      omega

end Svgdx.Path

namespace Svgdx.Path
open Svgdx Str Num

theorem fetchCommand_spec {st : PState} {cmd : Char} {r : Str} (h : fetchCommand st = some (cmd, r)) :
    (r.length < st.rest.length) ∨ (r = st.rest ∧ st.command = some cmd) := by
  unfold fetchCommand at h
  split at h
  · cases h
  · rename_i c r0 heq
    split at h
    · simp only [Option.some.injEq, Prod.mk.injEq] at h
      left
      have := skipWspComma_le r0
      rw [← h.2, heq]
      simp only [List.length_cons]
      omega
    · split at h
      · rename_i k hk
        simp only [Option.some.injEq, Prod.mk.injEq] at h
        right
        exact ⟨h.2.symm, by rw [hk, h.1]⟩
      · cases h

/-- **every instruction consumes input**, and the remembered command is never a closepath afterwards -/
theorem step_lt {st st' : PState} (hg : Good st) (h : step st = some st') :
    st'.rest.length < st.rest.length ∧ Good st' := by
  unfold step at h
  split at h
  · cases h
  · rename_i cmd r hf
    have hfs := fetchCommand_spec hf
    -- `r` is no longer than the input; strictly shorter unless the command was remembered
    have hle : r.length ≤ st.rest.length := by
      rcases hfs with h1 | ⟨h1, _⟩
      · omega
      · rw [h1]; exact Nat.le_refl _
    dsimp only at h
    have hcoord : ∀ (f : (Rat × Rat) × Str → PState) (c0 : Option Char) (s : Str) (x : PState),
        (∀ p, (f p).rest = p.2 ∧ (f p).command = c0) →
        ((readCoord s).map f) = some x →
        x.rest.length < s.length ∧ x.command = c0 := by
      intro f c0 s x hf hx
      cases hc : readCoord s with
      | none => rw [hc] at hx; cases hx
      | some v =>
        rw [hc] at hx
        simp only [Option.map_some, Option.some.injEq] at hx
        rw [← hx, (hf v).1, (hf v).2]
        exact ⟨readCoord_lt (xy := v.1) (r := v.2) (by rw [hc]), rfl⟩
    have hnum : ∀ (s0 : PState) (g : Rat × Str → Rat × Rat) (s : Str) (x : PState),
        ((readNumber s).map fun p => s0.update (g p) p.2) = some x →
        x.rest.length < s.length ∧ x.command = s0.command := by
      intro s0 g s x hx
      cases hc : readNumber s with
      | none => rw [hc] at hx; cases hx
      | some v =>
        rw [hc] at hx
        simp only [Option.map_some, Option.some.injEq] at hx
        rw [← hx, update_rest, update_command]
        exact ⟨readNumber_lt (q := v.1) (r := v.2) (by rw [hc]), rfl⟩
    have good_of : ∀ x : PState, x.command = some cmd → ¬ (cmd = 'Z' ∨ cmd = 'z') → Good x := by
      intro x hx hz
      constructor
      · rw [hx]; intro he; exact hz (Or.inl (Option.some.inj he))
      · rw [hx]; intro he; exact hz (Or.inr (Option.some.inj he))
    -- finishing a branch whose continuation consumed input from `s1` with `s1` no longer than `r`
    have fin : ∀ (s1 : Str), s1.length ≤ r.length → ¬ (cmd = 'Z' ∨ cmd = 'z') →
        (st'.rest.length < s1.length ∧ st'.command = some cmd) →
        st'.rest.length < st.rest.length ∧ Good st' := by
      intro s1 h1 hz hx
      exact ⟨by omega, good_of _ hx.2 hz⟩
    by_cases hM : (cmd == 'M' || cmd == 'L' || cmd == 'T') = true
    · rw [if_pos hM] at h
      have hz : ¬ (cmd = 'Z' ∨ cmd = 'z') := by rintro (rfl | rfl) <;> simp at hM
      exact fin r (Nat.le_refl _) hz (hcoord _ (some cmd) _ _ (fun p => mark_update _ _ _ _) h)
    rw [if_neg hM] at h
    clear hM
    by_cases hM : (cmd == 'm' || cmd == 'l' || cmd == 't') = true
    · rw [if_pos hM] at h
      have hz : ¬ (cmd = 'Z' ∨ cmd = 'z') := by rintro (rfl | rfl) <;> simp at hM
      exact fin r (Nat.le_refl _) hz (hcoord _ (some cmd) _ _ (fun p => mark_update _ _ _ _) h)
    rw [if_neg hM] at h
    clear hM
    by_cases hM : (cmd == 'H') = true
    · rw [if_pos hM] at h
      have hz : ¬ (cmd = 'Z' ∨ cmd = 'z') := by rintro (rfl | rfl) <;> simp at hM
      exact fin r (Nat.le_refl _) hz (hnum _ _ _ _ h)
    rw [if_neg hM] at h
    clear hM
    by_cases hM : (cmd == 'h') = true
    · rw [if_pos hM] at h
      have hz : ¬ (cmd = 'Z' ∨ cmd = 'z') := by rintro (rfl | rfl) <;> simp at hM
      exact fin r (Nat.le_refl _) hz (hnum _ _ _ _ h)
    rw [if_neg hM] at h
    clear hM
    by_cases hM : (cmd == 'V') = true
    · rw [if_pos hM] at h
      have hz : ¬ (cmd = 'Z' ∨ cmd = 'z') := by rintro (rfl | rfl) <;> simp at hM
      exact fin r (Nat.le_refl _) hz (hnum _ _ _ _ h)
    rw [if_neg hM] at h
    clear hM
    by_cases hM : (cmd == 'v') = true
    · rw [if_pos hM] at h
      have hz : ¬ (cmd = 'Z' ∨ cmd = 'z') := by rintro (rfl | rfl) <;> simp at hM
      exact fin r (Nat.le_refl _) hz (hnum _ _ _ _ h)
    rw [if_neg hM] at h
    clear hM
    by_cases hZ : (cmd == 'Z' || cmd == 'z') = true
    · -- closepath: the command letter itself was consumed, and the command is forgotten
      rw [if_pos hZ] at h
      have hz : cmd = 'Z' ∨ cmd = 'z' := by simpa using hZ
      have hlt : r.length < st.rest.length := by
        rcases hfs with h1 | ⟨_, h2⟩
        · exact h1
        · exfalso
          rcases hz with hz | hz
          · exact hg.1 (by rw [h2, hz])
          · exact hg.2 (by rw [h2, hz])
      cases hs : st.startPos with
      | none => rw [hs] at h; cases h
      | some p =>
        rw [hs] at h
        simp only [Option.map_some, Option.some.injEq] at h
        rw [← h]
        refine ⟨?_, ?_, ?_⟩
        · show (PState.update _ p r).rest.length < _
          rw [update_rest]; exact hlt
        · show (none : Option Char) ≠ some 'Z'
          intro he; cases he
        · show (none : Option Char) ≠ some 'z'
          intro he; cases he
    rw [if_neg hZ] at h
    have hz : ¬ (cmd = 'Z' ∨ cmd = 'z') := by simpa using hZ
    -- the remaining commands skip some coordinates / numbers first
    have hbind : ∀ (o : Option Str) (f : (Rat × Rat) × Str → PState),
        (∀ p, (f p).rest = p.2 ∧ (f p).command = some cmd) →
        (∀ s1, o = some s1 → s1.length ≤ r.length) →
        (o.bind fun s => (readCoord s).map f) = some st' →
        st'.rest.length < st.rest.length ∧ Good st' := by
      intro o f hf ho hb
      cases o with
      | none => cases hb
      | some s1 =>
        simp only [Option.bind_some] at hb
        have := hcoord f (some cmd) s1 st' hf hb
        exact fin s1 (ho s1 rfl) hz this
    have hA : ∀ s1, (((((List.range 1).foldl (fun (acc : Option Str) _ => acc.bind fun x => (readCoord x).map (·.2)) (some r)).bind
        (fun s => (List.range 1).foldl (fun (acc : Option Str) _ => acc.bind fun x => (readNumber x).map (·.2)) (some s))).bind
        readFlag).bind readFlag) = some s1 →
        s1.length ≤ r.length := by
      intro s1 h1
      cases ho : (List.range 1).foldl (fun (acc : Option Str) _ => acc.bind fun x => (readCoord x).map (·.2)) (some r) with
      | none => rw [ho] at h1; cases h1
      | some s2 =>
        rw [ho] at h1
        simp only [Option.bind_some] at h1
        cases hn : (List.range 1).foldl (fun (acc : Option Str) _ => acc.bind fun x => (readNumber x).map (·.2)) (some s2) with
        | none => rw [hn] at h1; cases h1
        | some s3 =>
          rw [hn] at h1
          simp only [Option.bind_some] at h1
          cases hf : readFlag s3 with
          | none => rw [hf] at h1; cases h1
          | some s4 =>
            rw [hf] at h1
            simp only [Option.bind_some] at h1
            have a := foldCoords_le 1 r s2 ho
            have b := foldNums_le 1 s2 s3 hn
            have c := readFlag_lt hf
            have d := readFlag_lt h1
            omega
    by_cases hM : (cmd == 'C') = true
    · rw [if_pos hM] at h
      exact hbind _ _ (fun p => mark_update _ _ _ _) (fun s1 h1 => foldCoords_le 2 r s1 h1) h
    rw [if_neg hM] at h
    clear hM
    by_cases hM : (cmd == 'c') = true
    · rw [if_pos hM] at h
      exact hbind _ _ (fun p => mark_update _ _ _ _) (fun s1 h1 => foldCoords_le 2 r s1 h1) h
    rw [if_neg hM] at h
    clear hM
    by_cases hM : (cmd == 'S' || cmd == 'Q') = true
    · rw [if_pos hM] at h
      exact hbind _ _ (fun p => mark_update _ _ _ _) (fun s1 h1 => foldCoords_le 1 r s1 h1) h
    rw [if_neg hM] at h
    clear hM
    by_cases hM : (cmd == 's' || cmd == 'q') = true
    · rw [if_pos hM] at h
      exact hbind _ _ (fun p => mark_update _ _ _ _) (fun s1 h1 => foldCoords_le 1 r s1 h1) h
    rw [if_neg hM] at h
    clear hM
    by_cases hM : (cmd == 'A') = true
    · rw [if_pos hM] at h
      exact hbind _ _ (fun p => mark_update _ _ _ _) hA h
    rw [if_neg hM] at h
    clear hM
    by_cases hM : (cmd == 'a') = true
    · rw [if_pos hM] at h
      exact hbind _ _ (fun p => mark_update _ _ _ _) hA h
    rw [if_neg hM] at h
    clear hM
    cases h

/-- **the scanner never runs out of its input-linear fuel** -/
theorem run_total : ∀ (fuel : Nat) (st : PState), Good st → st.rest.length < fuel →
    (∃ s, run fuel st = .ok s) ∨ run fuel st = .err := by
  intro fuel
  induction fuel with
  | zero => intro st _ h; omega
  | succ fuel ih =>
    intro st hg hl
    rw [run]
    split
    · exact Or.inl ⟨st, rfl⟩
    · split
      · exact Or.inr rfl
      · rename_i st' hs
        obtain ⟨hlt, hg'⟩ := step_lt hg hs
        exact ih st' hg' (by omega)

/-- **`path_bbox` terminates on every `d` string with a bounding box, no box, or a parse error** — never
    by exhausting the fuel, i.e. the loop of `PathParser::evaluate` cannot spin -/
theorem pathBBox_total (d : Str) : pathBBox d ≠ .outOfFuel := by
  unfold pathBBox
  have hg : Good ({ rest := skipWs d } : PState) := by
    constructor <;> (intro h; have h' : (none : Option Char) = some _ := h; cases h')
  have hl : ({ rest := skipWs d } : PState).rest.length < d.length + 2 := by
    have := skipWs_le d
    show (skipWs d).length < d.length + 2
    omega
  rcases run_total (d.length + 2) _ hg hl with ⟨s, hs⟩ | he
  · rw [hs]; intro h; cases h
  · rw [he]; intro h; cases h

end Svgdx.Path

#print axioms Svgdx.Path.step_lt
#print axioms Svgdx.Path.run_total
#print axioms Svgdx.Path.pathBBox_total
